"""Reference definition of CRC-16/MODBUS (independent of /repo).

  init 0xFFFF, reflected polynomial 0xA001 (x^16+x^15+x^2+1 bit-reversed), no final xor,
  input and output reflected -> the plain LSB-first shift register below.
The AirTouch documents say "CRC16 MODBUS ... Use all the data except the header", transmitted
high byte first (every example frame of both vendor documents confirms it; see
spec/vendor_frames.py).

Functions here work on Python ints and on pyvc symbolic bit-vectors alike.
"""
from pyvc.sym import ite

POLY_REFLECTED = 0xA001
INIT = 0xFFFF


def bit_step(c):
    """One shift of the register."""
    return ite((c & 1) == 1, (c >> 1) ^ POLY_REFLECTED, c >> 1)


def byte_step(c, v):
    """Register after absorbing one byte v (0..255)."""
    c = c ^ v
    for _ in range(8):
        c = bit_step(c)
    return c


def crc16_modbus(data) -> int:
    c = INIT
    for v in data:
        c = byte_step(c, v)
    return c


def check_bytes(data) -> bytes:
    """The two check bytes as transmitted: high byte first."""
    c = crc16_modbus(data)
    return bytes([(c >> 8) & 0xFF, c & 0xFF])


# classic check value of the CRC catalogue: CRC-16/MODBUS("123456789") = 0x4B37
assert crc16_modbus(b"123456789") == 0x4B37
