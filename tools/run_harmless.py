#!/usr/bin/env python3
"""False-alarm test: behaviour-preserving changes (harmless/<id>/patch.diff) must leave every check at exit 0.

  python3 tools/run_harmless.py [<id> ...]
For each patch: scratch copy of /repo HEAD, patch applied, the 272 tests run, every ./check run with
PYVC_REPO=<scratch> PYVC_OUT=<temp>.  Result in harmless/<id>/result.json: exit code per property and the
VIOLATION / UNDECIDED / CHECKER-ERROR lines.  Scratch copies are removed afterwards."""
import concurrent.futures as cf
import json
import os
import shutil
import subprocess
import sys
import tempfile

VERIF = os.path.dirname(os.path.dirname(os.path.abspath(__file__)))
# ./check is run from here: a snapshot of /verif (git archive) keeps a long sweep independent of edits made meanwhile
CHECK_DIR = os.environ.get("VERIF_SNAPSHOT", VERIF)
REPO_REV = os.environ.get("SWEEP_REPO_REV", "HEAD")   # pin the commit of /repo a long sweep runs against
PROPS = [json.loads(l)["id"] for l in open(os.path.join(VERIF, "properties.jsonl"))]


def sh(cmd, cwd=None, env=None, timeout=1800):
    p = subprocess.run(cmd, shell=True, cwd=cwd, env=env, capture_output=True, text=True, timeout=timeout)
    return p.returncode, (p.stdout + p.stderr)


def run_one(hid):
    d = os.path.join(VERIF, "harmless", hid)
    tmp = tempfile.mkdtemp(prefix="/tmp/harm_")
    res = {"id": hid}
    try:
        sh(f"git -C /repo archive {REPO_REV} | tar -x -C {tmp}")
        rc, out = sh(f"git apply --whitespace=nowarn {os.path.join(d, 'patch.diff')}", cwd=tmp)
        res["patch_applies"] = rc == 0
        if rc != 0:
            res["patch_error"] = out[-400:]
            return res
        env = dict(os.environ, PYTHONPATH=tmp)
        rc, out = sh("/venv/bin/python -m pytest -q -p no:cacheprovider 2>&1 | tail -1", cwd=tmp, env=env, timeout=900)
        res["tests_patched"] = out.strip()
        outdir = os.path.join(tmp, "_verif_out")
        os.makedirs(outdir)
        env2 = dict(os.environ, PYVC_REPO=tmp, PYVC_OUT=outdir, PYVC_SWEEP_CACHE=os.path.join(outdir, ".sweep_cache"), PYVC_JOBS=os.environ.get("HARMLESS_JOBS", "4"))
        det = {}
        for p in PROPS:
            rc, out = sh(f"./check {p}", cwd=CHECK_DIR, env=env2, timeout=1800)
            lines = [l[:400] for l in out.splitlines() if l.startswith(("VIOLATION", "UNDECIDED", "CHECKER-ERROR", "BOUNDED-STAND-IN"))]
            det[p] = {"exit": rc, "lines": lines[:6]}
            if rc == 1:
                obl = []
                for l in lines:
                    if l.startswith("VIOLATION") and "replay=" in l:
                        try:
                            r = json.load(open(l.split("replay=")[1].split()[0]))
                            obl.append({"oset": r["oset"], "obligation": r["obligation"], "reproduced": r.get("reproduced_on_real_code")})
                        except Exception:  # noqa: BLE001
                            pass
                det[p]["obligations"] = obl[:8]
        res["checks"] = {p: v for p, v in det.items() if v["exit"] != 0}
        res["alarms"] = [p for p, v in det.items() if v["exit"] == 1]
        res["undecided_or_error"] = [p for p, v in det.items() if v["exit"] in (2, 3)]
        res["all_green"] = all(v["exit"] == 0 for v in det.values())
    finally:
        shutil.rmtree(tmp, ignore_errors=True)
    json.dump(res, open(os.path.join(d, "result.json"), "w"), indent=1)
    return res


def main():
    ids = sys.argv[1:] or sorted(os.listdir(os.path.join(VERIF, "harmless")))
    with cf.ThreadPoolExecutor(max_workers=int(os.environ.get("HARMLESS_WORKERS", "4"))) as ex:
        for r in ex.map(run_one, ids):
            print(f"{r['id']} | tests: {r.get('tests_patched')} | all green: {r.get('all_green')} | alarms: {r.get('alarms')} | undecided/error: {r.get('undecided_or_error')}", flush=True)


if __name__ == "__main__":
    main()
