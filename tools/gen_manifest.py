#!/usr/bin/env python3
"""Regenerates /verif/MANIFEST.json from the table below (keeps it schema-valid and consistent)."""
import json
import os
import sys

VERIF = os.path.dirname(os.path.dirname(os.path.abspath(__file__)))
sys.path.insert(0, VERIF)
from contracts import index  # noqa: E402

TECH = "contract-based deductive verification: VCs generated from the real Python AST (pyvc) against sidecar contracts, discharged by z3/cvc5"

COMMON_NOTE = ("Trusted base: the pyvc VC generator (its interpreter is cross-checked against CPython), z3 5.1 / cvc5 1.0.3, "
               "the Python semantics listed in DESIGN.md 2.3 (ints exact; floats as exact reals validated on the 0.1 grid; UTF-8 bijection), ")

CLAIMS = {
    "C01": ("proof", "Step contracts of the send path proved on the real socket.py for all states satisfying the connection invariant, with interference at every await: enqueue = unexpired old entries ++ [new entry] (for every queue length: loop contract over an SMT sequence, discharged by cvc5; small lengths additionally enumerated with native replays, labelled bounded), send_with_header stores these very header/message objects, send builds the header from the encoder's size, each drain iteration writes exactly the popped head entry's frame, _write hands header, payload and CRC to the writer back-to-back in one atomic segment or writes nothing. The induction from these steps to the history statement is mechanised: lemmas/Fifo.lean (Lean 4; one constructor per step contract, ghost tickets) proves that without write faults the frames on the wire carry strictly increasing acceptance tickets and that under any faults every accepted message is on the wire, pending, or was dropped by a step whose contract names the reason; ./check re-runs the Lean kernel when every step contract it rests on is discharged.",
            "asyncio StreamWriter/loop contracts (write keeps call order; time advances only at awaits); codecs behave as their contracts allow (stub registry); the Lean lemma is a statement over the step contracts (it is tied to the code only through the discharged obligations named in lemmas/hypotheses.json and a syntactic frame check of socket.py); 'as soon as a connection exists' (liveness) is not proved; the enumerated queue lengths 0..11 are a bounded companion of the any-length proof (they give natively replayable counterexamples)."),
    "C02": ("proof", "Retry discipline as postconditions of the real drain loop body (re-queue at head with one retry less and the same header/message/expiry, drop at zero, expiry test and write at the same loop time, no write without a connection), the policy constants, and for every public command of both API generations the policy handed to socket.send (toggle => RETRY_NON_IDEMPOTENT, absolute settings => RETRY_IDEMPOTENT, heartbeat/error-info/refresh => RETRY_CONNECTED), over all enum arguments and ability records.",
            "loop clock semantics (time does not advance inside an atomic segment); socket.send contract at the API boundary; 'at most 1 + max_retries transmissions' and 'non-idempotent at most once' follow from the handler contracts by lemmas/Fifo.lean (c02_bounded_transmissions, c02_non_idempotent_once; Lean 4, re-checked each run)."),
    "C03": ("proof", "For every message class of both generations: announced size == bytes produced and decode(encode(m)) == m with nothing left over, for all field values of the protocol domain (records fully symbolic, repeat counts 0..16 enumerated = the property's own range), header codecs, 0x1F / 0xC0 wrappers parametric in their sub-codec contracts, registries, CRC by induction over the buffer. Error texts and a single zone name are proved for every length (symbolic-length UTF-8 buffer; > 255 bytes is refused, never truncated); version lists, multi-name messages and a few variable-length records use enumerated lengths and are labelled bounded.",
            "domain predicates valid(m) written in the contract files; str modelled by its UTF-8 bytes; bounded string lengths where labelled; composition of codec contracts with socket._write/_read_one_message contracts is by matching pre/postconditions."),
    "C04": ("proof", "Every public control call of both generations, for all admissible arguments (enum products, real-valued temperatures, all ability bitmaps): exactly one socket.send, and the payload produced by the real registry's encoder for that message, read with the vendor tables transcribed in the contract files, addresses the intended AC/zone, changes exactly the requested attribute and keeps every other; codec-level encoders additionally checked field by field against the vendor layout.",
            "vendor tables transcribed by hand from docs/protocol PDFs (text in spec/vendor); quick-timer / timer-control messages are undocumented: repo-derived oracle; header address/CRC clauses rest on the header-factory and _write contracts."),
    "C05": ("proof", "Every status/ability/name/version/error decoder run on an arbitrary payload (all byte values simultaneously; record loops by loop contract for any count, AT5 with announced stride): each decoded field equals the vendor reading of its bits, documented not-available sentinels decode to absent, otherwise the decoder raises a rejection exception. One known finding (AT4 AC-status temperature sentinel).",
            "vendor tables transcribed by hand; where the document is silent the code's choice is accepted (noted in the contracts); variable-length records bounded where labelled."),
    "C06": ("proof", "Crc16Modbus.calculate equals the bitwise reference CRC-16/MODBUS for every buffer by induction over the real loop (loop invariant stated relative to the register the loop is entered with; table-vs-bitwise step lemma over bit-vectors with the 256-entry table read from the source), data handed over in parts is refused with TypeError or checksummed as the joined bytes (crc16.calculate.parts), validate <=> equality, _read_one_message returns a frame only if the received check bytes equal the CRC of header span ++ payload, a failed frame is followed by reset_connection, plus lemmas on the reference (step injective, byte difference propagates, two-byte kernel).",
            "uninterpreted CRC function with definitional instances; burst/double-bit detection beyond two adjacent bytes is a property of the polynomial and only partly mechanised (thorough tier: affine lemma)."),
    "C07": ("proof", "Safety core as local contracts of every coroutine of socket.py under interference: _connect attempts only while open, closes a connection that completes after close()/another connect, retries after exactly 2.0 s, always starts the read loop on the connected path; _disconnect closes the connection it held before anything else runs; reset_connection disconnects then schedules one connect; _read/_drain/_connect/_disconnect let no exception out given the codec exception contracts; every failed frame resets.",
            "'at most one open connection, every abandoned one closed' is closed over histories by lemmas/Conn.lean (Lean 4) from the _connect / _disconnect contracts; liveness ('within bounded time once the network behaves') remains an on-paper ranking argument: out of reach of contracts; asyncio models (validated on samples, lib.* sets); external cancellation excluded."),
    "C08": ("proof", "Deadline invariant proved on the real _heartbeat_timeout_loop with a ghost clock: when == L + timeout at every wait (armed at (re)start and after every expiry, pushed back in the same step a response is seen), expiry resets iff connected, no other call site of reset_connection; one heartbeat per interval with RETRY_CONNECTED iff connected - and the heartbeat task survives a send that the socket refuses (NotOpenError / QueueOverflowError: the caller is checked against send's full contract); defaults 300/330 s; start/stop idempotent.",
            "asyncio.timeout / Event.wait / gather modelled as in pyvc/aio.py (trusted)."),
    "C09": ("proof", "Transition contract of the real _message_received of both generations for every (state, frame shape, to-address) triple: next state, the single next request of the fixed order (version, names, abilities, AC status, timer status, zone status) sent with RETRY_CONNECTED after the state was advanced, the model update that receives the frame, completion effects (heartbeat start, AT4 poll task, initialised flag); every other pair changes nothing and sends nothing; AT5 echo rule only for to-address 0xB0. init(): subscriptions before open_socket, waits at most 5.0 s, returns the initialised flag, never raises. Model building (names, abilities incl. AT4 bitmap / single-AC / range fallbacks) on enumerated installations (bounded).",
            "that a console answering every request drives the six transitions is the environment's liveness; model building is enumerated over small installations (bounded stand-in); asyncio.wait_for model."),
    "C10": ("proof", "Every public getter of zone and AC objects of both generations equals the API reading of an arbitrary stored record (full enum products, no defined value raises), update_* stores the latest record for the matching id and refuses others, mode/fan selected-vs-active and mode-dependent limits as stated.",
            "record domains = what the decoders can produce; translation of names between protocol and API enums transcribed in the contracts; 'after any sequence of frames the latest report wins' is lemmas/LastWriter.lean (Lean 4) over the dispatch / update step contracts."),
    "C11": ("proof", "Setters of both generations over all ability bitmaps, enum arguments, real temperatures, integer dampers, timer states: unsupported => ValueError and zero sends; supported => exactly one send; set-points rounded then clamped; timer commands carry the other timer as last reported.",
            "round() assumed correctly rounded (ties to even); console limits ordered."),
    "C12": ("proof", "update_* notify exactly the right subscriber set once with the entity id iff the record changed, zone changes reach the AC's general subscribers only, subscribe/unsubscribe are set operations, _notify_subscribers awaits every call once and isolates exceptions - for subscriber sets of arbitrary size (abstract sets).",
            "subscriber model: async callables that may suspend/raise Exception; as_completed yields each awaitable once (validated on samples); 'notified iff the step changes what the entity exposes' over histories is lemmas/LastWriter.lean."),
    "C13": ("proof", "_read_one_message touches the transport only through readexactly(header_length), readexactly(announced length), readexactly(2) on the reader current at entry, consecutive cursor; _read delivers exactly what it read.",
            "segmentation independence of StreamReader.readexactly itself is an assumed library contract; cursor lemma on paper."),
    "C14": ("proof", "_connection_changed(connected=True) outside the first handshake step sends AC-status then zone/group-status requests with RETRY_CONNECTED and keeps the state (all states), a disconnection sends nothing; the socket notifies connected=True before draining (socket._connect contract); AT4 _group_status_request_loop satisfies the same deadline invariant as the heartbeat with T = 300 s armed from the start and re-armed after every expiry, on expiry one GroupStatusRequest iff connected, and the task survives a refused send; the event is set only by group status in CONNECTED; unchanged data notifies nobody (update contracts).",
            "asyncio.timeout / Event models; convergence of the model to the console's answers is C10 applied to those answers."),
    "C15": ("proof", "shutdown() of both AirTouch objects: state CLOSED, not initialised, heartbeat stopped, AT4 poll task cancelled and awaited, socket closed, model dropped, nothing sent (all states). Inertness after close as site obligations: _connect is a no-op on a closed socket, a connection completing after close() is closed and not adopted, no retry is scheduled once closed, send on a closed socket raises NotOpenError without holding anything, close() marks the socket not open before it first suspends and schedules nothing; a handshake step that was suspended in its model update while shutdown() ran does nothing when it resumes (no state change, no request, no heartbeat, no task, not initialised); heartbeat stop cancels and awaits both tasks. History lemma Conn.closed_is_final (Lean 4): from the moment close()'s disconnect has run until open_socket() is called again no connection is held or open, whatever attempts, resets and read failures complete meanwhile.",
            "quiescence 'no task remains' is proved as inertness of the socket coroutines after close, not as an empty schedule; re-init = the init contract holds from the CLOSED post-state of shutdown."),
    "C16": ("proof", "_enqueue_message: purge precedes the capacity test, an eleventh unexpired message raises QueueOverflowError leaving exactly the unexpired old ones in order, otherwise the new entry is appended last; not-open sends raise NotOpenError and hold nothing. Proved for every queue length by a loop contract over an SMT sequence with a recursive purge function (socket._enqueue_message.any-length, cvc5); additionally enumerated for lengths 0..6 and 9..11 (thorough 7..11) with every expiry pattern, labelled bounded, for natively replayable counterexamples.",
            "the any-length proof abstracts the deque as a mathematical sequence (del q[i] = sequence deletion); the purge axiom is quantified (cvc5 decides it; z3 does not)."),
    "C17": ("proof", "The real MessageRegistry serves exactly the unregistered type bytes (all 256 examined symbolically, both generations) by the fallback decoder and refuses to encode them; the top-level and the 0x1F / 0xC0 fallback decoders return the payload unchanged with the id, AT5 status decoders honour strides larger than the layout, every decoder's exception set is within Exception, _read_one_message lets only transport/decoder exceptions out and _read turns each into a reset without raising.",
            "as C05 / C07."),
    "C18": ("proof", "search(): at most three requests, one sendto of the fixed request string to (broadcast|given host, 49004|49005) and one 0.5 s sleep per interval, stops after the first interval with an answer, closes the socket once, always returns - for all arrival patterns over the three intervals. Both datagram decoders and datagram_received over *all* byte strings through a complete structural case split on the comma structure (blocks and rest of symbolic length): a vendor-format datagram yields exactly its host, serial, id (and name with commas preserved), every other datagram (request echo, wrong part count, wrong id position) adds nothing; invalid text raises only UnicodeDecodeError. _open_socket: one IPv4 UDP broadcast socket bound to 0.0.0.0:49004|49005, the decoding protocol built with the generation's decoder and response type, every response reaches the caller's set and identical ones collapse (frozen dataclass); factory._search: one discoverer per generation, each searched once, results united in any completion order; factory.discover: right class, model, TCP port 9004/9005, registry and identity per response.",
            "socket.socket / bind / create_datagram_endpoint are assumed not to fail (no OS error) and the event loop's handling of an exception escaping a protocol callback is assumed (logged, transport stays open); udp.py is not imported by the package (dead code) and not modelled."),
    "C19": ("proof", "The same contracts are discharged for both implementations: getters agree on the common attributes, setters accept/reject the same requests and the transmitted payloads have the same vendor meaning on each wire format (obligations are stated once and instantiated for AT4 and AT5); documented differences appear as generation parameters.",
            "agreement is by instantiating identical obligations, not by a product program; common domain = the generation parameter table in contracts/api_*.py."),
}

NOT_YET = {
}


def main():
    props = [json.loads(l)["id"] for l in open(os.path.join(VERIF, "properties.jsonl"))]
    checks = []
    na = []
    for p in props:
        if p in CLAIMS and p in index.MODULES:
            cat, text, note = CLAIMS[p]
            checks.append({
                "property_id": p,
                "quick_cmd": f"./check {p} --tier quick",
                "thorough_cmd": f"./check {p} --tier thorough",
                "evidence_file": f"/verif/evidence/{p}.json",
                "replay_cmd_template": "./check --replay {path}",
                "engine": "pyvc",
                "level_claimed": {"category": cat, "text": text, "design_ref": f"DESIGN.md section 4 ({p})"},
                "level_note": COMMON_NOTE + note,
                "technique": TECH,
            })
        else:
            na.append({"property_id": p, "reason": NOT_YET.get(p, "not yet under contract in this commit")})
    m = {
        "version": 1,
        "setup_cmd": "python3-vt -m compileall -q pyvc contracts spec replay >/dev/null 2>&1; python3-vt -c 'import z3; print(z3.get_version_string())'; lean --version; /usr/bin/cvc5 --version | head -1",
        "hooks": {"guard": "PYAIRTOUCH_VERIF",
                  "enable": "no source hooks: contracts are sidecar files under /verif/contracts; pyvc re-reads /repo/pyairtouch on every run (PYVC_REPO overrides the path for scratch copies)",
                  "baseline_off_cmd": "cd /repo && /venv/bin/python -m pytest -ra -q -p no:cacheprovider --timeout=900 --continue-on-collection-errors",
                  "source_commits": [], "add_only": True},
        "engines": [{"name": "pyvc", "path": "/verif/pyvc", "serves_properties": [c["property_id"] for c in checks],
                     "kind_free_text": "verification-condition generator over the real Python AST of /repo (symbolic execution function by function against sidecar contracts, loop contracts, interference at awaits); obligations discharged by z3 5.1, fallback cvc5 1.0.3 / z3 4.8; counterexamples replayed natively on the real package; history lemmas over the step contracts (lemmas/*.lean) re-checked by the Lean 4 kernel"}],
        "checks": checks,
        "notes": "Exit codes of ./check: 0 held (KNOWN-FINDING lines possible), 1 VIOLATION, 2 undecided, 3 checker error. known_findings.json lists recorded findings and the fix: commits made in /repo.",
        "not_applicable": na,
    }
    json.dump(m, open(os.path.join(VERIF, "MANIFEST.json"), "w"), indent=1)
    print("checks:", [c["property_id"] for c in checks], "not_applicable:", [n["property_id"] for n in na])


if __name__ == "__main__":
    main()
