#!/bin/sh
# usage: tools/mutc.sh <file-relative-to-repo> <sed-expr> <property> [--only substr]  (scratch copy; runs ./check with replays in temp)
S=$(mktemp -d /tmp/mutXXXX); cp -r /repo/pyairtouch $S/
sed -i "$2" $S/$1
if cmp -s $S/$1 /repo/$1; then echo "MUTATION DID NOT APPLY"; rm -rf $S; exit 2; fi
shift; shift
cd /verif && PYVC_REPO=$S PYVC_OUT=$S/out ./check "$@" -v 2>&1 | grep -v "WARNING conda" | grep "^\[C\|VIOLATION\|UNDEC\|CHECKER\|failed\|unknown" | cut -c1-260
rm -rf $S
