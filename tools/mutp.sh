#!/bin/sh
# usage: tools/mutp.sh <seeded-id> <contract-module> [filter]  -- apply a seeded patch to a scratch copy and run one contract module
S=$(mktemp -d /tmp/mutXXXX); git -C /repo archive HEAD pyairtouch | tar -x -C $S
( cd $S && git apply --whitespace=nowarn /verif/seeded/$1/patch.diff ) || { echo "PATCH DID NOT APPLY"; rm -rf $S; exit 2; }
cd /verif && PYVC_REPO=$S timeout 900 python3-vt -u dbg.py $2 $3 2>&1 | grep -v "WARNING conda" | grep "FAILED\|UNDECIDED\|ERROR" | cut -c1-260
rm -rf $S
