#!/usr/bin/env python3
"""Which functions of /repo/pyairtouch are symbolically executed by some check (from the evidence files), and which never are."""
import ast, glob, json, os
V = os.path.dirname(os.path.dirname(os.path.abspath(__file__)))
executed, under = set(), set()
for f in glob.glob(os.path.join(V, "evidence", "C*.json")):
    c = json.load(open(f))["coverage"]
    executed |= set(c.get("functions_symbolically_executed", []))
    under |= set(c.get("functions_under_contract", []))
allf = []
for p in sorted(glob.glob("/repo/pyairtouch/**/*.py", recursive=True)):
    mod = os.path.relpath(p, "/repo")[:-3].replace("/", ".")
    if mod.endswith(".__init__"):
        mod = mod[:-9]
    t = ast.parse(open(p).read())
    def walk(node, prefix):
        for n in node.body:
            if isinstance(n, (ast.FunctionDef, ast.AsyncFunctionDef)):
                body = [x for x in n.body if not (isinstance(x, ast.Expr) and isinstance(getattr(x, "value", None), ast.Constant))]
                trivial = all(isinstance(x, ast.Pass) for x in body) or not body
                allf.append((f"{mod}:{prefix}{n.name}", trivial))
                walk(n, prefix + n.name + ".<locals>.") if False else None
            elif isinstance(n, ast.ClassDef):
                walk(n, prefix + n.name + ".")
    walk(t, "")
real = [f for f, triv in allf if not triv]
missing = [f for f in real if f not in executed and f not in under]
print(f"functions with a body: {len(real)}; symbolically executed or under contract: {len(real) - len(missing)}; never touched: {len(missing)}")
for m in missing:
    print("  ", m)
