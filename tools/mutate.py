#!/usr/bin/env python3
"""Systematic mutation sweep: how strong are the contracts, beyond the hand-written seeded changes?

  python3 tools/mutate.py <file-relative-to-repo> [--max N] [--seed S] [--jobs J] [--out DIR]

For the given source file every syntactic mutant of a small operator set is generated from the AST (comparison and
boolean operators, small integer / boolean constants, arithmetic and bit operators, `not`, dropped statements,
swapped positional call arguments).  A mutant is *relevant* if the package still imports and the 272 tests still pass
with it.  For every relevant mutant the checks of the properties anchored in that file (properties.jsonl anchors.files)
are run on a scratch copy (PYVC_REPO / PYVC_OUT); a mutant is *caught* if one of them exits 1, *undecided* if the worst
exit is 2 or 3, *survived* if all exit 0.  Survivors are either equivalent mutants (no property is broken) or
weaknesses of the contracts: they are listed for triage in <out>/<file>.json.  Nothing under /repo is touched.
"""
import ast
import concurrent.futures as cf
import copy
import json
import os
import random
import shutil
import subprocess
import sys
import tempfile

VERIF = os.path.dirname(os.path.dirname(os.path.abspath(__file__)))
# ./check is run from here: a snapshot of /verif (git archive) keeps a long sweep independent of edits made meanwhile
CHECK_DIR = os.environ.get("VERIF_SNAPSHOT", VERIF)
REPO_REV = os.environ.get("SWEEP_REPO_REV", "HEAD")   # pin the commit of /repo a long sweep runs against
PROPS = [json.loads(l) for l in open(os.path.join(VERIF, "properties.jsonl"))]

CMP = {ast.Lt: ast.LtE, ast.LtE: ast.Lt, ast.Gt: ast.GtE, ast.GtE: ast.Gt, ast.Eq: ast.NotEq, ast.NotEq: ast.Eq,
       ast.Is: ast.IsNot, ast.IsNot: ast.Is, ast.In: ast.NotIn, ast.NotIn: ast.In}
BIN = {ast.Add: ast.Sub, ast.Sub: ast.Add, ast.LShift: ast.RShift, ast.RShift: ast.LShift, ast.BitAnd: ast.BitOr,
       ast.BitOr: ast.BitAnd, ast.Mult: ast.FloorDiv, ast.FloorDiv: ast.Mult}


def sites(tree):
    """All (description, mutator(tree_copy)) pairs; a mutator finds its node again by position in ast.walk order."""
    out = []
    nodes = list(ast.walk(tree))
    for idx, n in enumerate(nodes):
        ln = getattr(n, "lineno", 0)
        if isinstance(n, ast.Compare) and len(n.ops) == 1 and type(n.ops[0]) in CMP:
            out.append((idx, ln, f"compare {type(n.ops[0]).__name__}->{CMP[type(n.ops[0])].__name__}", "cmp"))
        elif isinstance(n, ast.BoolOp):
            out.append((idx, ln, f"boolop {type(n.op).__name__} swapped", "bool"))
        elif isinstance(n, ast.BinOp) and type(n.op) in BIN:
            out.append((idx, ln, f"binop {type(n.op).__name__}->{BIN[type(n.op)].__name__}", "bin"))
        elif isinstance(n, ast.UnaryOp) and isinstance(n.op, ast.Not):
            out.append((idx, ln, "not removed", "not"))
        elif isinstance(n, ast.Constant) and isinstance(n.value, bool):
            out.append((idx, ln, f"constant {n.value}->{not n.value}", "boolc"))
        elif isinstance(n, ast.Constant) and isinstance(n.value, int) and not isinstance(n.value, bool) and abs(n.value) <= 0xFFFF:
            out.append((idx, ln, f"constant {n.value}->{n.value + 1}", "inc"))
            if n.value > 0:
                out.append((idx, ln, f"constant {n.value}->{n.value - 1}", "dec"))
        elif isinstance(n, ast.Constant) and isinstance(n.value, float):
            out.append((idx, ln, f"constant {n.value}->{n.value * 2}", "fdbl"))
        elif isinstance(n, ast.Expr) and isinstance(n.value, (ast.Call, ast.Await)) and not _is_log(n.value):
            out.append((idx, ln, "statement dropped: " + ast.unparse(n)[:60], "drop"))
        elif isinstance(n, (ast.Assign, ast.AugAssign)) and ln:
            out.append((idx, ln, "assignment dropped: " + ast.unparse(n)[:60], "drop"))
        elif isinstance(n, ast.Call) and len(n.args) >= 2 and not n.keywords and not _is_log(n):
            out.append((idx, ln, "first two positional arguments swapped: " + ast.unparse(n)[:60], "swap"))
        elif isinstance(n, ast.If) and not n.orelse:
            out.append((idx, ln, "if-condition forced true: " + ast.unparse(n.test)[:50], "iftrue"))
        elif isinstance(n, ast.Return) and n.value is not None and not isinstance(n.value, ast.Constant):
            pass
    return out


def _is_log(call):
    c = call.value if isinstance(call, ast.Await) else call
    if not isinstance(c, ast.Call):
        return False
    f = c.func
    return isinstance(f, ast.Attribute) and isinstance(f.value, ast.Name) and f.value.id in ("_LOGGER", "logging", "logger")


def apply(tree, idx, kind):
    t = copy.deepcopy(tree)
    nodes = list(ast.walk(t))
    n = nodes[idx]
    if kind == "cmp":
        n.ops = [CMP[type(n.ops[0])]()]
    elif kind == "bool":
        n.op = ast.Or() if isinstance(n.op, ast.And) else ast.And()
    elif kind == "bin":
        n.op = BIN[type(n.op)]()
    elif kind == "boolc":
        n.value = not n.value
    elif kind == "inc":
        n.value = n.value + 1
    elif kind == "dec":
        n.value = n.value - 1
    elif kind == "fdbl":
        n.value = n.value * 2
    elif kind == "swap":
        n.args[0], n.args[1] = n.args[1], n.args[0]
    elif kind == "iftrue":
        n.test = ast.Constant(value=True)
    elif kind in ("not", "drop"):
        # replace in the parent
        for p in nodes:
            for field, val in ast.iter_fields(p):
                if isinstance(val, list):
                    for i, c in enumerate(val):
                        if c is n:
                            val[i] = ast.Pass() if kind == "drop" else n.operand
                            return ast.fix_missing_locations(t)
                elif val is n:
                    setattr(p, field, n.operand if kind == "not" else ast.Pass())
                    return ast.fix_missing_locations(t)
    return ast.fix_missing_locations(t)


def sh(cmd, cwd=None, env=None, timeout=900):
    """Run in its own process group so that a timeout takes the whole tree (pool workers of ./check) with it."""
    import signal
    p = subprocess.Popen(cmd, shell=True, cwd=cwd, env=env, stdout=subprocess.PIPE, stderr=subprocess.STDOUT, text=True, start_new_session=True)
    try:
        out, _ = p.communicate(timeout=timeout)
        return p.returncode, out
    except subprocess.TimeoutExpired:
        try:
            os.killpg(p.pid, signal.SIGKILL)
        except ProcessLookupError:
            pass
        p.wait()
        return 124, "timeout"


def run_mutant(rel, src_text, m_id, desc, line, props, jobs):
    tmp = tempfile.mkdtemp(prefix="/tmp/mutsweep_")
    res = {"id": m_id, "line": line, "what": desc}
    try:
        sh(f"git -C /repo archive {REPO_REV} pyairtouch tests pyproject.toml | tar -x -C {tmp}")
        with open(os.path.join(tmp, rel), "w") as f:
            f.write(src_text)
        env = dict(os.environ, PYTHONPATH=tmp)
        rc, out = sh("/venv/bin/python -c 'import pyairtouch, pyairtouch.factory'", cwd=tmp, env=env, timeout=60)
        if rc != 0:
            res["status"] = "does not import"
            return res
        rc, out = sh("/venv/bin/python -m pytest -q -x -p no:cacheprovider 2>&1 | tail -1", cwd=tmp, env=env, timeout=300)
        if "passed" not in out or "failed" in out or "error" in out:
            res["status"] = "killed by the test suite"
            return res
        outdir = os.path.join(tmp, "_verif_out")
        os.makedirs(outdir)
        env2 = dict(os.environ, PYVC_REPO=tmp, PYVC_OUT=outdir, PYVC_SWEEP_CACHE=os.path.join(outdir, ".sweep_cache"), PYVC_JOBS=str(jobs))
        exits, first = {}, None
        for p in props:
            rc, out = sh(f"./check {p}", cwd=CHECK_DIR, env=env2, timeout=600)
            exits[p] = rc
            if rc == 1 and first is None:
                for l in out.splitlines():
                    if l.startswith("VIOLATION") and "replay=" in l:
                        try:
                            r = json.load(open(l.split("replay=")[1].split()[0]))
                            first = f"{p}: {r['oset']} :: {r['obligation'][:90]}"
                        except Exception:  # noqa: BLE001
                            first = p
                        break
                break   # caught: no need to run the other checks
        res["exits"] = exits
        worst = max(exits.values()) if exits else 0
        res["status"] = "caught" if 1 in exits.values() else ("undecided / checker error" if worst >= 2 else "survived")
        res["first"] = first
    finally:
        shutil.rmtree(tmp, ignore_errors=True)
    return res


def main():
    a = sys.argv[1:]
    rel = a[0]
    opt = {a[i]: a[i + 1] for i in range(1, len(a) - 1, 2)}
    mx, seed, jobs = int(opt.get("--max", 60)), int(opt.get("--seed", 1)), int(opt.get("--jobs", 4))
    outdir = opt.get("--out", os.path.join(VERIF, "mutation_sweep"))
    os.makedirs(outdir, exist_ok=True)
    src = open(os.path.join("/repo", rel)).read()
    tree = ast.parse(src)
    props = [p["id"] for p in PROPS if rel in p["anchors"]["files"]]
    if "--checks" in opt:
        props = opt["--checks"].split(",")
    if not props:
        base = os.path.dirname(rel)
        props = [p["id"] for p in PROPS if any(f.startswith(base) or base.startswith(os.path.dirname(f)) for f in p["anchors"]["files"])][:6]
    all_sites = sites(tree)
    rng = random.Random(seed)
    rng.shuffle(all_sites)
    chosen = sorted(all_sites[:mx], key=lambda s: s[1])
    print(f"{rel}: {len(all_sites)} mutation sites, running {len(chosen)}; checks: {props}", flush=True)
    results = []
    with cf.ThreadPoolExecutor(max_workers=max(1, 16 // jobs)) as ex:
        futs = []
        for k, (idx, ln, desc, kind) in enumerate(chosen):
            try:
                text = ast.unparse(apply(tree, idx, kind))
                compile(text, rel, "exec")
            except Exception as e:  # noqa: BLE001
                continue
            futs.append(ex.submit(run_mutant, rel, text, f"{os.path.basename(rel)}:{ln}:{kind}:{k}", desc, ln, props, jobs))
        for f in cf.as_completed(futs):
            r = f.result()
            results.append(r)
            print(f"  {r['status']:28s} L{r['line']:<5d} {r['what'][:80]}  {r.get('first') or ''}", flush=True)
    results.sort(key=lambda r: r["line"])
    summary = {}
    for r in results:
        summary[r["status"]] = summary.get(r["status"], 0) + 1
    json.dump({"file": rel, "checks": props, "sites": len(all_sites), "run": len(results), "summary": summary, "mutants": results},
              open(os.path.join(outdir, rel.replace("/", "__") + ".json"), "w"), indent=1)
    print("summary:", summary)


if __name__ == "__main__":
    main()
