#!/usr/bin/env python3
"""Prints markdown tables for DESIGN.md: per-property evidence summary and seeded-change results."""
import glob
import json
import os

V = os.path.dirname(os.path.dirname(os.path.abspath(__file__)))
print("| id | functions under contract | obligation sets | proved obligations | bounded stand-in obligations | known findings | solver s | conformance values compared |")
print("|---|---|---|---|---|---|---|---|")
for f in sorted(glob.glob(os.path.join(V, "evidence", "C*.json"))):
    e = json.load(open(f))
    c = e["coverage"]
    print(f"| {e['property_id']} | {len(c['functions_under_contract'])} | {len(c['obligation_sets'])} | {c['discharged']}/{c['obligations']} | "
          f"{c['bounded_stand_ins']['discharged']}/{c['bounded_stand_ins']['obligations']} | {len(c['known_findings_hit'])} | {c['solver_seconds']} | "
          f"{c['interpreter_conformance']['obligation_values_compared_cpython_vs_pyvc']} |")
print()
print("| seeded change | breaks | what was changed | needs | own check (exit) | obligation that fails (first) | natively replayed | other checks that also fail (full matrix, where run) |")
print("|---|---|---|---|---|---|---|---|")
for d in sorted(glob.glob(os.path.join(V, "seeded", "*"))):
    sid = os.path.basename(d)
    try:
        m = json.load(open(os.path.join(d, "meta.json")))
    except Exception:
        continue
    own = m["property"]
    ro = rf = None
    try:
        ro = json.load(open(os.path.join(d, "result_own.json")))
    except Exception:
        pass
    try:
        rf = json.load(open(os.path.join(d, "result.json")))
    except Exception:
        pass
    src = ro if ro and own in (ro.get("checks") or {}) else rf
    first = rep = ""
    ex = "not run"
    if src and own in (src.get("checks") or {}):
        c = src["checks"][own]
        ex = {0: "0 **missed**", 1: "1 VIOLATION", 2: "2 undecided", 3: "3 checker error"}.get(c["exit"], str(c["exit"]))
        if c.get("obligations"):
            o = c["obligations"][0]
            first = f"{o['oset']} :: {o['obligation'][:80]}"
            rep = "yes" if any(x.get("reproduced") for x in c["obligations"]) else "no-failing-input-found"
    others = ", ".join(p for p in (rf.get("detected_by") or []) if p != own) if rf else ""
    print(f"| {sid} | {own} | {m['summary'][:120].replace('|','/')} | {m['needs'][:100].replace('|','/')} | {ex} | {first.replace('|','/')} | {rep} | {others} |")
print()
print("| harmless change | files | kind | every check exit 0 | alarms (exit 1) | undecided / checker error |")
print("|---|---|---|---|---|---|")
for d in sorted(glob.glob(os.path.join(V, "harmless", "*"))):
    try:
        m = json.load(open(os.path.join(d, "meta.json")))
        r = json.load(open(os.path.join(d, "result.json")))
    except Exception:
        continue
    print(f"| {os.path.basename(d)} | {', '.join(m.get('files', []))[:70]} | {m.get('kind','')[:60]} | {r.get('all_green')} | {', '.join(r.get('alarms') or [])} | {', '.join(r.get('undecided_or_error') or [])} |")
