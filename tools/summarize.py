#!/usr/bin/env python3
"""Prints markdown tables for DESIGN.md: per-property evidence summary and seeded-change results."""
import glob
import json
import os

V = os.path.dirname(os.path.dirname(os.path.abspath(__file__)))
print("| id | functions under contract | obligation sets | proved obligations | bounded stand-in obligations | known findings | solver s | conformance values compared |")
print("|---|---|---|---|---|---|---|---|")
for f in sorted(glob.glob(os.path.join(V, "evidence", "C*.json"))):
    e = json.load(open(f))
    c = e["coverage"]
    print(f"| {e['property_id']} | {len(c['functions_under_contract'])} | {len(c['obligation_sets'])} | {c['discharged']}/{c['obligations']} | "
          f"{c['bounded_stand_ins']['discharged']}/{c['bounded_stand_ins']['obligations']} | {len(c['known_findings_hit'])} | {c['solver_seconds']} | "
          f"{c['interpreter_conformance']['obligation_values_compared_cpython_vs_pyvc']} |")
print()
print("| seeded change | breaks | what was changed | needs | caught by (exit 1) | obligation that fails (first) | natively replayed |")
print("|---|---|---|---|---|---|---|")
for d in sorted(glob.glob(os.path.join(V, "seeded", "*"))):
    sid = os.path.basename(d)
    try:
        m = json.load(open(os.path.join(d, "meta.json")))
        r = json.load(open(os.path.join(d, "result.json")))
    except Exception:
        continue
    own = m["property"]
    det = r.get("detected_by") or []
    first = ""
    rep = ""
    ch = r.get("checks", {})
    pick = own if own in det else (det[0] if det else None)
    if pick and ch.get(pick, {}).get("obligations"):
        o = ch[pick]["obligations"][0]
        first = f"{o['oset']} :: {o['obligation'][:70]}"
        rep = "yes" if any(x.get("reproduced") for p in det for x in ch[p].get("obligations", [])) else "no-failing-input-found"
    print(f"| {sid} | {own} | {m['summary'][:110].replace('|','/')} | {m['needs'][:90].replace('|','/')} | {', '.join(det) or '**missed**'} | {first.replace('|','/')} | {rep} |")
