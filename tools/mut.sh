#!/bin/sh
# usage: tools/mut.sh <file-relative-to-repo> <sed-expr> <contract-module> [filter]   (scratch copy, removed afterwards)
S=$(mktemp -d /tmp/mutXXXX); cp -r /repo/pyairtouch $S/
sed -i "$2" $S/$1
if cmp -s $S/$1 /repo/$1; then echo "MUTATION DID NOT APPLY"; rm -rf $S; exit 2; fi
cd /verif && PYVC_REPO=$S timeout 900 python3-vt -u dbg.py $3 $4 2>&1 | grep -v "WARNING conda" | grep "FAILED\|UNDECIDED\|ERROR" | cut -c1-260
rm -rf $S
