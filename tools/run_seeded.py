#!/usr/bin/env python3
"""Confirm seeded changes and run the checks against them on scratch copies of /repo.

  python3 tools/run_seeded.py [<seeded-id> ...]        (default: all of /verif/seeded/*)
For each seeded/<id>/ (patch.diff, demo.py, meta.json): scratch copy of /repo HEAD under a temp dir,
demo unpatched must PASS, patch must apply, the 272 tests must pass, demo patched must FAIL, then every
./check is run with PYVC_REPO=<scratch> PYVC_OUT=<temp>.  Results go to seeded/<id>/result.json.
Scratch copies are removed afterwards."""
import concurrent.futures as cf
import json
import os
import shutil
import subprocess
import sys
import tempfile

VERIF = os.path.dirname(os.path.dirname(os.path.abspath(__file__)))
# ./check is run from here: a snapshot of /verif (git archive) keeps a long sweep independent of edits made meanwhile
CHECK_DIR = os.environ.get("VERIF_SNAPSHOT", VERIF)
REPO_REV = os.environ.get("SWEEP_REPO_REV", "HEAD")   # pin the commit of /repo a long sweep runs against
PROPS = [json.loads(l)["id"] for l in open(os.path.join(VERIF, "properties.jsonl"))]


def sh(cmd, cwd=None, env=None, timeout=1800):
    p = subprocess.run(cmd, shell=True, cwd=cwd, env=env, capture_output=True, text=True, timeout=timeout)
    return p.returncode, (p.stdout + p.stderr)


def run_one(sid, only_props=None, result_name="result.json"):
    d = os.path.join(VERIF, "seeded", sid)
    tmp = tempfile.mkdtemp(prefix="/tmp/seed_")
    res = {"id": sid}
    try:
        sh(f"git -C /repo archive {REPO_REV} | tar -x -C {tmp}")
        os.makedirs(f"{tmp}/_out/{sid}", exist_ok=True)
        shutil.copy(os.path.join(d, "demo.py"), f"{tmp}/_out/{sid}/demo.py")
        env = dict(os.environ, PYTHONPATH=tmp)
        rc, out = sh(f"/venv/bin/python _out/{sid}/demo.py", cwd=tmp, env=env, timeout=600)
        res["demo_unpatched"] = "PASS" if rc == 0 else f"FAIL rc={rc}: {out[-300:]}"
        rc, out = sh(f"git apply --whitespace=nowarn {os.path.join(d, 'patch.diff')}", cwd=tmp)
        res["patch_applies"] = rc == 0
        if rc != 0:
            res["patch_error"] = out[-400:]
            return res
        rc, out = sh("/venv/bin/python -m pytest -q -p no:cacheprovider 2>&1 | tail -1", cwd=tmp, env=env, timeout=900)
        res["tests_patched"] = out.strip()
        rc, out = sh(f"/venv/bin/python _out/{sid}/demo.py", cwd=tmp, env=env, timeout=600)
        res["demo_patched"] = "PASS" if rc == 0 else "FAIL"
        outdir = os.path.join(tmp, "_verif_out")
        os.makedirs(outdir)
        env2 = dict(os.environ, PYVC_REPO=tmp, PYVC_OUT=outdir, PYVC_SWEEP_CACHE=os.path.join(outdir, ".sweep_cache"), PYVC_JOBS=os.environ.get("SEEDED_JOBS", "6"))
        det = {}
        for p in (only_props or PROPS):
            rc, out = sh(f"./check {p}", cwd=CHECK_DIR, env=env2, timeout=1800)
            lines = [l for l in out.splitlines() if l.startswith(("VIOLATION", "UNDECIDED", "CHECKER-ERROR", "KNOWN"))]
            det[p] = {"exit": rc, "lines": lines[:6]}
            if rc == 1:
                # which obligations
                obl = []
                for l in lines:
                    if l.startswith("VIOLATION") and "replay=" in l:
                        rp = l.split("replay=")[1].split()[0]
                        try:
                            r = json.load(open(rp))
                            obl.append({"oset": r["oset"], "obligation": r["obligation"], "reproduced": r.get("reproduced_on_real_code")})
                        except Exception:  # noqa: BLE001
                            pass
                det[p]["obligations"] = obl[:8]
        res["checks"] = det
        res["detected_by"] = [p for p, v in det.items() if v["exit"] == 1]
        res["undecided_or_error"] = [p for p, v in det.items() if v["exit"] in (2, 3)]
    finally:
        shutil.rmtree(tmp, ignore_errors=True)
    json.dump(res, open(os.path.join(d, result_name), "w"), indent=1)
    return res


def main():
    own = "--own" in sys.argv
    sys.argv = [a for a in sys.argv if a != "--own"]
    skip = [a.split("=")[1].split(",") for a in sys.argv[1:] if a.startswith("--skip=")]
    global PROPS
    if skip:
        PROPS = [p for p in PROPS if p not in skip[0]]
    sys.argv = [a for a in sys.argv if not a.startswith("--skip=")]
    ids = sys.argv[1:] or sorted(os.listdir(os.path.join(VERIF, "seeded")))
    ids = [i for i in ids if os.path.exists(os.path.join(VERIF, "seeded", i, "patch.diff"))]
    def job(i):
        if own:
            # only the check of the property the change was written against (fast mode); the result file is
            # separate so that a full cross-property matrix of an earlier run is not overwritten
            prop = json.load(open(os.path.join(VERIF, "seeded", i, "meta.json")))["property"]
            return run_one(i, [prop], "result_own.json")
        return run_one(i)
    with cf.ThreadPoolExecutor(max_workers=int(os.environ.get("SEEDED_WORKERS", "3"))) as ex:
        for r in ex.map(job, ids):
            print(r["id"], "| demo", r.get("demo_unpatched"), "->", r.get("demo_patched"), "| tests:", r.get("tests_patched"),
                  "| detected by:", r.get("detected_by"), "| undecided/error:", r.get("undecided_or_error"))


if __name__ == "__main__":
    main()
