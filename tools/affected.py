#!/usr/bin/env python3
"""Which checks can a change to a set of source files affect?  A check is affected iff one of the functions it executed
symbolically (evidence: functions_symbolically_executed) lives in a changed module or in a module that (transitively)
imports a changed module.  Used by the sweep tools to skip checks that cannot change; never by a registered check."""
import ast
import json
import os

VERIF = os.path.dirname(os.path.dirname(os.path.abspath(__file__)))


def import_graph(repo):
    g = {}
    root = os.path.join(repo, "pyairtouch")
    for dp, _, fs in os.walk(root):
        for f in fs:
            if not f.endswith(".py"):
                continue
            path = os.path.join(dp, f)
            rel = os.path.relpath(path, repo)
            mod = rel[:-3].replace("/", ".")
            if mod.endswith(".__init__"):
                mod = mod[:-9]
            deps = set()
            pkg = mod if f == "__init__.py" else mod.rsplit(".", 1)[0]
            for n in ast.walk(ast.parse(open(path).read())):
                if isinstance(n, ast.Import):
                    deps.update(a.name for a in n.names if a.name.startswith("pyairtouch"))
                elif isinstance(n, ast.ImportFrom):
                    base = n.module or ""
                    if n.level:
                        parts = pkg.split(".")
                        base = ".".join(parts[:len(parts) - n.level + 1] + ([n.module] if n.module else []))
                    if base.startswith("pyairtouch"):
                        for a in n.names:
                            deps.add(("M", base, a.name))   # resolved below: the submodule if there is one, else the module itself
            g[mod] = (rel, deps)
    for mod, (rel, deps) in list(g.items()):
        res = set()
        for d in deps:
            if isinstance(d, tuple):
                _, base, name = d
                res.add(f"{base}.{name}" if f"{base}.{name}" in g else base)
            else:
                res.add(d)
        g[mod] = (rel, res)
    return g


def affected_checks(changed_files, repo="/repo"):
    g = import_graph(repo)
    by_file = {rel: m for m, (rel, _) in g.items()}
    changed = {by_file[f] for f in changed_files if f in by_file}
    # package __init__ of a changed module's parents are loaded too, but do not depend on it unless they import it
    tainted = set(changed)
    grew = True
    while grew:
        grew = False
        for m, (_, deps) in g.items():
            if m not in tainted and any(d in tainted for d in deps):
                tainted.add(m)
                grew = True
    out = []
    for pid in [json.loads(l)["id"] for l in open(os.path.join(VERIF, "properties.jsonl"))]:
        try:
            ev = json.load(open(os.path.join(VERIF, "evidence", f"{pid}.json")))
        except Exception:  # noqa: BLE001
            out.append(pid)
            continue
        mods = {f.split(":")[0] for f in ev["coverage"].get("functions_symbolically_executed", [])} | \
               {f.split(":")[0] for f in ev["coverage"].get("functions_under_contract", [])}
        if not mods or mods & tainted:
            out.append(pid)
    return out


if __name__ == "__main__":
    import sys
    print(" ".join(affected_checks(sys.argv[1:])))
