#!/usr/bin/env python3-vt
"""Differential test of the pyvc interpreter on ad hoc snippets (builtin models): the snippets of
tools/interp_snippets.py are run by CPython and by the interpreter on the same concrete arguments; results
(or exception types) must agree.  Additionally each snippet is run symbolically on byte-valued arguments and every
path's result is compared with CPython on a model of the path condition.

    python3-vt tools/interp_diff.py          exit 0: all agree / 1: a disagreement (printed)
"""
import itertools
import os
import shutil
import sys
import tempfile

VERIF = os.path.dirname(os.path.dirname(os.path.abspath(__file__)))
sys.path.insert(0, VERIF)


def norm(v):
    """Native results: named tuples compare as plain tuples (the interpreter's instances are converted the same way)."""
    if isinstance(v, tuple):
        return tuple(norm(x) for x in v)
    if isinstance(v, list):
        return [norm(x) for x in v]
    if isinstance(v, dict):
        return {k: norm(x) for k, x in v.items()}
    return v


def to_native(v):
    from pyvc.values import BytesVal, Instance, all_dc_fields
    if type(v) is Instance and getattr(v.cls, "is_namedtuple", False):
        return tuple(to_native(v.attrs[n]) for n, _, _ in all_dc_fields(v.cls))
    if isinstance(v, BytesVal):
        return bytearray(v.to_bytes()) if v.mutable else v.to_bytes()
    if isinstance(v, list):
        return [to_native(x) for x in v]
    if isinstance(v, tuple):
        return tuple(to_native(x) for x in v)
    if isinstance(v, dict):
        return {to_native(k): to_native(x) for k, x in v.items()}
    return v


def main():
    import importlib.util
    import z3
    from pyvc.loader import Loader
    from pyvc.interp import Interp, Path, PathEnd
    from pyvc.values import PyExc, Unsupported, BytesVal
    from pyvc import sym
    src = os.path.join(VERIF, "tools", "interp_snippets.py")
    tmp = tempfile.mkdtemp(prefix="interp_diff_", dir=os.environ.get("PYVC_OUT", VERIF))
    bad = 0
    n_conc = n_sym = n_uns = 0
    try:
        shutil.copy(src, os.path.join(tmp, "snip.py"))
        spec = importlib.util.spec_from_file_location("snip", src)
        nat = importlib.util.module_from_spec(spec)
        spec.loader.exec_module(nat)
        L = Loader(repo=tmp)
        mod = L.load("snip")
        for name, cases in nat.CASES.items():
            fn = mod.ns[name]
            for args in cases:
                try:
                    want = ("ok", norm(getattr(nat, name)(*args)))
                except Exception as e:  # noqa: BLE001
                    want = ("exc", type(e).__name__)
                it = Interp(L)
                it.path = Path([])
                try:
                    iargs = [BytesVal.of(a, isinstance(a, bytearray)) if isinstance(a, (bytes, bytearray)) else a for a in args]
                    got = ("ok", to_native(it.call(fn, iargs, {})))
                except PyExc as e:
                    got = ("exc", e.value.cls.name)
                except Unsupported as e:
                    n_uns += 1
                    continue
                n_conc += 1
                if got != want:
                    bad += 1
                    print(f"DISAGREE {name}{args!r}: CPython {want!r}  pyvc {got!r}")
            # symbolic: every bytes argument becomes symbolic bytes of the same length; all paths; model check
            for args in cases[:3]:
                if not any(isinstance(a, (bytes, bytearray)) for a in args):
                    continue
                prefix_queue = [[]]
                seen = 0
                while prefix_queue and seen < 400:
                    prefix = prefix_queue.pop()
                    it = Interp(L)
                    it.path = Path(prefix)
                    vars_ = []
                    iargs = []
                    for ai, a in enumerate(args):
                        if isinstance(a, (bytes, bytearray)):
                            items = []
                            for bi in range(len(a)):
                                v = sym.SInt(z3.Int(f"a{ai}_{bi}"))
                                it.path.assume(sym.And(v >= 0, v <= 255), "byte")
                                items.append(v)
                                vars_.append((ai, bi, v))
                            iargs.append(BytesVal(items, isinstance(a, bytearray)))
                        else:
                            iargs.append(a)
                    try:
                        got = ("ok", it.call(fn, iargs, {}))
                    except PyExc as e:
                        got = ("exc", e.value.cls.name)
                    except PathEnd:
                        got = None
                    except Unsupported:
                        got = None
                        n_uns += 1
                    prefix_queue.extend(it.path.pending)
                    seen += 1
                    if got is None:
                        continue
                    s = z3.Solver()
                    s.add(*it.path.pc)
                    if s.check() != z3.sat:
                        continue
                    m = s.model()
                    cargs = []
                    for ai, a in enumerate(args):
                        if isinstance(a, (bytes, bytearray)):
                            raw = bytes(m.eval(v.t, model_completion=True).as_long() for (x, _, v) in vars_ if x == ai)
                            cargs.append(bytearray(raw) if isinstance(a, bytearray) else raw)
                        else:
                            cargs.append(a)
                    try:
                        want = ("ok", norm(getattr(nat, name)(*cargs)))
                    except Exception as e:  # noqa: BLE001
                        want = ("exc", type(e).__name__)

                    def ev(v):
                        from pyvc.values import Instance, all_dc_fields
                        if type(v) is Instance and getattr(v.cls, "is_namedtuple", False):
                            return tuple(ev(v.attrs[n]) for n, _, _ in all_dc_fields(v.cls))
                        if isinstance(v, dict):
                            return {k: ev(x) for k, x in v.items()}
                        if isinstance(v, BytesVal):
                            raw = bytes(ev(i) for i in v.items)
                            return bytearray(raw) if v.mutable else raw
                        if isinstance(v, (list, tuple)):
                            return type(v)(ev(x) for x in v)
                        if sym.is_sym(v):
                            r = m.eval(v.t, model_completion=True)
                            if z3.is_bool(r):
                                return z3.is_true(r)
                            return r.as_long()
                        return v
                    got_c = (got[0], ev(got[1])) if got[0] == "ok" else got
                    n_sym += 1
                    if got_c != want:
                        bad += 1
                        print(f"DISAGREE (symbolic path) {name}{tuple(cargs)!r}: CPython {want!r}  pyvc {got_c!r}")
    finally:
        shutil.rmtree(tmp, ignore_errors=True)
    print(f"interp_diff: {n_conc} concrete comparisons, {n_sym} symbolic paths compared on a model, {n_uns} unsupported, {bad} disagreements")
    return 1 if bad else 0


if __name__ == "__main__":
    sys.exit(main())
