"""Snippets for tools/interp_diff.py: small pure functions over builtin types, each with concrete argument tuples.
Run by CPython and by the pyvc interpreter; results must agree (see interp_diff.py)."""


def b_strip(b):
    return [b.rstrip(b"\0"), b.lstrip(b"\0"), b.strip(b"\0 "), b.strip()]


def b_find(b):
    return [b.find(b"\0"), b.rfind(b"\0"), b.count(b"\0"), b.endswith(b"\0"), b.startswith(b"ab")]


def b_index(b):
    return b.index(b"\0")


def b_edit(b):
    return [b.replace(b"\0", b" "), b" ".join([b, b"zz"]), b.ljust(8, b"-"), b.rjust(3), b.removeprefix(b"ab"), b.removesuffix(b"\0")]


def b_parts(b):
    return [b.partition(b"\0"), b.rpartition(b"\0"), b.split(b"\0", 1), b.split(b"\0")]


def ba_mut(b):
    x = bytearray(b)
    x.append(7)
    x.insert(0, 9)
    y = x.pop()
    x.reverse()
    x.extend(b"qq")
    return [x, y, len(x)]


def s_pure(s):
    return [s.lstrip("x").rjust(6, "."), s.find("b"), s.partition("b"), s.title(), s.zfill(5), s.rsplit(",", 1), s.isalpha(),
            s.removeprefix("xa"), s.count("b"), s.rstrip(), s.splitlines(), s.center(7, "*"), s.swapcase()]


def s_index(s):
    return s.index("q")


def conc_bytes():
    b = b"ab,cd,,ef"
    return [b.rsplit(b",", 1), b.find(b",,"), b.upper(), b.title(), b.zfill(12), b.isalpha(), b.hex(), b.replace(b",,", b"#"), b.center(13, b"*")]


_B = [(b"",), (b"\0",), (b"ab\0",), (b"ab\0cd\0\0",), (b"\0\0ab",), (b" ab \0",), (b"abcdefghij",)]
CASES = {
    "b_strip": _B,
    "b_find": _B,
    "b_index": _B,
    "b_edit": _B,
    "b_parts": _B,
    "ba_mut": _B,
    "s_pure": [("",), ("xab,c",), ("xxabBA b\n",), ("q",)],
    "s_index": [("",), ("aq",)],
    "conc_bytes": [()],
}


def in_range(b):
    x = b[0]
    return [x in range(0, 100), x not in range(3, 50, 7), x in range(10, 0, -3), x in range(5, 5)]


CASES["in_range"] = [(bytes([v]),) for v in (0, 1, 3, 10, 45, 49, 99, 100, 255)]


import functools
import itertools
import operator
from typing import NamedTuple


class _Pt(NamedTuple):
    x: int
    y: int = 7


def lib_idioms(b):
    add3 = functools.partial(lambda a, c, d=0: a * 100 + c * 10 + d, 3, d=5)
    p = _Pt._make([b[0], 2])
    q = p._replace(y=9)
    get = operator.attrgetter("x", "y")
    view = memoryview(b)
    return [add3(4), list(itertools.chain([1], (2, 3), b)), list(itertools.chain.from_iterable([[1, 2], [], [b[0]]])),
            {"a": 1, "b": 2} | {"b": 3, "c": 4}, p, q, q._asdict(), _Pt._fields, get(q), operator.itemgetter(1)(b), operator.or_(b[0], 1),
            bytes(view[1:3]), len(view), divmod(b[0], 32), functools.reduce(operator.add, b, 0)]


CASES["lib_idioms"] = [(bytes([5, 6, 7]),), (bytes([255, 0, 128, 9]),)]


def union_isinstance(b):
    # PEP 604 unions in isinstance: the disjunction over the members (once answered True for everything)
    t = (b, b)
    n = None
    return [isinstance(b, bytes | bytearray), isinstance(t, bytes | bytearray), isinstance(bytearray(b), bytes | bytearray),
            isinstance(b[0], int | None), isinstance(n, int | None), isinstance(n, bytes | bytearray), isinstance(t, tuple | list | None),
            isinstance("s", bytes | str), isinstance(b, (int, str | tuple))]


CASES["union_isinstance"] = [(bytes([5, 6, 7]),), (b"\0",)]
