/-
Last-writer-wins lemma (DESIGN.md 3.4): closes the history part of C10 / C12 / C14 from the step contracts of
the update path that ./check discharges on the real code:

  dispatch  : a status frame is a list of records; each record is applied, in frame order, to the entity with
              its id; records with unknown ids are skipped            (atN.airtouch.dispatch-any-length)
  update    : the entity stores the record; it notifies its subscribers iff the record differs from the one
              stored before                                           (atN.zone.update / atN.ac.update_*)

Records are an arbitrary type with decidable equality; ids are naturals.
-/
namespace LastWriter

set_option linter.unusedSectionVars false
set_option linter.unusedSimpArgs false
variable {R : Type} [DecidableEq R]

/-- what the getters read: the stored record per entity id (total function; only `known` ids are entities) -/
abbrev Store (R : Type) := Nat → R

/-- one record applied (the step contract) -/
def step (known : Nat → Bool) (s : Store R) (p : Nat × R) : Store R :=
  if known p.1 then fun i => if i = p.1 then p.2 else s i else s

/-- did this step notify the subscribers of entity i ? -/
def notifies (known : Nat → Bool) (s : Store R) (p : Nat × R) (i : Nat) : Bool :=
  known p.1 && decide (i = p.1) && decide (p.2 ≠ s i)

/-- a frame, or any concatenation of frames: records applied in order -/
def run (known : Nat → Bool) (s : Store R) (recs : List (Nat × R)) : Store R :=
  recs.foldl (step known) s

/-- the most recent record concerning entity i, if any -/
def lastFor (i : Nat) : List (Nat × R) → Option R
  | [] => none
  | p :: rest => match lastFor i rest with
                 | some r => some r
                 | none => if p.1 = i then some p.2 else none

theorem lastFor_cons (i : Nat) (p : Nat × R) (rest : List (Nat × R)) :
    lastFor i (p :: rest) = (match lastFor i rest with
                             | some r => some r
                             | none => if p.1 = i then some p.2 else none) := rfl

theorem run_cons (known : Nat → Bool) (s : Store R) (p : Nat × R) (rest : List (Nat × R)) :
    run known s (p :: rest) = run known (step known s p) rest := rfl

/-- **C10 / C14 (history).**  After any sequence of status records (any entity order, repeats, partial frames,
unknown ids), the record stored for a known entity is the most recent one concerning it; an entity no record
concerned keeps what it had. -/
theorem latest_wins (known : Nat → Bool) (recs : List (Nat × R)) :
    ∀ (s : Store R) (i : Nat), known i = true →
      run known s recs i = (lastFor i recs).getD (s i) := by
  induction recs with
  | nil => intro s i _; rfl
  | cons p rest ih =>
    intro s i hk
    rw [run_cons, ih (step known s p) i hk, lastFor_cons]
    cases h : lastFor i rest with
    | some r => simp
    | none =>
      by_cases hp : p.1 = i
      · subst hp; simp [step, hk]
      · have : i ≠ p.1 := fun h => hp h.symm
        by_cases hkp : known p.1 = true <;> simp [step, hp, hkp, this]

/-- records of other entities never disturb an entity (frame condition of the whole history) -/
theorem others_untouched (known : Nat → Bool) (recs : List (Nat × R)) (s : Store R) (i : Nat)
    (h : ∀ p ∈ recs, p.1 ≠ i) : run known s recs i = s i := by
  induction recs generalizing s with
  | nil => rfl
  | cons p rest ih =>
    rw [run_cons, ih (step known s p) (fun q hq => h q (List.mem_cons_of_mem _ hq))]
    have : i ≠ p.1 := fun e => h p List.mem_cons_self e.symm
    unfold step; split <;> simp [this]

/-- **C12 (history).**  A step notifies entity i's subscribers exactly when it changes what entity i exposes:
an identical report is silent, a changing one is heard. -/
theorem notifies_iff_changes (known : Nat → Bool) (s : Store R) (p : Nat × R) (i : Nat) :
    notifies known s p i = true ↔ step known s p i ≠ s i := by
  unfold notifies step
  by_cases hk : known p.1 = true
  · by_cases hi : i = p.1
    · subst hi; simp [hk]
    · simp [hk, hi]
  · simp [hk]

end LastWriter

#print axioms LastWriter.latest_wins
#print axioms LastWriter.others_untouched
#print axioms LastWriter.notifies_iff_changes
