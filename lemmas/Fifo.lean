/-
FIFO / retry lemma (DESIGN.md 3.4): closes the history part of C01, C02 and C16 from the *step contracts*
of pyairtouch/comms/socket.py that ./check discharges on the real code.  The transition system below has
one constructor per step contract; `hypotheses.json` names, for every constructor, the obligations that
justify it (the check fails if one of them is not discharged in the same run).  State is ghost: every
accepted message gets a ticket (its acceptance index).

  queue    : the pending entries, head first                        -- AirTouchSocket._message_queue
  inflight : entries whose frame was handed to the writer and whose `await writer.drain()` has not returned
  wire     : tickets of the frames handed to the writer, in call order (StreamWriter.write keeps call order)
  dropped  : tickets discarded (expired, or write fault with no retry left)
  next     : number of messages accepted so far
-/
namespace Fifo

structure Entry where
  tk : Nat
  retries : Nat
  expiry : Nat
deriving DecidableEq, Repr

def tks (q : List Entry) : List Nat := q.map (fun e => e.tk)

structure St where
  queue : List Entry
  inflight : List Entry
  wire : List Nat
  dropped : List Nat
  next : Nat
  r0 : Nat → Nat      -- ghost: the retry count the policy gave ticket t at acceptance

def live (now : Nat) (e : Entry) : Bool := decide (now < e.expiry)
def purge (now : Nat) (q : List Entry) : List Entry := q.filter (live now)
def purged (now : Nat) (q : List Entry) : List Entry := q.filter (fun e => !live now e)

def capacity : Nat := 10

inductive Lab where
  | enqueue | overflow | write | expire | encfail | complete | requeue | giveup
deriving DecidableEq, Repr

/-- One atomic step of the socket, as the step contracts describe it. -/
inductive Step : Lab → St → St → Prop
  /-- `_enqueue_message` accepts: purge, capacity test, append last. -/
  | enqueue (s : St) (now r x : Nat) (hcap : (purge now s.queue).length < capacity) :
      Step .enqueue s
        ⟨purge now s.queue ++ [⟨s.next, r, x⟩], s.inflight, s.wire, s.dropped ++ tks (purged now s.queue),
         s.next + 1, fun t => if t = s.next then r else s.r0 t⟩
  /-- `_enqueue_message` refuses (QueueOverflowError): the unexpired old ones stay, in order. -/
  | overflow (s : St) (now : Nat) (hfull : ¬ (purge now s.queue).length < capacity) :
      Step .overflow s
        ⟨purge now s.queue, s.inflight, s.wire, s.dropped ++ tks (purged now s.queue), s.next, s.r0⟩
  /-- drain iteration, unexpired head: popped and its frame handed to the writer in the same segment. -/
  | write (s : St) (now : Nat) (e : Entry) (rest : List Entry) (hq : s.queue = e :: rest)
      (hlive : now < e.expiry) :
      Step .write s ⟨rest, e :: s.inflight, s.wire ++ [e.tk], s.dropped, s.next, s.r0⟩
  /-- drain iteration, expired head: popped and dropped, nothing written. -/
  | expire (s : St) (now : Nat) (e : Entry) (rest : List Entry) (hq : s.queue = e :: rest)
      (hdead : ¬ now < e.expiry) :
      Step .expire s ⟨rest, s.inflight, s.wire, s.dropped ++ [e.tk], s.next, s.r0⟩
  /-- drain iteration, head cannot be encoded (ValueError / NotImplementedError / struct.error from the
  encoders, raised by `_write` before anything is written): popped and dropped, nothing written. -/
  | encfail (s : St) (e : Entry) (rest : List Entry) (hq : s.queue = e :: rest) :
      Step .encfail s ⟨rest, s.inflight, s.wire, s.dropped ++ [e.tk], s.next, s.r0⟩
  /-- `await writer.drain()` returned normally for an in-flight entry. -/
  | complete (s : St) (e : Entry) (he : e ∈ s.inflight) :
      Step .complete s ⟨s.queue, s.inflight.erase e, s.wire, s.dropped, s.next, s.r0⟩
  /-- write fault (OSError) with a retry left: back to the *head*, one retry less, same expiry. -/
  | requeue (s : St) (e : Entry) (he : e ∈ s.inflight) (hr : 0 < e.retries) :
      Step .requeue s
        ⟨⟨e.tk, e.retries - 1, e.expiry⟩ :: s.queue, s.inflight.erase e, s.wire, s.dropped, s.next, s.r0⟩
  /-- write fault with no retry left: dropped. -/
  | giveup (s : St) (e : Entry) (he : e ∈ s.inflight) (hr : e.retries = 0) :
      Step .giveup s ⟨s.queue, s.inflight.erase e, s.wire, s.dropped ++ [e.tk], s.next, s.r0⟩

/-- Steps without write faults (the hypothesis "and no write fault occurs" of C01). -/
def faultFree : Lab → Prop
  | .requeue => False
  | .giveup => False
  | _ => True

def anyLab : Lab → Prop := fun _ => True

inductive Reach (P : Lab → Prop) : St → St → Prop
  | refl (s : St) : Reach P s s
  | step {s t u : St} {l : Lab} (h : Reach P s t) (st : Step l t u) (ok : P l) : Reach P s u

def init : St := ⟨[], [], [], [], 0, fun _ => 0⟩

/-! ### C01: without write faults the wire is the acceptance order, each ticket at most once -/

def InvA (s : St) : Prop :=
  List.Pairwise (· < ·) (s.wire ++ tks s.queue) ∧ ∀ t ∈ s.wire ++ tks s.queue, t < s.next

theorem tks_purge_sublist (now : Nat) (q : List Entry) : (tks (purge now q)).Sublist (tks q) :=
  List.Sublist.map _ List.filter_sublist

theorem invA_init : InvA init := by
  constructor
  · simp [init, tks]
  · intro t ht; simp [init, tks] at ht

theorem invA_step {l : Lab} {s t : St} (st : Step l s t) (ok : faultFree l) (h : InvA s) : InvA t := by
  obtain ⟨hp, hlt⟩ := h
  cases st with
  | enqueue _ now r x hcap =>
    have sub : (s.wire ++ tks (purge now s.queue)).Sublist (s.wire ++ tks s.queue) :=
      (tks_purge_sublist now s.queue).append_left _
    constructor
    · show List.Pairwise (· < ·) (s.wire ++ tks (purge now s.queue ++ [⟨s.next, r, x⟩]))
      have e1 : s.wire ++ tks (purge now s.queue ++ [⟨s.next, r, x⟩])
              = (s.wire ++ tks (purge now s.queue)) ++ [s.next] := by simp [tks]
      rw [e1, List.pairwise_append]
      refine ⟨hp.sublist sub, by simp, ?_⟩
      intro a ha b hb
      have : b = s.next := by simpa using hb
      subst this
      exact hlt a (sub.subset ha)
    · intro t ht
      have e1 : s.wire ++ tks (purge now s.queue ++ [⟨s.next, r, x⟩])
              = (s.wire ++ tks (purge now s.queue)) ++ [s.next] := by simp [tks]
      show t < s.next + 1
      rw [e1, List.mem_append] at ht
      cases ht with
      | inl h1 => exact Nat.lt_succ_of_lt (hlt t (sub.subset h1))
      | inr h1 => have : t = s.next := by simpa using h1
                  omega
  | overflow _ now hfull =>
    have sub : (s.wire ++ tks (purge now s.queue)).Sublist (s.wire ++ tks s.queue) :=
      (tks_purge_sublist now s.queue).append_left _
    exact ⟨hp.sublist sub, fun t ht => hlt t (sub.subset ht)⟩
  | write _ now e rest hq hlive =>
    have e1 : s.wire ++ tks s.queue = (s.wire ++ [e.tk]) ++ tks rest := by simp [hq, tks]
    rw [e1] at hp hlt
    exact ⟨hp, hlt⟩
  | expire _ now e rest hq hdead =>
    have sub : (s.wire ++ tks rest).Sublist (s.wire ++ tks s.queue) := by
      rw [hq]; exact (List.Sublist.map _ (List.sublist_cons_self e rest)).append_left _
    exact ⟨hp.sublist sub, fun t ht => hlt t (sub.subset ht)⟩
  | encfail _ e rest hq =>
    have sub : (s.wire ++ tks rest).Sublist (s.wire ++ tks s.queue) := by
      rw [hq]; exact (List.Sublist.map _ (List.sublist_cons_self e rest)).append_left _
    exact ⟨hp.sublist sub, fun t ht => hlt t (sub.subset ht)⟩
  | complete _ e he => exact ⟨hp, hlt⟩
  | requeue _ e he hr => exact absurd ok (by simp [faultFree])
  | giveup _ e he hr => exact absurd ok (by simp [faultFree])

theorem invA_reach {s : St} (h : Reach faultFree init s) : InvA s := by
  induction h with
  | refl => exact invA_init
  | step _ st ok ih => exact invA_step st ok ih

/-- **C01 (history).**  In every run without write faults, the frames handed to the writer carry strictly
increasing tickets: every accepted message at most once, in acceptance order, and only accepted ones. -/
theorem c01_wire_in_acceptance_order {s : St} (h : Reach faultFree init s) :
    List.Pairwise (· < ·) s.wire ∧ ∀ t ∈ s.wire, t < s.next := by
  obtain ⟨hp, hlt⟩ := invA_reach h
  exact ⟨(List.pairwise_append.mp hp).1, fun t ht => hlt t (List.mem_append.mpr (Or.inl ht))⟩

/-! ### Nothing is lost silently: an accepted ticket is on the wire, pending, or was dropped by a step
whose contract names the reason (expired at that instant, or write fault with no retry left) -/

def InvL (s : St) : Prop := ∀ t, t < s.next → t ∈ s.wire ∨ t ∈ tks s.queue ∨ t ∈ s.dropped

theorem mem_tks_split (now : Nat) (q : List Entry) (t : Nat) (h : t ∈ tks q) :
    t ∈ tks (purge now q) ∨ t ∈ tks (purged now q) := by
  simp only [tks, List.mem_map] at h ⊢
  obtain ⟨e, he, rfl⟩ := h
  by_cases hl : live now e = true
  · exact Or.inl ⟨e, by simp [purge, List.mem_filter, he, hl], rfl⟩
  · exact Or.inr ⟨e, by simp [purged, List.mem_filter, he, hl], rfl⟩

theorem invL_init : InvL init := by intro t ht; simp [init] at ht

theorem invL_step {l : Lab} {s t : St} (st : Step l s t) (h : InvL s) : InvL t := by
  cases st with
  | enqueue _ now r x hcap =>
    intro t ht
    show t ∈ s.wire ∨ t ∈ tks (purge now s.queue ++ [⟨s.next, r, x⟩]) ∨ t ∈ s.dropped ++ tks (purged now s.queue)
    have ht' : t < s.next + 1 := ht
    by_cases hn : t = s.next
    · subst hn; right; left; simp [tks]
    · rcases h t (by omega) with h1 | h1 | h1
      · exact Or.inl h1
      · rcases mem_tks_split now s.queue t h1 with h2 | h2
        · right; left; simp only [tks, List.map_append, List.mem_append]; exact Or.inl h2
        · right; right; exact List.mem_append.mpr (Or.inr h2)
      · right; right; exact List.mem_append.mpr (Or.inl h1)
  | overflow _ now hfull =>
    intro t ht
    show t ∈ s.wire ∨ t ∈ tks (purge now s.queue) ∨ t ∈ s.dropped ++ tks (purged now s.queue)
    rcases h t ht with h1 | h1 | h1
    · exact Or.inl h1
    · rcases mem_tks_split now s.queue t h1 with h2 | h2
      · exact Or.inr (Or.inl h2)
      · exact Or.inr (Or.inr (List.mem_append.mpr (Or.inr h2)))
    · exact Or.inr (Or.inr (List.mem_append.mpr (Or.inl h1)))
  | write _ now e rest hq hlive =>
    intro t ht
    show t ∈ s.wire ++ [e.tk] ∨ t ∈ tks rest ∨ t ∈ s.dropped
    rcases h t ht with h1 | h1 | h1
    · exact Or.inl (List.mem_append.mpr (Or.inl h1))
    · rw [hq] at h1
      simp only [tks, List.map_cons, List.mem_cons] at h1
      rcases h1 with h2 | h2
      · left; simp [h2]
      · right; left; exact h2
    · exact Or.inr (Or.inr h1)
  | expire _ now e rest hq hdead =>
    intro t ht
    show t ∈ s.wire ∨ t ∈ tks rest ∨ t ∈ s.dropped ++ [e.tk]
    rcases h t ht with h1 | h1 | h1
    · exact Or.inl h1
    · rw [hq] at h1
      simp only [tks, List.map_cons, List.mem_cons] at h1
      rcases h1 with h2 | h2
      · right; right; simp [h2]
      · right; left; exact h2
    · exact Or.inr (Or.inr (List.mem_append.mpr (Or.inl h1)))
  | encfail _ e rest hq =>
    intro t ht
    show t ∈ s.wire ∨ t ∈ tks rest ∨ t ∈ s.dropped ++ [e.tk]
    rcases h t ht with h1 | h1 | h1
    · exact Or.inl h1
    · rw [hq] at h1
      simp only [tks, List.map_cons, List.mem_cons] at h1
      rcases h1 with h2 | h2
      · right; right; simp [h2]
      · right; left; exact h2
    · exact Or.inr (Or.inr (List.mem_append.mpr (Or.inl h1)))
  | complete _ e he => exact h
  | requeue _ e he hr =>
    intro t ht
    show t ∈ s.wire ∨ t ∈ tks (⟨e.tk, e.retries - 1, e.expiry⟩ :: s.queue) ∨ t ∈ s.dropped
    rcases h t ht with h1 | h1 | h1
    · exact Or.inl h1
    · right; left; simp only [tks, List.map_cons, List.mem_cons]; exact Or.inr h1
    · exact Or.inr (Or.inr h1)
  | giveup _ e he hr =>
    intro t ht
    show t ∈ s.wire ∨ t ∈ tks s.queue ∨ t ∈ s.dropped ++ [e.tk]
    rcases h t ht with h1 | h1 | h1
    · exact Or.inl h1
    · exact Or.inr (Or.inl h1)
    · exact Or.inr (Or.inr (List.mem_append.mpr (Or.inl h1)))

/-- **C01 / C16 (history).**  Every accepted message is, at every instant, on the wire, still pending, or
was dropped by an expiry purge / expired-head pop / exhausted-retries step - under any faults. -/
theorem c01_nothing_lost {s : St} (h : Reach anyLab init s) : InvL s := by
  induction h with
  | refl => exact invL_init
  | step _ st _ ih => exact invL_step st ih

/-! ### C02: at most 1 + retries transmissions per message, under any pattern of write faults -/

def ids (s : St) : List Nat := tks s.queue ++ tks s.inflight

def InvB (s : St) : Prop :=
  (ids s).Nodup ∧
  (∀ t ∈ ids s, t < s.next) ∧
  (∀ t, s.next ≤ t → s.wire.count t = 0) ∧
  (∀ e ∈ s.queue, s.wire.count e.tk + e.retries = s.r0 e.tk) ∧
  (∀ e ∈ s.inflight, s.wire.count e.tk + e.retries = s.r0 e.tk + 1) ∧
  (∀ t, s.wire.count t ≤ s.r0 t + 1)

theorem count_snoc (w : List Nat) (a t : Nat) :
    (w ++ [a]).count t = w.count t + if a = t then 1 else 0 := by
  simp [List.count_append, List.count_singleton]

theorem mem_tks {q : List Entry} {e : Entry} (h : e ∈ q) : e.tk ∈ tks q :=
  List.mem_map.mpr ⟨e, h, rfl⟩

theorem invB_init : InvB init := by
  refine ⟨by simp [ids, init, tks], ?_, ?_, ?_, ?_, ?_⟩ <;> simp [ids, init, tks]

/-- shrinking queue / inflight to sublists (purge, expired pop, completion, give-up) keeps InvB -/
theorem invB_shrink {s : St} (q' i' : List Entry) (d' : List Nat) (hq : q'.Sublist s.queue)
    (hi : i'.Sublist s.inflight) (h : InvB s) : InvB ⟨q', i', s.wire, d', s.next, s.r0⟩ := by
  obtain ⟨h1, h2, h3, h4, h5, h6⟩ := h
  have sub : (tks q' ++ tks i').Sublist (ids s) := (hq.map _).append (hi.map _)
  exact ⟨h1.sublist sub, fun t ht => h2 t (sub.subset ht), h3, fun e he => h4 e (hq.subset he),
         fun e he => h5 e (hi.subset he), h6⟩

theorem invB_step {l : Lab} {s t : St} (st : Step l s t) (h : InvB s) : InvB t := by
  cases st with
  | overflow _ now hfull => exact invB_shrink _ _ _ List.filter_sublist (List.Sublist.refl _) h
  | expire _ now e rest hq hdead =>
    exact invB_shrink _ _ _ (by rw [hq]; exact List.sublist_cons_self e rest) (List.Sublist.refl _) h
  | encfail _ e rest hq =>
    exact invB_shrink _ _ _ (by rw [hq]; exact List.sublist_cons_self e rest) (List.Sublist.refl _) h
  | complete _ e he => exact invB_shrink _ _ _ (List.Sublist.refl _) List.erase_sublist h
  | giveup _ e he hr => exact invB_shrink _ _ _ (List.Sublist.refl _) List.erase_sublist h
  | enqueue _ now r x hcap =>
    obtain ⟨h1, h2, h3, h4, h5, h6⟩ := invB_shrink (purge now s.queue) s.inflight s.dropped
      List.filter_sublist (List.Sublist.refl _) h
    simp only [ids] at h1 h2
    dsimp only at h1 h2 h3 h4 h5 h6
    have fresh : s.next ∉ tks (purge now s.queue) ++ tks s.inflight := fun hm => Nat.lt_irrefl _ (h2 _ hm)
    refine ⟨?_, ?_, ?_, ?_, ?_, ?_⟩
    · show (tks (purge now s.queue ++ [⟨s.next, r, x⟩]) ++ tks s.inflight).Nodup
      have p : (tks (purge now s.queue ++ [⟨s.next, r, x⟩]) ++ tks s.inflight).Perm
               (s.next :: (tks (purge now s.queue) ++ tks s.inflight)) := by
        have : tks (purge now s.queue ++ [⟨s.next, r, x⟩]) ++ tks s.inflight
             = tks (purge now s.queue) ++ s.next :: tks s.inflight := by simp [tks]
        rw [this]; exact List.perm_middle
      exact (p.nodup_iff).mpr (List.nodup_cons.mpr ⟨fresh, h1⟩)
    · intro t ht
      show t < s.next + 1
      have : t ∈ tks (purge now s.queue) ++ s.next :: tks s.inflight := by
        have e1 : tks (purge now s.queue ++ [⟨s.next, r, x⟩]) ++ tks s.inflight
             = tks (purge now s.queue) ++ s.next :: tks s.inflight := by simp [tks]
        simpa [ids, e1] using ht
      rcases List.mem_append.mp this with h7 | h7
      · exact Nat.lt_succ_of_lt (h2 t (List.mem_append.mpr (Or.inl h7)))
      · rcases List.mem_cons.mp h7 with h8 | h8
        · omega
        · exact Nat.lt_succ_of_lt (h2 t (List.mem_append.mpr (Or.inr h8)))
    · intro t ht
      have ht' : s.next + 1 ≤ t := ht
      exact h3 t (by omega)
    · intro e he
      show s.wire.count e.tk + e.retries = (if e.tk = s.next then r else s.r0 e.tk)
      rcases List.mem_append.mp he with h7 | h7
      · have : e.tk < s.next := h2 _ (List.mem_append.mpr (Or.inl (mem_tks h7)))
        rw [if_neg (by omega)]; exact h4 e h7
      · have : e = ⟨s.next, r, x⟩ := by simpa using h7
        subst this
        simp [h3 s.next (Nat.le_refl _)]
    · intro e he
      show s.wire.count e.tk + e.retries = (if e.tk = s.next then r else s.r0 e.tk) + 1
      have : e.tk < s.next := h2 _ (List.mem_append.mpr (Or.inr (mem_tks he)))
      rw [if_neg (by omega)]; exact h5 e he
    · intro t
      show s.wire.count t ≤ (if t = s.next then r else s.r0 t) + 1
      by_cases ht : t = s.next
      · subst ht; simp [h3 s.next (Nat.le_refl _)]
      · rw [if_neg ht]; exact h6 t
  | write _ now e rest hq hlive =>
    obtain ⟨h1, h2, h3, h4, h5, h6⟩ := h
    simp only [ids, hq] at h1 h2
    have p : (tks rest ++ tks (e :: s.inflight)).Perm (tks (e :: rest) ++ tks s.inflight) := by
      show (tks rest ++ e.tk :: tks s.inflight).Perm (e.tk :: tks rest ++ tks s.inflight)
      exact List.perm_middle
    have nd : (e.tk :: (tks rest ++ tks s.inflight)).Nodup := by simpa [tks] using h1
    have hne : ∀ t ∈ tks rest ++ tks s.inflight, t ≠ e.tk := by
      intro t ht hEq; subst hEq; exact (List.nodup_cons.mp nd).1 ht
    have he4 := h4 e (by rw [hq]; exact List.mem_cons_self)
    refine ⟨?_, ?_, ?_, ?_, ?_, ?_⟩
    · exact (p.nodup_iff).mpr h1
    · intro t ht; exact h2 t ((p.mem_iff).mp ht)
    · intro t ht
      show (s.wire ++ [e.tk]).count t = 0
      have : e.tk < s.next := h2 _ (by simp [tks])
      have ht' : s.next ≤ t := ht
      rw [count_snoc, if_neg (by omega), h3 t ht']
    · intro e' he'
      show (s.wire ++ [e.tk]).count e'.tk + e'.retries = s.r0 e'.tk
      have : e'.tk ≠ e.tk := hne _ (List.mem_append.mpr (Or.inl (mem_tks he')))
      rw [count_snoc, if_neg (fun h => this h.symm)]
      exact h4 e' (by rw [hq]; exact List.mem_cons_of_mem _ he')
    · intro e' he'
      show (s.wire ++ [e.tk]).count e'.tk + e'.retries = s.r0 e'.tk + 1
      rcases List.mem_cons.mp he' with h7 | h7
      · subst h7; rw [count_snoc, if_pos rfl]; omega
      · have : e'.tk ≠ e.tk := hne _ (List.mem_append.mpr (Or.inr (mem_tks h7)))
        rw [count_snoc, if_neg (fun h => this h.symm)]
        exact h5 e' h7
    · intro t
      show (s.wire ++ [e.tk]).count t ≤ s.r0 t + 1
      rw [count_snoc]
      by_cases ht : e.tk = t
      · subst ht; rw [if_pos rfl]; omega
      · rw [if_neg ht]; exact h6 t
  | requeue _ e he hr =>
    obtain ⟨h1, h2, h3, h4, h5, h6⟩ := h
    have pe : (tks s.inflight).Perm (e.tk :: tks (s.inflight.erase e)) :=
      (List.perm_cons_erase he).map _
    have p : (tks (⟨e.tk, e.retries - 1, e.expiry⟩ :: s.queue) ++ tks (s.inflight.erase e)).Perm (ids s) := by
      show (e.tk :: tks s.queue ++ tks (s.inflight.erase e)).Perm (tks s.queue ++ tks s.inflight)
      exact (List.perm_middle.symm).trans ((pe.symm).append_left _)
    have he5 := h5 e he
    refine ⟨(p.nodup_iff).mpr h1, fun t ht => h2 t ((p.mem_iff).mp ht), h3, ?_, ?_, h6⟩
    · intro e' he'
      rcases List.mem_cons.mp he' with h7 | h7
      · subst h7; show s.wire.count e.tk + (e.retries - 1) = s.r0 e.tk; omega
      · exact h4 e' h7
    · intro e' he'; exact h5 e' (List.mem_of_mem_erase he')

theorem invB_reach {s : St} (h : Reach anyLab init s) : InvB s := by
  induction h with
  | refl => exact invB_init
  | step _ st _ ih => exact invB_step st ih

/-- **C02 (history).**  Under any pattern of write faults, expiries and overflows, the frame of a message
is handed to the writer at most 1 + (the retry count its policy gave it) times. -/
theorem c02_bounded_transmissions {s : St} (h : Reach anyLab init s) (t : Nat) :
    s.wire.count t ≤ s.r0 t + 1 := (invB_reach h).2.2.2.2.2 t

/-- **C02 (non-idempotent once).**  A message accepted with retry count 0 is written at most once. -/
theorem c02_non_idempotent_once {s : St} (h : Reach anyLab init s) (t : Nat) (h0 : s.r0 t = 0) :
    s.wire.count t ≤ 1 := by have := c02_bounded_transmissions h t; omega

/-! ### C16: the pending buffer never exceeds its capacity (runs without write faults; a re-queue after a
write fault puts the failed entry back in front *without* a capacity test: see DESIGN.md 9.4) -/

theorem c16_bounded {s : St} (h : Reach faultFree init s) : s.queue.length ≤ capacity := by
  induction h with
  | refl => simp [init, capacity]
  | step _ st ok ih =>
    cases st with
    | enqueue _ now r x hcap =>
      show (purge now _ ++ [_]).length ≤ capacity
      simp only [List.length_append, List.length_singleton]; omega
    | overflow _ now hfull =>
      exact Nat.le_trans (List.length_filter_le _ _) ih
    | write _ now e rest hq hlive => rw [hq] at ih; exact Nat.le_of_succ_le ih
    | expire _ now e rest hq hdead => rw [hq] at ih; exact Nat.le_of_succ_le ih
    | encfail _ e rest hq => rw [hq] at ih; exact Nat.le_of_succ_le ih
    | complete _ e he => exact ih
    | requeue _ e he hr => exact absurd ok (by simp [faultFree])
    | giveup _ e he hr => exact absurd ok (by simp [faultFree])

end Fifo

#print axioms Fifo.c01_wire_in_acceptance_order
#print axioms Fifo.c01_nothing_lost
#print axioms Fifo.c02_bounded_transmissions
#print axioms Fifo.c02_non_idempotent_once
#print axioms Fifo.c16_bounded
