/-
Single-connection lemma (DESIGN.md 3.4): closes the safety half of C07 / C15 - "at no time more than one
open connection; every connection it abandons is closed" - from the step contracts of `_connect`,
`_disconnect`, `close` in pyairtouch/comms/socket.py that ./check discharges on the real code.

Connections are numbered in the order `open_connection` returns them.  `opened` is every connection that
ever came into existence and has not been `close()`d (writer.close() called) yet; `held` is the one the socket
uses (`_reader` / `_writer`, invariant J1).  Liveness (that a connection is eventually re-established) is not
part of the lemma.
-/
namespace Conn

structure St where
  held : Option Nat
  opened : List Nat          -- not yet closed
  next : Nat                 -- connections created so far

inductive Step : St → St → Prop
  /-- `_connect`: `open_connection` returned while nothing is held and the socket is open: adopted. -/
  | adopt (s : St) (h : s.held = none) :
      Step s ⟨some s.next, s.next :: s.opened, s.next + 1⟩
  /-- `_connect`: `open_connection` returned after close() or after another connect won: the new connection
  is closed again in the same atomic segment and not adopted. -/
  | reject (s : St) : Step s ⟨s.held, s.opened, s.next + 1⟩
  /-- `_disconnect` (also through reset_connection / close): the held connection is closed before anything
  else can run; afterwards nothing is held. -/
  | disconnect (s : St) (c : Nat) (h : s.held = some c) :
      Step s ⟨none, s.opened.erase c, s.next⟩
  /-- `_disconnect` on a socket that holds nothing. -/
  | noop (s : St) : Step s s

inductive Reach : St → Prop
  | init : Reach ⟨none, [], 0⟩
  | step {s t : St} (h : Reach s) (st : Step s t) : Reach t

def Inv (s : St) : Prop :=
  (s.opened = match s.held with | some c => [c] | none => []) ∧ (∀ c ∈ s.opened, c < s.next)

theorem inv_reach {s : St} (h : Reach s) : Inv s := by
  induction h with
  | init => exact ⟨rfl, by intro c hc; simp at hc⟩
  | step _ st ih =>
    obtain ⟨h1, h2⟩ := ih
    cases st with
    | adopt hh =>
      rw [hh] at h1
      refine ⟨by simp [h1], ?_⟩
      intro c hc
      simp [h1] at hc
      subst hc
      exact Nat.lt_succ_self _
    | reject => exact ⟨h1, fun c hc => Nat.lt_succ_of_lt (h2 c hc)⟩
    | disconnect c hh =>
      rw [hh] at h1
      exact ⟨by simp [h1], by intro d hd; simp [h1] at hd⟩
    | noop => exact ⟨h1, h2⟩

/-- **C07 (safety).**  At every instant at most one connection is open, and it is the one in use. -/
theorem at_most_one_open {s : St} (h : Reach s) : s.opened.length ≤ 1 ∧ (∀ c ∈ s.opened, s.held = some c) := by
  obtain ⟨h1, _⟩ := inv_reach h
  cases hh : s.held with
  | none => rw [hh] at h1; simp [h1]
  | some c => rw [hh] at h1; simp [h1]

/-- **C07 / C15 (safety).**  Every connection that was ever opened and is no longer in use has been closed. -/
theorem abandoned_are_closed {s : St} (h : Reach s) (c : Nat) (hc : c ∈ s.opened) : s.held = some c :=
  (at_most_one_open h).2 c hc

end Conn

#print axioms Conn.at_most_one_open
#print axioms Conn.abandoned_are_closed
