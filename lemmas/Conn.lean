/-
Single-connection lemma (DESIGN.md 3.4): closes the safety half of C07 / C15 - "at no time more than one
open connection; every connection it abandons is closed" - from the step contracts of `_connect`,
`_disconnect`, `close` in pyairtouch/comms/socket.py that ./check discharges on the real code.

Connections are numbered in the order `open_connection` returns them.  `opened` is every connection that
ever came into existence and has not been `close()`d (writer.close() called) yet; `held` is the one the socket
uses (`_reader` / `_writer`, invariant J1).  Liveness (that a connection is eventually re-established) is not
part of the lemma.
-/
namespace Conn

structure St where
  held : Option Nat
  opened : List Nat          -- not yet closed
  next : Nat                 -- connections created so far
  isOpen : Bool              -- the socket's `is_open` flag

inductive Step : St → St → Prop
  /-- `_connect`: `open_connection` returned while nothing is held and the socket is open: adopted. -/
  | adopt (s : St) (h : s.held = none) (ho : s.isOpen = true) :
      Step s ⟨some s.next, s.next :: s.opened, s.next + 1, s.isOpen⟩
  /-- `_connect`: `open_connection` returned after close() or after another connect won: the new connection
  is closed again in the same atomic segment and not adopted. -/
  | reject (s : St) : Step s ⟨s.held, s.opened, s.next + 1, s.isOpen⟩
  /-- `_disconnect` (also through reset_connection / close): the held connection is closed before anything
  else can run; afterwards nothing is held. -/
  | disconnect (s : St) (c : Nat) (h : s.held = some c) :
      Step s ⟨none, s.opened.erase c, s.next, s.isOpen⟩
  /-- `_disconnect` on a socket that holds nothing. -/
  | noop (s : St) : Step s s
  /-- `close()`, first atomic segment: the socket is marked not open *before* close first suspends. -/
  | shut (s : St) : Step s ⟨s.held, s.opened, s.next, false⟩
  /-- `open_socket()`. -/
  | reopen (s : St) : Step s ⟨s.held, s.opened, s.next, true⟩

inductive Reach : St → Prop
  | init : Reach ⟨none, [], 0, false⟩
  | step {s t : St} (h : Reach s) (st : Step s t) : Reach t

def Inv (s : St) : Prop :=
  (s.opened = match s.held with | some c => [c] | none => []) ∧ (∀ c ∈ s.opened, c < s.next)

theorem inv_reach {s : St} (h : Reach s) : Inv s := by
  induction h with
  | init => exact ⟨rfl, by intro c hc; simp at hc⟩
  | step _ st ih =>
    obtain ⟨h1, h2⟩ := ih
    cases st with
    | adopt hh _ =>
      rw [hh] at h1
      refine ⟨by simp [h1], ?_⟩
      intro c hc
      simp [h1] at hc
      subst hc
      exact Nat.lt_succ_self _
    | reject => exact ⟨h1, fun c hc => Nat.lt_succ_of_lt (h2 c hc)⟩
    | disconnect c hh =>
      rw [hh] at h1
      exact ⟨by simp [h1], by intro d hd; simp [h1] at hd⟩
    | noop => exact ⟨h1, h2⟩
    | shut => exact ⟨h1, h2⟩
    | reopen => exact ⟨h1, h2⟩

/-- **C07 (safety).**  At every instant at most one connection is open, and it is the one in use. -/
theorem at_most_one_open {s : St} (h : Reach s) : s.opened.length ≤ 1 ∧ (∀ c ∈ s.opened, s.held = some c) := by
  obtain ⟨h1, _⟩ := inv_reach h
  cases hh : s.held with
  | none => rw [hh] at h1; simp [h1]
  | some c => rw [hh] at h1; simp [h1]

/-- **C07 / C15 (safety).**  Every connection that was ever opened and is no longer in use has been closed. -/
theorem abandoned_are_closed {s : St} (h : Reach s) (c : Nat) (hc : c ∈ s.opened) : s.held = some c :=
  (at_most_one_open h).2 c hc

/-- Steps that can happen while nobody calls `open_socket()` again. -/
inductive Quiet : St → St → Prop
  | refl (s : St) : Quiet s s
  | step {s t u : St} (h : Quiet s t) (st : Step t u) (nr : u.isOpen = t.isOpen ∨ u.isOpen = false) : Quiet s u

/-- While the socket is marked not open, no connection is adopted: what is held can only be given up. -/
theorem closed_adopts_nothing {s t : St} (q : Quiet s t) (hc : s.isOpen = false) :
    t.isOpen = false ∧ (t.held = none ∨ t.held = s.held) := by
  induction q with
  | refl => exact ⟨hc, Or.inr rfl⟩
  | step _ st nr ih =>
    obtain ⟨io, hh⟩ := ih
    cases st with
    | adopt _ ho => rw [io] at ho; cases ho
    | reject => exact ⟨io, hh⟩
    | disconnect c _ => exact ⟨io, Or.inl rfl⟩
    | noop => exact ⟨io, hh⟩
    | shut => exact ⟨rfl, hh⟩
    | reopen =>
      cases nr with
      | inl h => simp [io] at h
      | inr h => simp at h

/-- **C15 (safety).**  `close()` = mark not open, then `_disconnect`.  From the moment its `_disconnect` has run
(nothing held, socket marked not open) and for as long as `open_socket()` is not called again - whatever connection
attempts, resets and read-loop failures complete meanwhile - the socket holds no connection and no connection is
open: every connection that was opened has been closed, and none is adopted after shutdown. -/
theorem closed_is_final {s t : St} (hs : Reach s) (hc : s.isOpen = false) (hn : s.held = none) (q : Quiet s t) :
    t.held = none ∧ t.opened = [] ∧ t.isOpen = false := by
  have reach_t : Reach t := by
    induction q with
    | refl => exact hs
    | step _ st _ ih => exact Reach.step ih st
  obtain ⟨io, hh⟩ := closed_adopts_nothing q hc
  have hnone : t.held = none := by
    cases hh with
    | inl h => exact h
    | inr h => rw [h, hn]
  obtain ⟨h1, _⟩ := inv_reach reach_t
  rw [hnone] at h1
  exact ⟨hnone, h1, io⟩

end Conn

#print axioms Conn.at_most_one_open
#print axioms Conn.abandoned_are_closed
#print axioms Conn.closed_is_final
