"""Native readings of obligation sets whose symbolic reading works on models of the socket / loop: the same
obligation names evaluated on the real package (CPython, virtual-time loop, recording stand-ins for the callee that is
taken by contract).  Used for replay of counter-models, for interpreter conformance and as the bounded stand-in
(DESIGN.md 2.9) when the verifier cannot decide an edited tree.  Nothing here decides a property on its own."""
from __future__ import annotations

import asyncio


def _loop_run(main):
    from replay import vloop
    return vloop.run(main)[0]


# ------------------------------------------------------------------------------------------------ socket.send
def socket_send(h):
    import pyairtouch.comms.socket as S
    size = h.int("announced_size", 0, 70000)
    known = h.bool("encoder_registered")
    size_fails = h.choice("size_outcome", ["ok", "ok", "ValueError"])
    outcome = h.choice("send_with_header_outcome", ["ok", "NotOpenError", "QueueOverflowError"])
    retries = h.int("max_retries", 0, 5)
    life = h.real("lifetime", 0, 100)
    ev = []

    class Msg:
        message_id = 0x2A

    class Enc:
        def size(self, m):
            if size_fails != "ok":
                raise ValueError("size")
            ev.append(("size", m, size))
            return size

    class HF:
        def create_from_message(self, m, ln):
            hdr = object()
            ev.append(("create_header", hdr, m, ln))
            return hdr

    class Reg:
        header_factory = HF()

        def get_encoder(self, mid):
            if not known:
                raise NotImplementedError(mid)
            return Enc()
    msg, pol = Msg(), S.RetryPolicy(max_retries=retries, max_lifetime=life)
    seen = []

    async def main(loop, net):
        sock = S.AirTouchSocket(loop, "console", 9004, Reg())

        async def swh(header, message, retry_policy):
            seen.append((header, message, retry_policy))
            if outcome != "ok":
                raise getattr(S, outcome)()
        sock.send_with_header = swh
        try:
            await sock.send(msg, pol)
            return None
        except KeyboardInterrupt:
            raise
        except BaseException as e:  # noqa: BLE001
            return e
    raised = _loop_run(main)
    if seen:
        hdr_ev = [e for e in ev if e[0] == "create_header"]
        size_ev = [e for e in ev if e[0] == "size"]
        h.oblige("the header is created for this message with the size its encoder announces",
                 len(hdr_ev) == 1 and len(size_ev) == 1 and hdr_ev[0][2] is msg and size_ev[0][1] is msg and hdr_ev[0][3] == size_ev[0][2])
        h.oblige("send_with_header gets that header, this message and this policy",
                 bool(hdr_ev) and seen[0][0] is hdr_ev[0][1] and seen[0][1] is msg and seen[0][2] is pol)
        h.oblige("exactly one submission", len(seen) == 1)
    else:
        h.oblige("nothing submitted only because the encoder lookup or size() failed",
                 isinstance(raised, (NotImplementedError, ValueError)) and (not known or size_fails != "ok"))


# ------------------------------------------------------------------------------------------------ socket.open_socket
def socket_open_socket(h):
    import pyairtouch.comms.socket as S
    import pyairtouch.at4.comms.registry as reg
    was_open = h.bool("is_open")

    async def main(loop, net):
        sock = S.AirTouchSocket(loop, "console", 9004, reg.INSTANCE)
        sock.is_open = was_open
        started = []

        async def connect():
            started.append(loop.time())
            await asyncio.sleep(3.0)      # a slow connection attempt
        sock._connect = connect
        t0 = loop.time()
        raised = None
        try:
            await sock.open_socket()
        except KeyboardInterrupt:
            raise
        except BaseException as e:  # noqa: BLE001
            raised = e
        at_return = (len(started), loop.time() - t0, sock.is_open)
        await asyncio.sleep(10.0)
        return raised, at_return, len(started)
    raised, (started_at_return, waited, is_open), started = _loop_run(main)
    h.oblige("open_socket lets no exception out", raised is None)
    h.oblige("open_socket does not wait for the connection: the attempt runs as a background task, so the caller's own "
             "time-out (init(): 5 s) is not spent inside open_socket", started_at_return == 0 and waited == 0)
    h.oblige("afterwards the socket is open", is_open is True)
    h.oblige("opening a closed socket schedules exactly one immediate connect attempt; an open one nothing", started == (0 if was_open else 1))


# ------------------------------------------------------------------------------------------------ socket._delay
def socket_delay(h):
    import pyairtouch.comms.socket as S
    d = h.real("delay", 0, 100)

    async def main(loop, net):
        ran = []

        async def inner():
            ran.append(loop.time())
            return 42
        t0 = loop.time()
        r = await S._delay(inner(), d)
        return r, ran, t0, loop.time()
    r, ran, t0, t1 = _loop_run(main)
    h.oblige("_delay returns the result of the coroutine", r == 42)
    h.oblige("sleeps exactly once, for exactly `delay` seconds", abs((t1 - t0) - d) < 1e-9)
    h.oblige("the coroutine runs once, not before `delay` seconds have passed", len(ran) == 1 and ran[0] >= t0 + d - 1e-9)
    h.oblige("retry delay constant is 2.0 s", S._CONNECT_RETRY_DELAY == 2.0)


# ------------------------------------------------------------------------------------------------ drain while not connected
def socket_drain_not_connected(h):
    import pyairtouch.comms.socket as S
    import pyairtouch.at4.comms.registry as reg
    import pyairtouch.at4.comms.x2B_group_status as gs
    n = h.int("queued", 1, 4)

    async def main(loop, net):
        sock = S.AirTouchSocket(loop, "console", 9004, reg.INSTANCE)
        sock.is_open = True
        sock.is_connected = False
        log = []

        async def write(*a, **k):
            log.append(("write", a))

        async def reset():
            log.append(("reset",))
        sock._write = write
        sock.reset_connection = reset
        msgs = [gs.GroupStatusRequest() for _ in range(n)]
        for m in msgs:
            hdr = reg.INSTANCE.header_factory.create_from_message(m, 0)
            sock._message_queue.append(S._MessageQueueEntry(header=hdr, message=m, retries_remaining=1, expiry=loop.time() + 30.0))
        before = list(sock._message_queue)
        t0 = loop.time()
        raised = None
        try:
            await sock._drain_message_queue()
        except KeyboardInterrupt:
            raise
        except BaseException as e:  # noqa: BLE001
            raised = e
        return raised, log, before, list(sock._message_queue), loop.time() - t0
    raised, log, before, after, dt = _loop_run(main)
    h.oblige("returns", raised is None)
    h.oblige("while not connected nothing is popped, written or reset", log == [] and len(after) == len(before) and all(a is b for a, b in zip(after, before)) and dt == 0)


# ------------------------------------------------------------------------------------------------ heartbeat._message_received
def heartbeat_message_received(h):
    import pyairtouch.comms as comms
    import pyairtouch.comms.heartbeat as HB
    match = h.bool("match_result")

    async def main(loop, net):
        calls = []

        class Sock:
            is_connected = True

            def subscribe_on_message_received(self, cb):
                pass

            def unsubcribe_on_message_received(self, cb):
                pass

            async def send(self, *a, **k):
                pass

        def response_match(m):
            calls.append(m)
            return match
        cfg = HB.HeartbeatConfig(message=comms.UnsupportedMessage(1, None), response_match=response_match, interval=300.0, timeout=330.0)
        mgr = HB.HeartbeatManager(loop=loop, socket=Sock(), config=cfg)
        mgr._response_received.clear()
        m = comms.UnsupportedMessage(2, None)
        raised = None
        try:
            await mgr._message_received(None, m)
        except KeyboardInterrupt:
            raise
        except BaseException as e:  # noqa: BLE001
            raised = e
        return raised, calls, m, mgr._response_received.is_set()
    raised, calls, m, flag = _loop_run(main)
    h.oblige("no exception", raised is None)
    h.oblige("the matcher is consulted with the received message", len(calls) == 1 and calls[0] is m)
    h.oblige("a matching message marks a response, any other message does not", flag == match)


# ------------------------------------------------------------------------------------------------ discovery
def _random_datagram(h, G):
    """A datagram of one of the structures the symbolic reading distinguishes, concrete."""
    rng_text = ["10.0.0.5", "SER1", "ID42", "a", "", " x ", "hé", "café €", "My House"]
    kind = h.choice("datagram_kind", ["vendor", "vendor-invalid-utf8", "request", "few-parts", "wrong-ident", "garbage", "ident-elsewhere"])
    t = lambda name: h.choice(name, rng_text).encode()  # noqa: E731
    ident = G["ident"]
    if kind == "vendor":
        parts = [t("host"), t("serial"), ident, t("id")] + ([h.choice("name", ["n", "a, b, c", "näme,"]).encode()] if G["parts"] == 5 else [])
        return kind, b",".join(parts)
    if kind == "vendor-invalid-utf8":
        bad = h.choice("bad_part", [0, 1, 3])
        parts = [t("host"), t("serial"), ident, t("id")] + ([b"n"] if G["parts"] == 5 else [])
        parts[bad] = parts[bad] + b"\xff\xfe"
        return kind, b",".join(parts)
    if kind == "request":
        return kind, G["req"]
    if kind == "few-parts":
        k = h.int("parts", 1, G["parts"] - 1)
        return kind, b",".join([t("host"), t("serial"), ident, t("id")][:k])
    if kind == "wrong-ident":
        return kind, b",".join([t("host"), t("serial"), b"AirTouch9", t("id"), b"n"][:G["parts"]])
    if kind == "ident-elsewhere":
        return kind, b",".join([t("host"), ident, t("serial"), t("id"), b"n"][:G["parts"]])
    n = h.int("garbage_len", 0, 30)
    return kind, bytes(h.int(f"g{i}", 0, 255) for i in range(n))


def discovery_datagram_received(h, g, GEN):
    import importlib
    import pyairtouch.comms.discovery as D
    G = GEN[g]
    mod = importlib.import_module(G["mod"])
    kind, dg = _random_datagram(h, G)
    parts = dg.split(b",", G["parts"] - 1)
    vendor = len(parts) == G["parts"] and parts[2] == G["ident"]

    async def main(loop, net):
        added = []

        async def callback(resp):
            added.append(resp)
        proto = D._DiscoveryDecodeProtocol(loop=loop, decoder=getattr(mod, G["dec"])(), response_type=getattr(mod, G["resp"]), callback=callback)
        n0 = len(asyncio.all_tasks(loop))
        raised = None
        try:
            proto.datagram_received(dg, ("1.2.3.4", 1))
        except KeyboardInterrupt:
            raise
        except BaseException as e:  # noqa: BLE001
            raised = e
        n_tasks = len(asyncio.all_tasks(loop)) - n0
        await asyncio.sleep(0.5)
        return raised, n_tasks, added
    raised, n_tasks, added = _loop_run(main)
    h.oblige("datagram_received returns, or lets only UnicodeDecodeError out (logged by the event loop; the search goes on)",
             raised is None or isinstance(raised, UnicodeDecodeError), detail=repr(dg))
    if vendor and raised is None:
        h.oblige("a vendor-format datagram schedules exactly one callback with its response", n_tasks == 1, detail=repr(dg))
        h.oblige("the response handed over carries the datagram's host", len(added) == 1 and added[0].host == parts[0].decode(), detail=repr(dg))
    else:
        h.oblige("any other datagram adds nothing", n_tasks == 0 and added == [], detail=repr(dg))


def discovery_open_socket(h, g, GEN):
    """The real _open_socket with socket.socket and loop.create_datagram_endpoint recorded (no OS socket is opened)."""
    import importlib
    import socket as _socket
    import pyairtouch.comms.discovery as D
    G = GEN[g]
    mod = importlib.import_module(G["mod"])
    cfg = mod.CONFIG

    class FakeSock:
        def __init__(self, *a, **k):
            self.args, self.kwargs, self.opts, self.bound = a, k, [], []

        def setsockopt(self, *a):
            self.opts.append(a)

        def bind(self, addr):
            self.bound.append(addr)

        def setblocking(self, *a):
            pass

        def close(self):
            pass

    async def main(loop, net):
        socks, eps = [], []
        real_socket = D.socket.socket

        def mk(*a, **k):
            s = FakeSock(*a, **k)
            socks.append(s)
            return s

        async def endpoint(protocol_factory=None, *a, **k):
            proto = protocol_factory()
            tr = object()
            eps.append((tr, proto, k.get("sock")))
            return tr, proto
        loop.create_datagram_endpoint = endpoint
        D.socket.socket = mk
        responses = set()
        raised = None
        try:
            disc = D.AirTouchDiscoverer(cfg)
            try:
                tr = await disc._open_socket(responses)
            except KeyboardInterrupt:
                raise
            except BaseException as e:  # noqa: BLE001
                raised, tr = e, None
        finally:
            D.socket.socket = real_socket
        results = []
        if raised is None and len(eps) == 1 and isinstance(eps[0][1], D._DiscoveryDecodeProtocol):
            R = getattr(mod, G["resp"])
            mk_r = lambda i: R(**dict(dict(airtouch_id=f"id{i}", host=f"10.0.0.{i}", serial="S"), **({"name": "a, b"} if g == 5 else {})))  # noqa: E731
            empty_before = len(responses) == 0
            for r in (mk_r(0), mk_r(0), mk_r(1)):
                try:
                    await eps[0][1]._callback(r)
                    results.append(True)
                except KeyboardInterrupt:
                    raise
                except BaseException:  # noqa: BLE001
                    results.append(False)
        else:
            empty_before = None
        return raised, tr, socks, eps, responses, results, empty_before
    raised, tr, socks, eps, responses, results, empty_before = _loop_run(main)
    h.oblige("_open_socket does not raise (given the OS lets the socket be bound)", raised is None, detail=repr(raised))
    if raised is not None:
        return
    ok1 = len(socks) == 1 and len(eps) == 1 and eps[0][2] is socks[0]
    h.oblige("exactly one socket and one datagram endpoint on that socket are created", ok1)
    if not ok1:
        return
    sk, (etr, proto, _s) = socks[0], eps[0]
    fam = sk.kwargs.get("family", sk.args[0] if sk.args else None)
    typ = sk.kwargs.get("type", sk.args[1] if len(sk.args) > 1 else None)
    h.oblige("it is an IPv4 UDP socket", fam == _socket.AF_INET and typ == _socket.SOCK_DGRAM)
    h.oblige("broadcast is enabled on it", (_socket.SOL_SOCKET, _socket.SO_BROADCAST, 1) in sk.opts)
    h.oblige(f"it is bound once, to all interfaces on the generation's discovery port {G['port']}", sk.bound == [("0.0.0.0", G["port"])])
    h.oblige("the returned transport is the endpoint's", tr is etr)
    isp = isinstance(proto, D._DiscoveryDecodeProtocol)
    h.oblige("the endpoint's protocol is the decoding protocol, with this generation's decoder and response type",
             isp and proto._decoder is cfg.decoder and proto._response_type is cfg.response_type and cfg.response_type is getattr(mod, G["resp"])
             and isinstance(cfg.decoder, getattr(mod, G["dec"])))
    if not isp:
        return
    h.oblige("nothing is in the caller's set before a response arrives", empty_before is True)
    for k, ok in enumerate(results):
        h.oblige(f"the protocol's callback accepts response #{k}", ok)
    ids = sorted(r.airtouch_id for r in responses)
    h.oblige("every response reaches the caller's set; an identical one (same address, serial, id, name) collapses", ids == ["id0", "id1"])
    R = getattr(mod, G["resp"])
    h.oblige("responses are value objects (frozen dataclass with eq): what makes duplicates collapse in a set",
             R.__dataclass_params__.frozen and R.__dataclass_params__.eq)
    h.oblige("the request the search sends is the generation's fixed string", cfg.request_factory().data == G["req"])
    h.oblige("...to the generation's discovery port", cfg.remote_port == G["port"] and cfg.local_port == G["port"])


def factory_search(h, GEN):
    import importlib
    import pyairtouch.comms.discovery as D
    import pyairtouch.factory as F
    host = h.choice("remote_host", [None, "192.168.1.9"])
    n4 = h.choice("at4_found", [0, 2])
    n5 = h.choice("at5_found", [0, 1])
    d4 = h.choice("at4_latency", [0.0, 0.1, 1.0])
    d5 = h.choice("at5_latency", [0.0, 0.1, 1.0])
    m4, m5 = importlib.import_module(GEN[4]["mod"]), importlib.import_module(GEN[5]["mod"])
    found = {4: [m4.At4DiscoveryResponse(airtouch_id=f"a{i}", host=f"10.0.4.{i}", serial="s") for i in range(n4)],
             5: [m5.At5DiscoveryResponse(airtouch_id="b", name="n", serial="s", host="10.0.5.0") for i in range(n5)]}

    async def main(loop, net):
        searched = []
        real = D.AirTouchDiscoverer.search

        async def search(self):
            cfg = self._discovery_config
            gen = 4 if cfg is m4.CONFIG else 5 if cfg is m5.CONFIG else None
            searched.append((gen, self._remote_host))
            await asyncio.sleep(d4 if gen == 4 else d5)
            return list(found.get(gen, []))
        D.AirTouchDiscoverer.search = search
        try:
            try:
                out = await (F._search(host) if host else F._search())
                raised = None
            except KeyboardInterrupt:
                raise
            except BaseException as e:  # noqa: BLE001
                out, raised = None, e
        finally:
            D.AirTouchDiscoverer.search = real
        return raised, searched, out
    raised, searched, out = _loop_run(main)
    h.oblige("_search never raises", raised is None, detail=repr(raised))
    if raised is not None:
        return
    want_host = host if host else "255.255.255.255"
    h.oblige("both generations are searched, each exactly once, with the caller's host (default: broadcast)",
             sorted(searched) == [(4, want_host), (5, want_host)])
    out = list(out)
    h.oblige("the result is exactly what the two searches found",
             len(out) == len(found[4]) + len(found[5]) and all(any(x is y for y in out) for x in found[4] + found[5]))


# ------------------------------------------------------------------------------------------------ frame.send-then-receive
def frame_send_then_receive(h, messages, KINDS):
    import importlib
    import pyairtouch.comms.socket as S
    from replay import vloop
    kind = h.choice("message_kind", KINDS)
    regmod, msg = messages(h, kind)
    reg = importlib.import_module(regmod).INSTANCE
    saved = reg.header_factory._next_packet_id
    reg.header_factory._next_packet_id = h.int("next_packet_id", 0, 255)
    cuts = h.choice("segmentation", ["whole", "bytewise", "two"])

    async def main(loop, net):
        tx = S.AirTouchSocket(loop, "console", 9004, reg)
        tx.is_open = tx.is_connected = True
        wr = vloop.FakeWriter(net, "tx")
        tx._writer, tx._reader = wr, asyncio.StreamReader()
        raised = None
        try:
            await tx.send(msg, S.RETRY_IDEMPOTENT)
        except KeyboardInterrupt:
            raise
        except BaseException as e:  # noqa: BLE001
            raised = e
        frame = bytes(wr.data)
        rx = S.AirTouchSocket(loop, "console", 9004, reg)
        rx.is_open = rx.is_connected = True
        rd = asyncio.StreamReader()
        rx._reader, rx._writer = rd, vloop.FakeWriter(net, "rx")
        parts = [frame] if cuts == "whole" else [frame[i:i + 1] for i in range(len(frame))] if cuts == "bytewise" else [frame[:len(frame) // 2], frame[len(frame) // 2:]]

        async def feed():
            for p in parts:
                rd.feed_data(p)
                await asyncio.sleep(0.01)
        ft = loop.create_task(feed())
        r2, raised2 = None, None
        if raised is None and frame:
            try:
                r2 = await asyncio.wait_for(rx._read_one_message(), 5.0)
            except KeyboardInterrupt:
                raise
            except BaseException as e:  # noqa: BLE001
                raised2 = e
        await ft
        return raised, list(wr.writes), frame, r2, raised2, len(rd._buffer)
    try:
        raised, writes, frame, r2, raised2, left = _loop_run(main)
    finally:
        reg.header_factory._next_packet_id = saved
    h.oblige("send of a valid message succeeds", raised is None, detail=repr(raised))
    h.oblige("exactly one frame (three writes) reaches the wire", len(writes) == 3)
    if len(writes) != 3:
        return
    h.oblige("the receive path accepts the frame (no exception)", raised2 is None, detail=repr(raised2))
    if raised2 is not None:
        return
    h.oblige("...and delivers it (prefix, lengths and check bytes accepted)", r2 is not None)
    if r2 is None:
        return
    hdr, got = r2
    h.oblige("the received message equals the one sent", got == msg)
    h.oblige("the received header carries the message type and the announced payload length",
             hdr.message_id == msg.message_id and hdr.from_address == 0xB0
             and hdr.message_length == len(frame) - (8 if regmod.startswith("pyairtouch.at4") else 20) - 2)
    h.oblige("nothing is left over on the stream", left == 0)


# ------------------------------------------------------------------------------------------------ AirTouch4 / AirTouch5 objects
class RecSock:
    """Recording stand-in for the socket an AirTouch object talks to."""

    def __init__(self, loop, connected=True):
        self.loop = loop
        self.calls, self.sent = [], []
        self.is_connected = connected
        self.host = "host"
        self.at = None

    def _state(self):
        return self.at._state.name if self.at is not None else None

    def subscribe_on_connection_changed(self, cb):
        self.calls.append(("subscribe_on_connection_changed", cb))

    def subscribe_on_message_received(self, cb):
        self.calls.append(("subscribe_on_message_received", cb))

    def unsubscribe_on_connection_changed(self, cb):
        self.calls.append(("unsubscribe_on_connection_changed", cb))

    def unsubcribe_on_message_received(self, cb):
        self.calls.append(("unsubcribe_on_message_received", cb))

    async def open_socket(self):
        self.calls.append(("open_socket", self._state(), self.loop.time()))

    async def close(self):
        self.calls.append(("close", self._state(), self.loop.time()))

    async def reset_connection(self):
        self.calls.append(("reset_connection", self._state(), self.loop.time()))

    fail_next = None   # exception class the next send raises (what the real send may raise by its contract)

    async def send(self, message=None, retry_policy=None):
        self.sent.append((message, retry_policy, self.loop.time(), self.is_connected))
        if self.fail_next is not None:
            exc, self.fail_next = self.fail_next, None
            raise exc()


def real_airtouch(loop, g, GEN, connected=True):
    import importlib
    G = GEN[g]
    api = importlib.import_module(G["api"])
    sock = RecSock(loop, connected)
    at = getattr(api, G["cls"])(loop, "AT-ID", "SERIAL", "Name", sock)
    sock.at = at
    return api, sock, at


def airtouch_init(h, g, GEN):
    done_in_time = h.choice("handshake_completes_within_5s", [True, False])
    after = h.choice("handshake_duration", [0.0, 0.01, 1.0, 4.9]) if done_in_time else None

    async def main(loop, net):
        api, sock, at = real_airtouch(loop, g, GEN)
        if done_in_time:
            loop.call_later(after, at._initialised_event.set)
        t0 = loop.time()
        raised = r = None
        try:
            r = await at.init()
        except KeyboardInterrupt:
            raise
        except BaseException as e:  # noqa: BLE001
            raised = e
        t1 = loop.time()
        flag = at.initialised
        state = at._state.name
        try:
            await at.shutdown()
        except BaseException:  # noqa: BLE001
            pass
        return raised, r, t1 - t0, flag, state, sock.calls
    raised, r, dt, flag, state, calls = _loop_run(main)
    h.oblige("init never raises", raised is None, detail=repr(raised))
    names = [c[0] for c in calls]
    io = names.index("open_socket") if "open_socket" in names else -1
    h.oblige("both socket subscriptions are registered before the socket is opened",
             io >= 0 and "subscribe_on_connection_changed" in names[:io] and "subscribe_on_message_received" in names[:io])
    h.oblige("the state machine is armed (CONNECTING) when the socket is opened", io >= 0 and calls[io][1] == "CONNECTING")
    h.oblige("waits for initialisation for at most 5.0 seconds", dt <= 5.0 + 1e-9 and (done_in_time or abs(dt - 5.0) < 1e-9))
    h.oblige("returns whether the object is initialised", r is done_in_time)
    h.oblige("returns no later than 5 s after the wait started", dt <= 5.0 + 1e-9)
    h.oblige("initialised reads the same flag", flag is done_in_time)


def airtouch_poll_loop(h, GEN):
    """AT4 group-status watchdog on the real object: frames at random gaps, then silence; connection up or down."""
    g = 4
    gaps = [h.choice(f"gap{i}", [0.5, 100.0, 299.0, 301.0, 650.0]) for i in range(h.int("frames", 0, 4))]
    connected = h.bool("connected")
    silence = h.choice("silence", [299.0, 301.0, 650.0, 1000.0])
    refused = h.choice("first_request_refused_with", [None, None, "QueueOverflowError", "NotOpenError"])

    async def main(loop, net):
        import importlib
        api, sock, at = real_airtouch(loop, g, GEN, connected)
        if refused:
            import pyairtouch.comms.socket as S_
            sock.fail_next = getattr(S_, refused)
        T = api._GROUP_STATUS_TIMEOUT
        task = loop.create_task(at._group_status_request_loop())
        arrivals = []
        for gp in gaps:
            await asyncio.sleep(gp)
            at._group_status_received_event.set()
            arrivals.append(loop.time())
        await asyncio.sleep(silence)
        done = task.done()
        exc = task.exception() if done and not task.cancelled() else None
        task.cancel()
        try:
            await task
        except BaseException:  # noqa: BLE001
            pass
        return T, arrivals, [(s[0], s[1], s[2]) for s in sock.sent], done, exc, loop.time()
    T, arrivals, sent, done, exc, t_end = _loop_run(main)
    import pyairtouch.comms.socket as S
    import pyairtouch.at4.comms.x2B_group_status as gs
    h.oblige("group-status timeout is 300 s", T == 300.0)
    h.oblige("the poll task lets no exception out", not done and exc is None)
    # expected request times: every 300 s of silence since the last arrival (or since the start / the last expiry)
    marks = [0.0] + arrivals
    want = []
    for i, m in enumerate(marks):
        nxt = marks[i + 1] if i + 1 < len(marks) else t_end
        t = m + 300.0
        while t < nxt - 1e-9 or (i + 1 == len(marks) and t <= nxt - 1e-9):
            want.append(t)
            t += 300.0
    got = [round(s[2], 6) for s in sent]
    if want:
        if connected:
            h.oblige("on expiry exactly one group-status request is sent, only while connected (RETRY_CONNECTED)",
                     got == [round(w, 6) for w in want] and all(isinstance(s[0], gs.GroupStatusRequest) and s[1] is S.RETRY_CONNECTED for s in sent),
                     detail=f"want {want} got {got}")
        else:
            h.oblige("on expiry exactly one group-status request is sent, only while connected (RETRY_CONNECTED)", sent == [], detail=f"got {got}")
    else:
        h.oblige("without an expired deadline nothing is sent", sent == [], detail=f"got {got}")


def airtouch_dispatch_any(h, g, GEN):
    """_process_*_status_message on the real object: a frame of 0..8 records with random ids (repeats, unknown ids)."""
    G = GEN[g]
    kind = h.choice("kind", ["acstatus", "timer", "zstatus"])
    target_attr = "_zones" if kind == "zstatus" else "_air_conditioners"
    method = {"acstatus": "update_ac_status", "timer": "update_ac_timer_status",
              "zstatus": "update_group_status" if g == 4 else "update_zone_status"}[kind]
    idf = {"acstatus": "ac_number", "timer": "ac_number", "zstatus": "group_number" if g == 4 else "zone_number"}[kind]
    keys = h.choice("known_entities", [[], [0], [0, 2], [1, 3, 15]])
    n = h.int("records", 0, 8)
    ids = [h.choice(f"id{i}", [0, 1, 2, 3, 15, 16, 63]) for i in range(n)]
    pname = {"acstatus": "_process_ac_status_message", "timer": "_process_ac_timer_status_message", "zstatus": G["p_zstatus"]}[kind]

    class Rec:
        def __init__(self, i, ident):
            self.i = i
            setattr(self, idf, ident)

    async def main(loop, net):
        api, sock, at = real_airtouch(loop, g, GEN)
        log = []

        class Ent:
            def __init__(self, key):
                self.key = key

        def mk(key):
            e = Ent(key)

            async def upd(x):
                log.append((key, x))
                await asyncio.sleep(0)
            setattr(e, method, upd)
            return e
        d = getattr(at, target_attr)
        for k in keys:
            d[k] = mk(k)
        recs = [Rec(i, ident) for i, ident in enumerate(ids)]
        raised = None
        try:
            await getattr(at, pname)(recs)
        except KeyboardInterrupt:
            raise
        except BaseException as e:  # noqa: BLE001
            raised = e
        return raised, log, recs
    raised, log, recs = _loop_run(main)
    h.oblige("dispatch never raises", raised is None, detail=repr(raised))
    if not recs:
        h.oblige("nothing is applied outside the loop over the records", log == [])
        return
    want = [(getattr(r, idf), r) for r in recs if getattr(r, idf) in keys]
    in_order = len(log) == len(want) and all(a[0] == b[0] and a[1] is b[1] for a, b in zip(log, want))
    if want:
        h.oblige("a record whose id names a known entity is applied to exactly that entity, once, as it is", in_order,
                 detail=f"ids {[getattr(r, idf) for r in recs]} known {keys} applied {[(k, x.i) for k, x in log]}")
    if len(want) < len(recs):
        h.oblige("a record with an unknown id is skipped (and does not stop the frame)", in_order,
                 detail=f"ids {[getattr(r, idf) for r in recs]} known {keys} applied {[(k, x.i) for k, x in log]}")
