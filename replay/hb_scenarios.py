"""Native schedules for the heartbeat manager on the virtual-time loop (real code, CPython)."""
from __future__ import annotations

import asyncio

from replay import vloop


class _FakeSocket:
    def __init__(self):
        self.is_connected = True
        self.resets = []
        self.sent = []
        self.subs = set()

    def subscribe_on_message_received(self, cb):
        self.subs.add(cb)

    def unsubcribe_on_message_received(self, cb):
        self.subs.discard(cb)

    fail_next = None   # exception class the next send raises (what the real send may raise by its contract)

    async def send(self, message, retry_policy):
        self.sent.append((asyncio.get_event_loop().time(), message, retry_policy))
        if self.fail_next is not None:
            exc, self.fail_next = self.fail_next, None
            raise exc()

    async def reset_connection(self):
        self.resets.append(asyncio.get_event_loop().time())

    async def deliver(self, message):
        for cb in list(self.subs):
            await cb(None, message)


def _run(script, total):
    """script: list of times at which a matching response is delivered."""
    import pyairtouch.comms.heartbeat as HB
    out = {}

    async def main(loop, net):
        sock = _FakeSocket()
        cfg = HB.HeartbeatConfig(message="HB", response_match=lambda m: m == "RESP")
        mgr = HB.HeartbeatManager(loop, sock, cfg)
        await mgr.start()
        t = 0.0
        for at in script:
            await asyncio.sleep(at - t)
            t = at
            await sock.deliver("RESP")
        await asyncio.sleep(total - t)
        await mgr.stop()
        out["resets"] = sock.resets
        out["sent"] = [x[0] for x in sock.sent]

    vloop.run(main)
    return out


def run_library(h):
    silent = _run([], 2000.0)
    h.oblige("the deadline is armed when monitoring starts (and again after every expiry): when == now + timeout",
             len(silent["resets"]) >= 5 and abs(silent["resets"][0] - 330.0) < 1e-6 and abs(silent["resets"][1] - 660.0) < 1e-6,
             detail=f"2000 s of silence from the start: resets at {silent['resets']}")
    late = _run([100.0], 1000.0)
    h.oblige("a response pushes the deadline to exactly (time of the response + timeout)",
             late["resets"][:1] == [430.0] if late["resets"] else False, detail=f"response at 100 s then silence: resets at {late['resets']}")
    healthy = _run([300.0 * k + 5.0 for k in range(1, 10)], 2990.0)
    h.oblige("without an expired deadline the heartbeat never resets the connection", healthy["resets"] == [],
             detail=f"every heartbeat answered after 5 s: resets at {healthy['resets']}")
