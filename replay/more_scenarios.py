"""More native schedules (real package on the virtual-time loop): the native reading of the socket / heartbeat
obligation sets that have no input to replay (a coroutine counter-model is a state, not a schedule).
Each function returns {obligation name: held?}; names are those of the contracts in contracts/sock_conn.py and
contracts/heartbeat.py, so a refuted obligation is re-evaluated on the real code under a concrete schedule.
Used only to replay; never to decide a property.
"""
from __future__ import annotations

import asyncio
import errno

from replay import vloop


def _at4():
    import pyairtouch.at4.comms.registry as reg
    import pyairtouch.at4.comms.x2D_ac_status as acs
    import pyairtouch.at4.comms.x2B_group_status as gs
    return reg.INSTANCE, acs, gs


def _frame(R, m, packet_id=None):
    enc = R.get_encoder(m.message_id)
    hdr = R.header_factory.create_from_message(m, enc.size(m))
    hb = R.header_encoder.encode(hdr)
    pb = bytes(enc.encode(hdr, m))
    return hdr, hb.header_bytes, pb, bytes(R.checksum_calculator.calculate(hb.checksum_data + pb))


def _sock(loop, R):
    import pyairtouch.comms.socket as S
    return S, S.AirTouchSocket(loop, "console", 9004, R)


# ------------------------------------------------------------------------------------------------ close

def close_scenarios():
    R, acs, gs = _at4()
    out = {}

    async def never_connected(loop, net):
        S, sock = _sock(loop, R)
        net.default = ("refuse", 0.0)
        await sock.open_socket()
        await asyncio.sleep(0.5)        # first attempt refused, back-off running
        raised = None
        try:
            await sock.close()
        except KeyboardInterrupt:
            raise
        except BaseException as e:  # noqa: BLE001
            raised = e
        open_after = sock.is_open
        n0 = net.attempts
        await asyncio.sleep(30.0)
        held = None
        try:
            await sock.send(acs.AcStatusRequest(), S.RETRY_IDEMPOTENT)
            held = len(sock._message_queue)
        except S.NotOpenError:
            held = "NotOpenError"
        return raised, open_after, net.attempts - n0, held

    (raised, open_after, later_attempts, held), net, _ = vloop.run(never_connected)
    out["close lets no exception out"] = raised is None
    out["afterwards the socket is not open"] = open_after is False
    out["close schedules nothing"] = later_attempts == 0
    out["sending on a socket that is not open raises NotOpenError"] = held == "NotOpenError"
    out["nothing is held"] = held == "NotOpenError"

    async def connected(loop, net):
        S, sock = _sock(loop, R)
        await sock.open_socket()
        await asyncio.sleep(0.1)
        was = sock.is_connected
        await sock.close()
        return was, sock.is_open, sock.is_connected, net.open_unclosed()

    (was, is_open, is_conn, unclosed), net, _ = vloop.run(connected)
    out["an open socket is disconnected by close"] = was and not is_conn and unclosed == []
    out["afterwards the socket is not open"] = out["afterwards the socket is not open"] and is_open is False

    # close() while a connection attempt is in flight and the disconnect is held up (a slow subscriber, wait_closed)
    ok = True
    for latency, sub_delay, already in ((0.1, 0.5, False), (0.3, 1.0, False), (0.1, 0.5, True)):
        async def racing(loop, net, latency=latency, sub_delay=sub_delay, already=already):
            S, sock = _sock(loop, R)
            notes = []

            async def sub(*, connected):
                notes.append((loop.time(), connected))
                if not connected:
                    await asyncio.sleep(sub_delay)
            sock.subscribe_on_connection_changed(sub)
            if already:
                # connected; the peer resets while close() is disconnecting: the read loop asks for a reconnect
                await sock.open_socket()
                await asyncio.sleep(0.1)
                net.default = ("accept", latency)
                rd = sock._reader
                t = loop.create_task(sock.close())
                await asyncio.sleep(0)
                if rd is not None:
                    rd.set_exception(ConnectionResetError("peer reset"))
                t_call = loop.time()
                await t
            else:
                net.default = ("accept", latency)
                await sock.open_socket()
                await asyncio.sleep(latency / 2)
                t_call = loop.time()
                await sock.close()
            await asyncio.sleep(60.0)
            return t_call, sock.is_open, sock.is_connected, net.open_unclosed(), [n for n in notes if n[1] and n[0] >= t_call]
        try:
            (t_call, is_open, is_conn, unclosed, late_connected), net, _ = vloop.run(racing)
            ok = ok and is_open is False and is_conn is False and unclosed == [] and late_connected == []
        except KeyboardInterrupt:
            raise
        except BaseException:  # noqa: BLE001
            ok = False
    out["the socket is marked not open before close first suspends (a connection attempt that completes during "
        "the disconnect is dropped, not adopted)"] = ok
    return out


# ------------------------------------------------------------------------------------------------ _write / _disconnect / reset

def write_scenarios():
    """A frame goes to the writer as three back-to-back writes in one atomic segment, or not at all."""
    R, acs, gs = _at4()
    out = {}

    async def main(loop, net):
        S, sock = _sock(loop, R)
        await sock.open_socket()
        await asyncio.sleep(0.1)
        w = sock._writer
        gate = asyncio.Event()
        w.drain_gate = gate                  # every drain() parks until released: suspension points become visible
        m1, m2 = acs.AcStatusRequest(), gs.GroupStatusRequest()
        t1 = loop.create_task(sock.send(m1, S.RETRY_IDEMPOTENT))
        await asyncio.sleep(0)
        await asyncio.sleep(0)
        t2 = loop.create_task(sock.send(m2, S.RETRY_IDEMPOTENT))
        await asyncio.sleep(0.01)
        gate.set()
        await asyncio.sleep(0.1)
        writes = list(w.writes)
        # an unencodable message: nothing of it may reach the writer
        import pyairtouch.at4.comms.x2A_group_ctrl as gc
        bad = gc.GroupControlMessage(group_number=1, power=gc.GroupPowerControl.UNCHANGED,
                                     control_method=gc.GroupControlMethod.TEMPERATURE, setting=gc.GroupSetPointControl(set_point=1000))
        n0 = len(w.writes)
        try:
            await sock.send(bad, S.RETRY_IDEMPOTENT)
        except KeyboardInterrupt:
            raise
        except BaseException:  # noqa: BLE001
            pass
        await asyncio.sleep(0.1)
        partial = list(w.writes[n0:])
        await sock.close()
        return writes, partial, (m1, m2)

    (writes, partial, (m1, m2)), net, _ = vloop.run(main)
    stream = b"".join(writes)
    # reference framing with fresh packet ids 0, 1 (a fresh registry counter may differ: compare modulo the id byte)
    def parts_of(m):
        _, hb, pb, crc = _frame(R, m)
        return hb, pb, crc
    ok_split = len(writes) == 6
    ok_order = False
    if ok_split:
        f1, f2 = writes[:3], writes[3:]
        ok_order = (f1[1] == parts_of(m1)[1] and f2[1] == parts_of(m2)[1] and len(f1[0]) == 8 and len(f2[0]) == 8
                    and len(f1[2]) == 2 and len(f2[2]) == 2)
    out["no suspension between the three writes (frames never interleave)"] = ok_split and ok_order
    out["no suspension between the start of _write and the first write"] = ok_split and ok_order
    out["a frame is written completely or not at all"] = partial == [] and len(stream) == sum(len(x) for x in writes)
    return out


def disconnect_reset_scenarios():
    R, acs, gs = _at4()
    out = {}

    async def main(loop, net):
        S, sock = _sock(loop, R)
        seen = []

        async def on_conn(connected):
            seen.append((connected, sock.is_connected, sock._reader is None, sock._writer is None))
        sock.subscribe_on_connection_changed(on_conn)
        await sock.open_socket()
        await asyncio.sleep(0.1)
        first = net.opened[-1]
        # wait_closed that really yields (as a real StreamWriter does)
        w = net.writers[first]

        async def slow_wait_closed():
            await asyncio.sleep(0.05)
        w.wait_closed = slow_wait_closed
        probe = []

        async def observer():
            # runs while _disconnect is suspended in wait_closed
            await asyncio.sleep(0.01)
            probe.append((sock.is_connected, sock._reader is None, sock._writer is None))
        loop.create_task(observer())
        await sock.reset_connection()
        await asyncio.sleep(5.0)
        state = (sock.is_connected, len(net.opened), net.open_unclosed())
        before_close = list(seen)   # what the reset alone produced (close() below disconnects once more)
        await sock.close()
        return before_close, probe, state, first

    (seen, probe, state, first), net, _ = vloop.run(main)
    out["J1 holds at every suspension point: is_connected <=> a reader and a writer are present"] = all(
        c == (not r) == (not w) for c, r, w in probe) and bool(probe)
    out["the connect attempt is scheduled after the disconnect completed"] = state[0] is True and state[1] == 2
    out["then schedules exactly one immediate connect attempt"] = state[1] == 2
    out["the connection held at entry is closed before anything else can run"] = first not in state[2]
    out["subscribers are told connected=False exactly once"] = [s[0] for s in seen].count(False) == 1
    return out


# ------------------------------------------------------------------------------------------------ _connect

def connect_error_scenarios():
    """Connect failures that are OSError but not ConnectionError (no route to host, timeout, name resolution)."""
    import socket as pysocket
    R, acs, gs = _at4()
    out = {}
    errors = [OSError(errno.EHOSTUNREACH, "No route to host"), TimeoutError("timed out"), pysocket.gaierror(-2, "Name or service not known"),
              ConnectionRefusedError("refused")]
    all_ok = True
    detail = []
    for err in errors:
        async def main(loop, net, err=err):
            S, sock = _sock(loop, R)
            orig = net.open_connection
            state = {"n": 0}

            async def flaky(host=None, port=None, **kw):
                state["n"] += 1
                if state["n"] == 1:
                    net.attempts += 1
                    await asyncio.sleep(0)
                    raise err
                return await orig(host, port, **kw)
            asyncio.open_connection = flaky
            unhandled = []
            loop.set_exception_handler(lambda l, ctx: unhandled.append(ctx.get("exception")))
            await sock.open_socket()
            await asyncio.sleep(10.0)
            r = (sock.is_connected, state["n"], unhandled)
            await sock.close()
            return r
        (connected, attempts, unhandled), net, _ = vloop.run(main)
        ok = connected and attempts == 2 and not unhandled
        detail.append((type(err).__name__, connected, attempts, len(unhandled)))
        all_ok = all_ok and ok
    out["_connect lets no exception out"] = all_ok
    out["a failed attempt is retried after the 2.0 s back-off and nothing else is scheduled"] = all_ok
    return out, detail


# ------------------------------------------------------------------------------------------------ _read

def read_failure_scenarios():
    """CRC-valid frames whose decoder raises (IndexError, ValueError, struct.error, UnicodeDecodeError), bad CRC, EOF."""
    import pyairtouch.at4.comms.hdr as hdr4
    R, acs, gs = _at4()
    calc = R.checksum_calculator

    def raw(message_id, payload, to=0xB0, frm=0x80):
        h = hdr4.At4Header(to_address=to, from_address=frm, packet_id=1, message_id=message_id, message_length=len(payload))
        hb = R.header_encoder.encode(h)
        return hb.header_bytes + payload + bytes(calc.calculate(hb.checksum_data + payload))

    good_m = acs.AcStatusRequest()
    _, hb, pb, crc = _frame(R, good_m)
    good = hb + pb + crc
    bad_frames = {
        "IndexError (console version cut after the flag)": raw(0x1F, b"\xff\x30\x01"),
        "IndexError (error info without AC number)": raw(0x1F, b"\xff\x10"),
        "ValueError (undefined enum value)": raw(0x2D, bytes([0xC0, 0xF0, 0x00, 0x00, 0x00, 0x00, 0x00, 0x00])),
        "UnicodeDecodeError (name not UTF-8)": raw(0x1F, b"\xff\x12" + bytes([1]) + b"\xff\xfe\xfd\x00\x00\x00\x00\x00"),
        "bad CRC": good[:-1] + bytes([good[-1] ^ 0x40]),
    }
    out, detail = {}, []
    ok_noexc = ok_reset = ok_nodeliver = True
    for label, frame in bad_frames.items():
        async def main(loop, net, frame=frame):
            S, sock = _sock(loop, R)
            got = []

            async def on_msg(h, m):
                got.append(m)
            sock.subscribe_on_message_received(on_msg)
            unhandled = []
            loop.set_exception_handler(lambda l, ctx: unhandled.append(ctx.get("exception") or ctx.get("message")))
            await sock.open_socket()
            await asyncio.sleep(0.1)
            net.readers[net.opened[-1]].feed_data(frame)
            await asyncio.sleep(5.0)     # reset + 0 s reconnect
            n_after_bad = len(got)
            conns = len(net.opened)
            if sock.is_connected:
                net.readers[net.opened[-1]].feed_data(good)
            await asyncio.sleep(1.0)
            r = (n_after_bad, conns, sock.is_connected, got[-1:] == [good_m], unhandled, net.open_unclosed())
            await sock.close()
            return r
        (n_bad, conns, connected, recovered, unhandled, unclosed), net, _ = vloop.run(main)
        detail.append((label, n_bad, conns, connected, recovered, len(unhandled)))
        ok_noexc = ok_noexc and not unhandled and recovered
        ok_reset = ok_reset and conns == 2 and len(unclosed) == 1
        ok_nodeliver = ok_nodeliver and n_bad == 0
    out["the read task lets no exception out"] = ok_noexc
    out["the failure is followed by exactly one connection reset"] = ok_reset
    out["nothing is delivered from a failed frame"] = ok_nodeliver
    return out, detail


def read_delivery_order_scenario():
    """Two frames in one segment and a slow subscriber: deliveries must not overlap nor reorder."""
    R, acs, gs = _at4()
    m1, m2 = acs.AcStatusRequest(), gs.GroupStatusRequest()
    stream = b"".join(b"".join(_frame(R, m)[1:]) for m in (m1, m2))
    log = []

    async def main(loop, net):
        S, sock = _sock(loop, R)

        async def slow(h, m):
            log.append(("start", type(m).__name__))
            await asyncio.sleep(0.2 if len(log) == 1 else 0.0)
            log.append(("end", type(m).__name__))
        sock.subscribe_on_message_received(slow)
        await sock.open_socket()
        await asyncio.sleep(0.1)
        net.readers[net.opened[-1]].feed_data(stream)
        await asyncio.sleep(2.0)
        await sock.close()

    vloop.run(main)
    seq = [x for x in log]
    want = [("start", "AcStatusRequest"), ("end", "AcStatusRequest"), ("start", "GroupStatusRequest"), ("end", "GroupStatusRequest")]
    return {"a frame that was read is delivered before the next one is read: the notification is awaited in the loop, exactly once": seq == want,
            "...and not handed to a background task (deliveries would overlap and depend on segmentation)": seq == want}, seq


# ------------------------------------------------------------------------------------------------ heartbeat

def heartbeat_scenarios():
    import pyairtouch.comms.heartbeat as HB
    import pyairtouch.comms.socket as S
    from replay.hb_scenarios import _FakeSocket
    out = {}

    async def main(loop, net):
        sock = _FakeSocket()
        cfg = HB.HeartbeatConfig(message="HB", response_match=lambda m: m == "RESP")
        mgr = HB.HeartbeatManager(loop, sock, cfg)
        # session 1: down at a tick, up again later
        await mgr.start()
        await asyncio.sleep(10.0)
        sock.is_connected = False
        await asyncio.sleep(600.0)           # two ticks while down
        sent_down = len([t for t, *_ in sock.sent if t > 10.0])
        sock.is_connected = True
        await asyncio.sleep(600.0)
        sent_up_again = len([t for t, *_ in sock.sent if t > 610.0])
        raised = None
        try:
            await mgr.stop()
            await mgr.stop()
        except KeyboardInterrupt:
            raise
        except BaseException as e:  # noqa: BLE001
            raised = e
        forgot = len(mgr._heartbeat_tasks) == 0 and len(sock.subs) == 0
        # session 2 on the same object
        n0, t0 = len(sock.sent), loop.time()
        turned = []
        loop.call_soon(turned.append, 1)     # runs as soon as the current task lets the loop take a turn
        await mgr.start()
        start_atomic = turned == []
        await mgr.start()
        started_again = len(mgr._heartbeat_tasks) == 2 and len(sock.subs) == 1
        await asyncio.sleep(700.0)
        sent2 = len(sock.sent) - n0
        resets2 = [t - t0 for t in sock.resets if t > t0]
        await mgr.stop()
        policies = [p for _, _, p in sock.sent]
        gaps = [b - a for a, b in zip([t for t, *_ in sock.sent if t > 610.0 and t < 1210.0], [t for t, *_ in sock.sent if t > 610.0 and t < 1210.0][1:])]
        return sent_down, sent_up_again, raised, forgot, started_again, sent2, resets2, policies, gaps, start_atomic

    (sent_down, sent_up_again, raised, forgot, started_again, sent2, resets2, policies, gaps, start_atomic), net, _ = vloop.run(main)
    out["start completes without suspending (the last handshake step relies on it: it creates the AT4 poll task and marks the "
        "object initialised right after awaiting start, with no look at what happened meanwhile)"] = start_atomic
    # a tick whose send is refused (the queue still holds ten messages buffered during an outage / the socket was closed)
    survived = True
    for exc_name in ("QueueOverflowError", "NotOpenError"):
        async def refused(loop, net, exc_name=exc_name):
            sock = _FakeSocket()
            mgr = HB.HeartbeatManager(loop, sock, HB.HeartbeatConfig(message="HB", response_match=lambda m: m == "RESP"))
            await mgr.start()
            await asyncio.sleep(10.0)
            sock.fail_next = getattr(S, exc_name)      # the tick at t = 300 is refused
            await asyncio.sleep(1000.0)
            alive = not mgr._heartbeat_tasks[0].done()
            ticks = [round(t, 6) for t, *_ in sock.sent]
            await mgr.stop()
            return alive, ticks
        (alive, ticks), _, _ = vloop.run(refused)
        survived = survived and alive and ticks[:4] == [0.0, 300.0, 600.0, 900.0]
    out["while not connected no heartbeat is sent"] = sent_down == 0
    out["the heartbeat loop runs until cancelled, whatever the connection state (its loop test is constantly true)"] = sent_up_again >= 1
    out["a heartbeat cycle always ends back at the loop head (nothing but cancellation ends the heartbeat task)"] = sent_up_again >= 1 and survived
    out["while connected exactly one heartbeat is sent per cycle: the configured message with RETRY_CONNECTED"] = bool(policies) and all(p is S.RETRY_CONNECTED for p in policies)
    out["each cycle sleeps exactly the configured interval"] = all(abs(g - 300.0) < 1e-6 for g in gaps)
    out["stop raises nothing"] = raised is None
    out["a second stop has no effect"] = raised is None
    out["stop forgets the tasks and unsubscribes"] = forgot
    out["start creates the heartbeat task and the timeout task"] = started_again and sent2 >= 2 and resets2[:1] == [330.0]
    out["a second start has no effect"] = started_again
    return out


def heartbeat_timeout_more():
    """Second silent period after a reset; response delay close to the timeout."""
    from replay.hb_scenarios import _run
    out = {}
    r = _run([400.0, 700.0], 2400.0)    # silence -> reset at 330; answers at 400, 700; then silence again
    exp = [330.0, 1030.0, 1360.0]
    out["a monitoring cycle always ends back at the loop head: expiry is handled inside the loop, nothing "
        "(no exception, break or return) ends the monitoring task except cancellation"] = r["resets"][:3] == exp
    # a configuration whose timeout is not interval + 30 s: the deadline must follow the configured timeout
    import pyairtouch.comms.heartbeat as HB
    from replay.hb_scenarios import _FakeSocket
    res = {}

    async def main(loop, net):
        sock = _FakeSocket()
        cfg = HB.HeartbeatConfig(message="HB", response_match=lambda m: m == "RESP", interval=10.0, timeout=100.0)
        mgr = HB.HeartbeatManager(loop, sock, cfg)
        await mgr.start()
        await asyncio.sleep(50.0)
        await sock.deliver("RESP")
        await asyncio.sleep(400.0)
        await mgr.stop()
        res["resets"] = list(sock.resets)
    vloop.run(main)
    out["a response pushes the deadline to exactly (time of the response + timeout)"] = r["resets"][:2] == exp[:2] and res["resets"][:2] == [150.0, 250.0]
    return out, (r["resets"], res["resets"])


def stale_read_loop_scenarios():
    """A read loop that is suspended (slow subscriber) while its connection is replaced - by a reset from elsewhere, or by
    close() + open_socket() of a client that is shut down and initialised again - and then resumes."""
    R, acs, gs = _at4()
    _, hb, pb, crc = _frame(R, acs.AcStatusRequest())
    good = hb + pb + crc
    out = {}
    own = own_reset = True
    for how in ("reset", "close-reopen"):
        async def main(loop, net, how=how):
            S, sock = _sock(loop, R)
            got = []

            async def on_msg(h, m):
                got.append(loop.time())
                if len(got) == 1:
                    await asyncio.sleep(0.3)       # a slow subscriber: the read loop is suspended in the delivery
            sock.subscribe_on_message_received(on_msg)
            unhandled = []
            loop.set_exception_handler(lambda l, ctx: unhandled.append(ctx.get("exception") or ctx.get("message")))
            await sock.open_socket()
            await asyncio.sleep(0.1)
            net.readers[net.opened[-1]].feed_data(good)
            await asyncio.sleep(0.05)              # the first frame is being delivered
            if how == "reset":
                await sock.reset_connection()       # e.g. the heartbeat timeout, or a failed write of another task
            else:
                await sock.close()
                await sock.open_socket()
            await asyncio.sleep(0.1)               # the next connection is in place, with its own read loop
            n_conn = len(net.opened)
            await asyncio.sleep(1.0)               # the old loop has resumed by now
            if sock.is_connected:
                net.readers[net.opened[-1]].feed_data(good)
            await asyncio.sleep(5.0)
            r = (n_conn, len(net.opened), sock.is_connected, len(got), unhandled)
            await sock.close()
            return r
        try:
            (n_conn, n_conn_later, connected, n_got, unhandled), net, _ = vloop.run(main)
            # nothing disturbs the second connection, its frame is delivered exactly once
            own = own and n_conn == 2 and n_conn_later == 2 and connected and n_got == 2 and not unhandled
        except KeyboardInterrupt:
            raise
        except BaseException:  # noqa: BLE001
            own = False
    out["a read loop never reads from a connection it was not started for (the socket's reader was replaced while the loop was suspended)"] = own

    # the old connection ends (EOF / transport error reported late) after the next one is in place
    for exc in (None, ConnectionResetError("late"), RuntimeError("late")):
        async def late(loop, net, exc=exc):
            S, sock = _sock(loop, R)
            sock.is_open = sock.is_connected = True
            r0 = asyncio.StreamReader()
            sock._reader, sock._writer = r0, vloop.FakeWriter(net, "old")
            resets = []

            async def reset():
                resets.append(loop.time())
            sock.reset_connection = reset
            t = loop.create_task(sock._read())
            await asyncio.sleep(0.1)
            sock._reader, sock._writer = asyncio.StreamReader(), vloop.FakeWriter(net, "new")    # replaced meanwhile
            if exc is None:
                r0.feed_eof()
            else:
                r0.set_exception(exc)
            await asyncio.sleep(1.0)
            done = t.done()
            t.cancel()
            return resets, done
        try:
            (resets, done), _, _ = vloop.run(late)
            own_reset = own_reset and resets == [] and done
        except KeyboardInterrupt:
            raise
        except BaseException:  # noqa: BLE001
            own_reset = False
    out["a read loop whose connection was replaced meanwhile does not reset the connection that replaced it"] = own_reset
    return out


def oblige_from(h, fns, names=None, prefix=""):
    """Native reading of an obligation set: run the schedules and state the obligations (of `names`, if given) they evaluate."""
    for fn in fns:
        try:
            r = fn()
        except KeyboardInterrupt:
            raise   # the wall-clock watchdog of the native reading (pyvc.replay.NativeTimeout)
        except BaseException as e:  # noqa: BLE001
            h.oblige(f"schedule {fn.__name__} runs", False, detail=f"{type(e).__name__}: {e}")
            continue
        res, detail = r if isinstance(r, tuple) else (r, None)
        for name, held in res.items():
            if names is None or name in names:
                h.oblige(prefix + name, bool(held), detail=f"schedule {fn.__name__}" + (f": {detail!r}"[:400] if detail is not None and not held else ""))


# ------------------------------------------------------------------------------------------------ discovery

def discovery_search_scenarios():
    """The real AirTouchDiscoverer.search on the virtual-time loop with a fake datagram transport: every arrival
    pattern over the three intervals, both generations, a second search on the same object."""
    import pyairtouch.comms.discovery as D
    import pyairtouch.at4.comms.discovery as d4
    import pyairtouch.at5.comms.discovery as d5
    out = {k: True for k in (
        "search always returns (never raises)",
        "one request per interval until the first interval in which a console answered, at most three",
        "every request is followed by a 0.5 s wait",
        "each request is the generation's fixed request string",
        "...sent to the broadcast address (or the given host) on the discovery port",
        "the socket is closed exactly once",
        "the result lists each answering console once",
        "a second search with the same discoverer sends its requests again and reports only what answers now")}
    detail = []
    for g, mod, req, port in ((4, d4, b"HF-A11ASSISTHREAD", 49004), (5, d5, b"::REQUEST-POLYAIRE-AIRTOUCH-DEVICE-INFO:;", 49005)):
        def resp(i, g=g, mod=mod):
            if g == 4:
                return mod.At4DiscoveryResponse(airtouch_id=f"id{i}", host=f"10.0.0.{i}", serial="S")
            return mod.At5DiscoveryResponse(airtouch_id=f"id{i}", host=f"10.0.0.{i}", serial="S", name="n, x")
        for unicast in (False, True):
            for first in (None, 0, 1, 2):
                for n_answers in ((0,) if first is None else (1, 2)):
                    async def main(loop, net, first=first, n_answers=n_answers, unicast=unicast, mod=mod, resp=resp):
                        disc = D.AirTouchDiscoverer(mod.CONFIG, **({"remote_host": "192.168.1.9"} if unicast else {}))
                        sent, closed, box = [], [0], {}

                        class T:
                            def sendto(self, data, addr=None):
                                sent.append((loop.time(), bytes(data), addr))

                            def close(self):
                                closed[0] += 1

                        async def fake_open(responses):
                            box["set"] = responses
                            await asyncio.sleep(0)
                            return T()
                        disc._open_socket = fake_open
                        t0 = loop.time()
                        if first is not None:
                            for i in range(n_answers):
                                loop.call_later(0.5 * first + 0.1 + 0.05 * i, lambda i=i: box["set"].add(resp(i)))
                                loop.call_later(0.5 * first + 0.3, lambda i=i: box["set"].add(resp(i)))   # duplicate datagram
                        try:
                            r = await disc.search()
                            err = None
                        except BaseException as e:  # noqa: BLE001
                            r, err = None, e
                        first_run = (r, err, list(sent), closed[0], loop.time() - t0)
                        # second search with the same object: nobody answers now
                        n0, c0 = len(sent), closed[0]
                        try:
                            r2 = await disc.search()
                            err2 = None
                        except BaseException as e:  # noqa: BLE001
                            r2, err2 = None, e
                        return first_run, (r2, err2, sent[n0:], closed[0] - c0)
                    (run1, run2), net, _ = vloop.run(main)
                    r, err, sent, closed, elapsed = run1
                    want = 3 if first is None else first + 1
                    addr = ("192.168.1.9" if unicast else "255.255.255.255", port)
                    checks = {
                        "search always returns (never raises)": err is None,
                        "one request per interval until the first interval in which a console answered, at most three": len(sent) == want,
                        "every request is followed by a 0.5 s wait": abs(elapsed - 0.5 * want) < 1e-6 and all(
                            abs((b[0] - a[0]) - 0.5) < 1e-6 for a, b in zip(sent, sent[1:])),
                        "each request is the generation's fixed request string": all(s[1] == req for s in sent),
                        "...sent to the broadcast address (or the given host) on the discovery port": all(s[2] == addr for s in sent),
                        "the socket is closed exactly once": closed == 1,
                        "the result lists each answering console once": err is None and len(r) == n_answers,
                        "a second search with the same discoverer sends its requests again and reports only what answers now":
                            run2[1] is None and len(run2[2]) == 3 and run2[0] == [] and run2[3] == 1,
                    }
                    for k, v in checks.items():
                        if not v:
                            out[k] = False
                            detail.append((g, unicast, first, n_answers, k[:40]))
    return out, detail[:6]


# ------------------------------------------------------------------------------------------------ drain (targeted)

def drain_scenarios():
    """Deterministic schedules for the drain obligations: two sends in flight under back-pressure, an entry that
    expires while an earlier write is parked, an entry expiring exactly at the instant of the write, repeated write
    faults on one idempotent message, a write fault on a message without retries."""
    import pyairtouch.at4.comms.x2A_group_ctrl as gc
    R, acs, gs = _at4()
    out = {}

    def msg(k):
        return gc.GroupControlMessage(group_number=k % 16, power=gc.GroupPowerControl.UNCHANGED,
                                      control_method=gc.GroupControlMethod.UNCHANGED, setting=gc.GroupDamperControl(open_percentage=k // 16))

    def tickets(net):
        from replay.history_fuzz import parse_frames
        seq = []
        for name in net.opened:
            w = net.writers[name]
            frames, clean = parse_frames(R, bytes(w.data))
            offs, acc = [], 0
            for b, t in zip(w.writes, w.write_times):
                offs.append((acc, t))
                acc += len(b)
            for pos, hdr, m in frames:
                seq.append((max(tt for o, tt in offs if o <= pos), m.group_number + 16 * m.setting.open_percentage, name))
        return seq

    # (a) two sends in flight while drain() is parked: each frame once, in order
    async def two_in_flight(loop, net):
        S, sock = _sock(loop, R)
        await sock.open_socket()
        await asyncio.sleep(0.1)
        gate = asyncio.Event()
        sock._writer.drain_gate = gate
        errs = []
        ts = [loop.create_task(sock.send(msg(k), S.RETRY_IDEMPOTENT)) for k in (1, 2, 3)]
        await asyncio.sleep(0.05)
        gate.set()
        await asyncio.sleep(0.5)
        for t in ts:
            if t.done() and t.exception() is not None:
                errs.append(type(t.exception()).__name__)
        await sock.close()
        return errs
    errs, net, _ = vloop.run(two_in_flight)
    seq = [k for _, k, _ in tickets(net)]
    out["the entry is taken off the queue before its write can suspend (a concurrent drain cannot transmit it a second time)"] = seq == [1, 2, 3] and not errs

    # (b) an entry expires while an earlier write is parked / exactly at the write instant
    async def expiry(loop, net):
        S, sock = _sock(loop, R)
        net.default = ("accept", 1.0)              # the connection completes exactly 1.0 s after open
        await sock.open_socket()
        await asyncio.sleep(0)
        t0 = loop.time()
        await sock.send(msg(10), S.RETRY_IDEMPOTENT)          # 30 s
        await sock.send(msg(11), S.RETRY_CONNECTED)           # expires at t0 + 1.0: the instant the connection is there
        await asyncio.sleep(2.0)
        # now park a write for 2 s with a 1 s message behind it
        gate = asyncio.Event()
        sock._writer.drain_gate = gate
        a = loop.create_task(sock.send(msg(12), S.RETRY_IDEMPOTENT))
        await asyncio.sleep(0.01)
        b = loop.create_task(sock.send(msg(13), S.RETRY_CONNECTED))   # queued behind the parked write? no: its own drain
        await asyncio.sleep(2.0)
        gate.set()
        await asyncio.sleep(0.5)
        await sock.close()
        return t0
    t0, net, _ = vloop.run(expiry)
    seq = tickets(net)
    out["an entry whose lifetime has elapsed is never written"] = 11 not in [k for _, k, _ in seq]
    out["an unexpired head entry is written"] = 10 in [k for _, k, _ in seq] and 12 in [k for _, k, _ in seq]

    # (b2) queued behind a parked write while connecting: the later entry is tested against the time of *its* write
    async def stale_clock(loop, net):
        S, sock = _sock(loop, R)
        net.default = ("accept", 0.5)
        orig = net.open_connection

        async def gated(host=None, port=None, **kw):
            rd, wr = await orig(host, port, **kw)
            wr.drain_gate = asyncio.Event()             # the first write of the connect-time drain parks for 2 s
            loop.call_later(2.0, wr.drain_gate.set)
            return rd, wr
        asyncio.open_connection = gated
        await sock.open_socket()
        await asyncio.sleep(0)
        await sock.send(msg(20), S.RETRY_IDEMPOTENT)
        await sock.send(msg(21), S.RETRY_CONNECTED)           # 1 s: expired by the time the parked write returns (2.5 s)
        await asyncio.sleep(6.0)
        await sock.close()
    _, net, _ = vloop.run(stale_clock)
    out["an entry whose lifetime has elapsed is never written"] = out["an entry whose lifetime has elapsed is never written"] and 21 not in [k for _, k, _ in tickets(net)]

    # (c) repeated write faults on one idempotent message; a write fault on a message without retries
    async def faults(loop, net):
        S, sock = _sock(loop, R)
        orig = net.open_connection
        n = {"c": 0}

        async def failing(host=None, port=None, **kw):
            rd, wr = await orig(host, port, **kw)
            n["c"] += 1
            if n["c"] <= 5:
                wr.fail_drain_after = 1               # the first write on each of the first five connections meets a dead link
            return rd, wr
        asyncio.open_connection = failing
        await sock.open_socket()
        await asyncio.sleep(0.1)
        await sock.send(msg(30), S.RETRY_IDEMPOTENT)
        await asyncio.sleep(10.0)
        resets_before = len(net.opened)
        await sock.close()
        return resets_before
    _, net, _ = vloop.run(faults)
    c30 = [k for _, k, _ in tickets(net)].count(30)
    out["re-queued entry: same header, message and expiry, one retry less"] = c30 == 3
    out["no retries left: the entry is dropped, not re-queued"] = c30 == 3
    out["a failed entry with retries left is put back at the head of the queue"] = c30 >= 2

    async def fault_no_retry(loop, net):
        S, sock = _sock(loop, R)
        await sock.open_socket()
        await asyncio.sleep(0.1)
        sock._writer.fail_drain_after = 1
        await sock.send(msg(40), S.RETRY_NON_IDEMPOTENT)
        await asyncio.sleep(5.0)
        r = (len(net.opened), sock.is_connected, net.open_unclosed())
        await sock.close()
        return r
    (conns, connected, unclosed), net, _ = vloop.run(fault_no_retry)
    out["the connection is reset if and only if the write met a transport error - whatever retries the entry has left "
        "(a half-open link is never kept, and an encoding error or a good write never costs the link)"] = conns == 2 and connected and len(unclosed) == 1
    out["a transport error resets the connection exactly once"] = conns == 2
    return out
