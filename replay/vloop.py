"""Deterministic virtual-time asyncio loop and scripted fake TCP streams for native replays.

The loop's clock is a counter; when nothing is ready the selector "sleeps" by advancing the clock to
the next timer, so hours of protocol time run in milliseconds and every run is reproducible.
`asyncio.open_connection` is replaced by a scripted factory (refuse / accept with latency).
Used only to *replay* counterexamples and seeded changes on the real package - never to decide a property.
"""
from __future__ import annotations

import asyncio
import selectors


class _VSelector(selectors.BaseSelector):
    def __init__(self, loop_ref):
        self._loop_ref = loop_ref
        self._map = {}

    def register(self, fileobj, events, data=None):
        k = selectors.SelectorKey(fileobj, fileobj if isinstance(fileobj, int) else fileobj.fileno(), events, data)
        self._map[k.fd] = k
        return k

    def unregister(self, fileobj):
        fd = fileobj if isinstance(fileobj, int) else fileobj.fileno()
        return self._map.pop(fd, None)

    def modify(self, fileobj, events, data=None):
        self.unregister(fileobj)
        return self.register(fileobj, events, data)

    def select(self, timeout=None):
        loop = self._loop_ref[0]
        if timeout is None:
            # nothing scheduled at all: the run is quiescent
            loop._quiescent = True
            loop.stop()
            return []
        if timeout > 0:
            loop._vtime += timeout
        return []

    def get_map(self):
        return self._map

    def close(self):
        self._map.clear()


class VirtualLoop(asyncio.SelectorEventLoop):
    def __init__(self):
        ref = [None]
        super().__init__(_VSelector(ref))
        ref[0] = self
        self._vtime = 0.0
        self._quiescent = False
        self._clock_resolution = 1e-9

    def time(self):
        return self._vtime


class FakeWriter:
    def __init__(self, net, name):
        self.net = net
        self.name = name
        self.data = bytearray()
        self.writes = []
        self.closed = False
        self.fail_drain_after = None  # raise ConnectionResetError on the n-th drain (1-based)
        self.drains = 0
        self.drain_gate = None  # asyncio.Event: drain() waits for it
        self.write_times = []

    def write(self, b):
        if self.closed:
            self.net.log.append(("write-after-close", self.name, bytes(b)))
        self.data += b
        self.writes.append(bytes(b))
        self.write_times.append(asyncio.get_event_loop().time())
        self.net.log.append(("write", self.name, bytes(b)))

    async def drain(self):
        self.drains += 1
        if self.drain_gate is not None:
            await self.drain_gate.wait()
        if self.fail_drain_after is not None and self.drains >= self.fail_drain_after:
            raise ConnectionResetError("scripted write failure")
        await asyncio.sleep(0)

    def close(self):
        if not self.closed:
            self.closed = True
            self.net.log.append(("close", self.name))
            rd = self.net.readers.get(self.name)
            if rd is not None:
                rd.feed_eof()

    def is_closing(self):
        return self.closed

    async def wait_closed(self):
        await asyncio.sleep(0)


class FakeNet:
    """Scripted replacement of asyncio.open_connection."""

    def __init__(self):
        self.log = []
        self.script = []  # per attempt: ("refuse", latency) | ("accept", latency)
        self.default = ("accept", 0.0)
        self.attempts = 0
        self.attempt_times = []
        self.writers = {}
        self.readers = {}
        self.opened = []

    async def open_connection(self, host=None, port=None, **kw):
        loop = asyncio.get_event_loop()
        self.attempts += 1
        n = self.attempts
        self.attempt_times.append(loop.time())
        kind, latency = self.script.pop(0) if self.script else self.default
        self.log.append(("attempt", n, loop.time(), kind))
        if latency:
            await asyncio.sleep(latency)
        else:
            await asyncio.sleep(0)
        if kind == "refuse":
            raise ConnectionRefusedError("scripted refusal")
        name = f"c{n}"
        rd = asyncio.StreamReader()
        wr = FakeWriter(self, name)
        self.writers[name] = wr
        self.readers[name] = rd
        self.opened.append(name)
        self.log.append(("connected", name, loop.time()))
        return rd, wr

    def open_unclosed(self):
        return [n for n in self.opened if not self.writers[n].closed]


def run(coro_fn, until=None):
    """Run `await coro_fn(loop, net)` on a fresh virtual loop with asyncio.open_connection scripted."""
    loop = VirtualLoop()
    net = FakeNet()
    orig = asyncio.open_connection
    asyncio.open_connection = net.open_connection
    asyncio.set_event_loop(loop)
    try:
        result = loop.run_until_complete(coro_fn(loop, net))
        return result, net, loop
    finally:
        asyncio.open_connection = orig
        try:
            for t in asyncio.all_tasks(loop):
                t.cancel()
            loop.run_until_complete(asyncio.sleep(0))
        except Exception:  # noqa: BLE001
            pass
        asyncio.set_event_loop(None)
        loop.close()
