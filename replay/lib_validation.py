"""Validation of the *assumed* library contracts (DESIGN.md 2.7) on the interpreter that runs the package.

The contracts of asyncio / collections.deque that pyvc/aio.py, pyvc/world.py and the SeqDeque abstraction
encode are trusted, not proved.  This script exercises the real library on a deterministic virtual-time loop
with random inputs and reports, per assumed contract, whether every sample agreed with the model's statement.
It is a bounded cross-check (evidence label: library-validation, bounded) - it proves nothing, but a model that
mis-states the library is caught here rather than silently weakening every proof that uses it.

    /venv/bin/python replay/lib_validation.py <seed> <samples>      -> JSON {contract: {"samples": n, "ok": bool, "witness": ...}}
Pure stdlib; imports nothing from /repo.
"""
from __future__ import annotations

import asyncio
import collections
import json
import os
import random
import sys

sys.path.insert(0, os.path.dirname(os.path.dirname(os.path.abspath(__file__))))
from replay.vloop import VirtualLoop  # noqa: E402


def on_loop(coro_fn):
    loop = VirtualLoop()
    asyncio.set_event_loop(loop)
    try:
        return loop.run_until_complete(coro_fn(loop))
    finally:
        try:
            for t in asyncio.all_tasks(loop):
                t.cancel()
            loop.run_until_complete(asyncio.sleep(0))
        except Exception:  # noqa: BLE001
            pass
        asyncio.set_event_loop(None)
        loop.close()


def segmentations(rng, data):
    cuts = sorted(rng.sample(range(1, len(data)), min(len(data) - 1, rng.randint(0, 6)))) if len(data) > 1 else []
    parts, prev = [], 0
    for c in cuts + [len(data)]:
        parts.append(data[prev:c])
        prev = c
    return [p for p in parts if p]


def v_readexactly(rng, n):
    """StreamReader.readexactly(k): the next k bytes of the stream whatever the segmentation and whatever the
    interleaving of feeding and reading; IncompleteReadError (with the partial bytes) at EOF."""
    bad = None
    for _ in range(n):
        data = bytes(rng.randrange(256) for _ in range(rng.randint(1, 60)))
        sizes = []
        left = len(data)
        while left > 0:
            k = rng.randint(0, min(left, 20))
            sizes.append(k)
            left -= k
        extra = rng.randint(1, 5)  # a final read beyond EOF
        parts = segmentations(rng, data)
        gaps = [rng.choice([0, 0, 0.01, 1.0]) for _ in parts]

        async def main(loop):
            rd = asyncio.StreamReader()

            async def feeder():
                for p, g in zip(parts, gaps):
                    if g:
                        await asyncio.sleep(g)
                    else:
                        await asyncio.sleep(0)
                    rd.feed_data(p)
                rd.feed_eof()
            t = loop.create_task(feeder())
            out = []
            for k in sizes:
                out.append(await rd.readexactly(k))
            try:
                await rd.readexactly(extra)
                eof = "no exception"
            except asyncio.IncompleteReadError as e:
                eof = ("incomplete", bytes(e.partial), e.expected)
            await t
            return out, eof
        out, eof = on_loop(main)
        want, pos = [], 0
        for k in sizes:
            want.append(data[pos:pos + k])
            pos += k
        if out != want or eof != ("incomplete", b"", extra):
            bad = {"data": data.hex(), "sizes": sizes, "parts": [p.hex() for p in parts], "got": [o.hex() for o in out], "eof": repr(eof)}
            break
    return {"samples": n, "ok": bad is None, "witness": bad}


def v_timeout(rng, n):
    """asyncio.timeout(d): `when` == entry time + d; the body is interrupted with TimeoutError exactly at `when`;
    reschedule(w) moves the deadline to w; timeout(None) never fires; a body that ends earlier is not disturbed."""
    bad = None
    for _ in range(n):
        d = rng.choice([0.5, 1.0, 30.0, 330.0])
        pushes = [round(rng.uniform(0.01, d * 0.99), 3) for _ in range(rng.randint(0, 3))]  # gaps between reschedules

        async def main(loop):
            t0 = loop.time()
            ev = asyncio.Event()
            fired = None
            last = t0
            try:
                async with asyncio.timeout(d) as cm:
                    armed = cm.when()
                    for g in pushes:
                        await asyncio.sleep(g)
                        last = loop.time()
                        cm.reschedule(last + d)
                    await ev.wait()
            except TimeoutError:
                fired = loop.time()
            # None never fires
            never = True
            try:
                async with asyncio.timeout(None) as cm2:
                    never = cm2.when() is None
                    await asyncio.sleep(10 * d)
            except TimeoutError:
                never = False
            return armed - t0, fired - last if fired is not None else None, never
        armed, fired, never = on_loop(main)
        if abs(armed - d) > 1e-9 or fired is None or abs(fired - d) > 1e-6 or not never:
            bad = {"d": d, "pushes": pushes, "armed": armed, "fired_after_last_push": fired, "none_never_fires": never}
            break
    return {"samples": n, "ok": bad is None, "witness": bad}


def v_wait_for(rng, n):
    """asyncio.wait_for(aw, t): the result of aw if it completes within t, else TimeoutError exactly t later."""
    bad = None
    for _ in range(n):
        t = rng.choice([0.5, 5.0])
        dur = rng.choice([0.0, 0.1, t * 0.9, t * 1.1, 100.0])

        async def main(loop):
            t0 = loop.time()

            async def work():
                await asyncio.sleep(dur)
                return "done"
            try:
                r = await asyncio.wait_for(work(), t)
            except TimeoutError:
                r = "timeout"
            return r, loop.time() - t0
        r, el = on_loop(main)
        want = ("done", dur) if dur < t else ("timeout", t)
        if r != want[0] or abs(el - want[1]) > 1e-6:
            bad = {"t": t, "dur": dur, "got": [r, el]}
            break
    return {"samples": n, "ok": bad is None, "witness": bad}


def v_as_completed_gather(rng, n):
    """as_completed yields every awaitable exactly once (any order); gather(sleep(d), c) returns not before d and
    after c finished; an exception of one gathered / as_completed awaitable surfaces when that one is awaited."""
    bad = None
    for _ in range(n):
        k = rng.randint(0, 6)
        durs = [rng.choice([0, 0.01, 0.5, 2.0]) for _ in range(k)]
        d = rng.choice([0.5, 300.0])
        cdur = rng.choice([0.0, 0.1, 2 * d])

        async def main(loop):
            async def w(i):
                await asyncio.sleep(durs[i])
                return i
            got = []
            for f in asyncio.as_completed([w(i) for i in range(k)]):
                got.append(await f)
            t0 = loop.time()

            async def c():
                await asyncio.sleep(cdur)
            await asyncio.gather(asyncio.sleep(d), c())
            return got, loop.time() - t0
        got, el = on_loop(main)
        if sorted(got) != list(range(k)) or abs(el - max(d, cdur)) > 1e-6:
            bad = {"durs": durs, "got": got, "d": d, "cdur": cdur, "elapsed": el}
            break
    return {"samples": n, "ok": bad is None, "witness": bad}


def v_cancel(rng, n):
    """task.cancel(); await task: raises CancelledError in the awaiter, the task is done afterwards and never runs again."""
    bad = None
    for _ in range(n):
        period = rng.choice([0.5, 300.0])
        when = rng.choice([0.0, 0.1, period, 3.3 * period])

        async def main(loop):
            ticks = []

            async def forever():
                while True:
                    await asyncio.sleep(period)
                    ticks.append(loop.time())
            t = loop.create_task(forever())
            await asyncio.sleep(when)
            t.cancel()
            try:
                await t
                r = "returned"
            except asyncio.CancelledError:
                r = "cancelled"
            n0 = len(ticks)
            await asyncio.sleep(10 * period)
            return r, t.done(), len(ticks) == n0
        r = on_loop(main)
        if r != ("cancelled", True, True):
            bad = {"period": period, "when": when, "got": list(r)}
            break
    return {"samples": n, "ok": bad is None, "witness": bad}


def v_event(rng, n):
    """Event: wait() returns at once when set; otherwise resumes after set(); clear() makes the next wait block."""
    bad = None
    for _ in range(n):
        delay = rng.choice([0.0, 0.2, 5.0])

        async def main(loop):
            ev = asyncio.Event()
            ev.set()
            t0 = loop.time()
            await ev.wait()
            immediate = loop.time() == t0
            ev.clear()
            loop.call_later(delay, ev.set)
            await ev.wait()
            return immediate, loop.time() - t0, ev.is_set()
        im, el, st = on_loop(main)
        if not im or abs(el - delay) > 1e-6 or not st:
            bad = {"delay": delay, "got": [im, el, st]}
            break
    return {"samples": n, "ok": bad is None, "witness": bad}


def v_deque(rng, n):
    """collections.deque as a mathematical sequence: append / appendleft / popleft / del q[i] / reversed(range(len))
    indexing agree with list operations (the abstraction SeqDeque and DequeVal rely on)."""
    bad = None
    for _ in range(n):
        q, l = collections.deque(), []
        for _ in range(rng.randint(0, 40)):
            op = rng.choice(["append", "appendleft", "popleft", "del", "index"])
            x = rng.randrange(1000)
            if op == "append":
                q.append(x); l.append(x)
            elif op == "appendleft":
                q.appendleft(x); l.insert(0, x)
            elif op == "popleft" and l:
                if q.popleft() != l.pop(0):
                    bad = {"op": op}
            elif op == "del" and l:
                i = rng.randrange(len(l))
                del q[i]
                del l[i]
            elif op == "index" and l:
                i = rng.randrange(len(l))
                if q[i] != l[i]:
                    bad = {"op": op}
            if list(q) != l or len(q) != len(l) or bool(q) != bool(l):
                bad = {"op": op, "deque": list(q), "list": l}
            if bad:
                break
        if bad:
            break
    return {"samples": n, "ok": bad is None, "witness": bad}


def v_round(rng, n):
    """round(x) / round(x, 1) on the values the setters see: correctly rounded, ties to even on the exact binary value."""
    from fractions import Fraction
    bad = None
    for _ in range(n):
        x = rng.choice([rng.uniform(-20, 60), rng.randint(-200, 600) / 10, rng.randint(-40, 120) / 2, rng.randint(-400, 1200) / 20])
        for nd in (0, 1):
            got = round(x, nd) if nd else round(x)
            fx = Fraction(x) * (10 ** nd)
            lo = fx.numerator // fx.denominator
            frac = fx - lo
            want = lo if frac < Fraction(1, 2) else lo + 1 if frac > Fraction(1, 2) else (lo if lo % 2 == 0 else lo + 1)
            if nd == 0:
                ok = got == want
            else:
                ok = got == float(Fraction(want, 10)) or abs(Fraction(got) - Fraction(want, 10)) < Fraction(1, 10 ** 12)
            if not ok:
                bad = {"x": x, "ndigits": nd, "got": got, "want": str(Fraction(want, 10 ** nd))}
                break
        if bad:
            break
    return {"samples": n, "ok": bad is None, "witness": bad}


CONTRACTS = {
    "StreamReader.readexactly": v_readexactly,
    "asyncio.timeout": v_timeout,
    "asyncio.wait_for": v_wait_for,
    "as_completed / gather": v_as_completed_gather,
    "Task.cancel": v_cancel,
    "asyncio.Event": v_event,
    "collections.deque": v_deque,
    "round": v_round,
}


def main():
    seed = int(sys.argv[1]) if len(sys.argv) > 1 else 1
    n = int(sys.argv[2]) if len(sys.argv) > 2 else 40
    out = {"python": sys.version.split()[0]}
    for name, fn in CONTRACTS.items():
        try:
            out[name] = fn(random.Random(f"{seed}:{name}"), n)
        except Exception as e:  # noqa: BLE001
            out[name] = {"samples": 0, "ok": False, "witness": f"{type(e).__name__}: {e}"}
    print(json.dumps(out))


if __name__ == "__main__":
    main()
