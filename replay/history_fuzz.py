"""Bounded native exploration of send / fault histories (thorough tier companion of the step contracts and of
lemmas/Fifo.lean, lemmas/Conn.lean): the real AirTouchSocket on the virtual-time loop under random scripts of
sends, clock advances, refusals, connect latencies, write faults and peer closes; after each run the history
statements of C01 / C02 / C07 / C16 are evaluated on what actually reached the wire.

It proves nothing (evidence label: bounded, library-validation kind); it checks that the abstraction the lemmas are
stated over (tickets, wire, queue) matches what the real code does end to end.

    /venv/bin/python replay/history_fuzz.py <seed> <runs>   ->  JSON {"runs": n, "violations": [...], "stats": {...}}
"""
from __future__ import annotations

import asyncio
import json
import os
import random
import sys

sys.path.insert(0, os.path.dirname(os.path.dirname(os.path.abspath(__file__))))
sys.path.insert(0, os.environ.get("PYVC_REPO", "/repo"))
from replay import vloop  # noqa: E402


def _mk():
    import pyairtouch.at4.comms.registry as reg
    import pyairtouch.at4.comms.x2A_group_ctrl as gc
    import pyairtouch.comms.socket as S
    return reg.INSTANCE, gc, S


def parse_frames(R, data):
    """Split a connection's byte stream into AT4 frames; returns (list of (offset, header, message), clean?)."""
    out, pos = [], 0
    hl = R.header_decoder.header_length
    while pos < len(data):
        if pos + hl > len(data):
            return out, False
        hr = R.header_decoder.decode(data[pos:pos + hl])
        n = hr.header.message_length
        if pos + hl + n + 2 > len(data):
            return out, False
        payload = data[pos + hl:pos + hl + n]
        crc = data[pos + hl + n:pos + hl + n + 2]
        if bytes(R.checksum_calculator.calculate(hr.checksum_data + payload)) != bytes(crc):
            return out, False
        msg = R.get_decoder(hr.header.message_id).decode(payload, hr.header).message
        out.append((pos, hr.header, msg))
        pos += hl + n + 2
    return out, True


def one_run(seed):
    R, gc, S = _mk()
    rng = random.Random(seed)
    policies = [("IDEM", S.RETRY_IDEMPOTENT), ("NON", S.RETRY_NON_IDEMPOTENT), ("CONN", S.RETRY_CONNECTED)]
    n_steps = rng.randint(5, 40)
    faulty = rng.random() < 0.7
    trace = []

    async def main(loop, net):
        sock = S.AirTouchSocket(loop, "console", 9004, R)
        odd = []
        accepted = []          # (ticket, time, policy name, retries, expiry)
        rejected = []
        max_queue = [0]
        open_times = []
        # network script
        if faulty:
            net.script = [rng.choice([("refuse", rng.choice([0.0, 0.3])), ("accept", rng.choice([0.0, 0.2, 1.5]))]) for _ in range(rng.randint(0, 6))]
        # the capacity rule is evaluated atomically, at the very call of the real _enqueue_message
        real_enqueue = sock._enqueue_message

        def enqueue(entry):
            now = loop.time()
            live = [e for e in sock._message_queue if now < e.expiry]
            try:
                real_enqueue(entry)
            except S.QueueOverflowError:
                if len(live) < 10:
                    odd.append(("C16", f"QueueOverflowError with only {len(live)} unexpired messages held", len(live)))
                if list(sock._message_queue) != live and len(live) <= 10:
                    odd.append(("C16", "overflow did not leave exactly the unexpired held ones", len(live)))
                raise
            if len(live) >= 10:
                odd.append(("C16", f"an eleventh message was accepted ({len(live)} unexpired held)", len(live)))
            elif list(sock._message_queue) != live + [entry]:
                odd.append(("C16", "accepted, but the queue is not the unexpired old ones followed by the new entry", len(live)))
        sock._enqueue_message = enqueue
        sub_delay = rng.choice([0.0, 0.0, 0.3, 1.0])
        if sub_delay:
            async def slow_subscriber(*, connected):
                if not connected:
                    await asyncio.sleep(sub_delay)   # e.g. an API object stopping its heartbeat
            sock.subscribe_on_connection_changed(slow_subscriber)
        await sock.open_socket()
        ticket = 0
        gates = []
        burst = 0
        for _ in range(n_steps):
            op = rng.random()
            if burst == 0 and op < 0.04:
                burst = rng.randint(8, 12)           # a burst of sends with mixed lifetimes
            if burst > 0:
                burst -= 1
                op = 0.0
            if 0.80 <= op < 0.83:
                # shutdown in the middle of whatever is going on (connect in flight, back-off, drain), idle, re-open
                try:
                    await sock.close()
                except BaseException as e:  # noqa: BLE001
                    odd.append(("C15", f"close raised {type(e).__name__}", ""))
                n_att = net.attempts
                for idle in (0.0, rng.choice([0.01, 0.5, 3.0])):
                    await asyncio.sleep(idle)
                    if sock.is_open or sock.is_connected or net.open_unclosed():
                        odd.append(("C15", f"{idle} s after close() returned: is_open={sock.is_open} is_connected={sock.is_connected} "
                                    f"open connections={len(net.open_unclosed())}", ""))
                        break
                if net.attempts != n_att:
                    odd.append(("C15", "a connection was attempted after close() returned", ""))
                trace.append(("close-reopen", round(loop.time(), 3)))
                await sock.open_socket()
                continue
            if faulty and 0.50 <= op < 0.55 and sock._writer is not None:
                w = sock._writer
                if w.drain_gate is None:
                    w.drain_gate = asyncio.Event()    # back-pressure: drain() parks until released
                    gates.append(w.drain_gate)
                    trace.append(("gate", w.name))
                else:
                    w.drain_gate.set()
                    trace.append(("release", w.name))
                continue
            if op < 0.55:
                name, pol = rng.choice(policies)
                m = gc.GroupControlMessage(group_number=ticket % 16, power=gc.GroupPowerControl.UNCHANGED,
                                           control_method=gc.GroupControlMethod.UNCHANGED,
                                           setting=gc.GroupDamperControl(open_percentage=ticket // 16))
                t = loop.time()
                try:
                    # do not wait for the drain: several sends may be in flight
                    task = loop.create_task(sock.send(m, pol))
                    await asyncio.sleep(0)
                    if task.done() and task.exception() is not None:
                        ex = type(task.exception()).__name__
                        rejected.append((ticket, ex))
                        if ex not in ("QueueOverflowError", "NotOpenError"):
                            odd.append(("C01", f"send raised {ex}", ticket))
                    else:
                        accepted.append((ticket, t, name, pol.max_retries, t + pol.max_lifetime))
                    trace.append(("send", ticket, name, round(t, 3)))
                except BaseException as e:  # noqa: BLE001
                    rejected.append((ticket, type(e).__name__))
                ticket += 1
            elif op < 0.8:
                d = rng.choice([0.0, 0.01, 0.4, 1.0, 2.5, 31.0])
                await asyncio.sleep(d)
                trace.append(("sleep", d))
            elif faulty and op < 0.9 and sock._writer is not None:
                w = sock._writer
                w.fail_drain_after = w.drains + rng.randint(1, 2)   # one of the next writes meets a dead link
                trace.append(("write-fault-armed", w.name))
            elif faulty and sock._reader is not None:
                sock._reader.feed_eof()                             # peer closes
                trace.append(("peer-eof",))
                await asyncio.sleep(0)
            max_queue[0] = max(max_queue[0], len(sock._message_queue))
            open_times.append(len(net.open_unclosed()))
        # the network behaves from now on
        for g in gates:
            g.set()
        net.script = []
        net.default = ("accept", 0.0)
        await asyncio.sleep(40.0)
        healthy = (sock.is_connected, len(net.open_unclosed()))
        left = len(sock._message_queue)
        await sock.close()
        return accepted, rejected, max_queue[0], max(open_times or [0]), healthy, left, odd

    (accepted, rejected, max_queue, max_open, healthy, left, odd), net, _ = vloop.run(main)
    viol = list(odd)
    wire = []   # (time, ticket)
    for name in net.opened:
        w = net.writers[name]
        frames, clean = parse_frames(R, bytes(w.data))
        if not clean:
            viol.append(("C01", "bytes of different frames interleave or a frame is cut", name))
        # time of each frame = time of the write that started it
        offs, acc = [], 0
        for b, t in zip(w.writes, w.write_times):
            offs.append((acc, t))
            acc += len(b)
        for pos, hdr, msg in frames:
            t = max(tt for o, tt in offs if o <= pos)
            try:
                tk = msg.group_number + 16 * msg.setting.open_percentage
            except Exception:  # noqa: BLE001
                viol.append(("C01", "a frame on the wire is not one of the submitted messages", repr(msg)[:80]))
                continue
            wire.append((t, tk, name))
    acc_by = {a[0]: a for a in accepted}
    wrote_fault = any(w.fail_drain_after is not None for w in net.writers.values())
    counts = {}
    for t, tk, name in wire:
        counts[tk] = counts.get(tk, 0) + 1
        if tk not in acc_by:
            viol.append(("C01", "transmitted but never accepted", tk))
            continue
        _, ta, pname, retries, expiry = acc_by[tk]
        if t >= expiry:
            viol.append(("C02", f"written at {t} at or after its expiry {expiry}", tk, pname))
    for tk, c in counts.items():
        if tk in acc_by and c > 1 + acc_by[tk][3]:
            viol.append(("C02", f"{c} transmissions with retry count {acc_by[tk][3]}", tk))
    firsts = []
    seen = set()
    for t, tk, name in wire:
        if tk not in seen:
            seen.add(tk)
            firsts.append(tk)
    if not wrote_fault:
        if firsts != sorted(firsts):
            viol.append(("C01", "without write faults the wire is not in acceptance order", firsts[:12]))
        if any(c > 1 for c in counts.values()):
            viol.append(("C01", "without write faults a message was transmitted twice", {k: v for k, v in counts.items() if v > 1}))
        if max_queue > 10:
            viol.append(("C16", f"{max_queue} entries pending without any write fault"))
    if max_open > 1 or healthy[1] != 1:
        viol.append(("C07", f"open connections: max {max_open} during the run, {healthy[1]} after the network healed"))
    if not healthy[0]:
        viol.append(("C07", "not connected 40 s after the network healed"))
    return viol, {"accepted": len(accepted), "on_wire": len(wire), "rejected": len(rejected), "connections": len(net.opened),
                  "max_queue": max_queue, "write_fault": wrote_fault, "left": left}, trace


def main():
    seed = int(sys.argv[1]) if len(sys.argv) > 1 else 1
    runs = int(sys.argv[2]) if len(sys.argv) > 2 else 200
    violations, tot = [], {"accepted": 0, "on_wire": 0, "rejected": 0, "connections": 0, "runs_with_write_fault": 0, "max_queue": 0}
    for i in range(runs):
        try:
            v, st, trace = one_run(seed * 100003 + i)
        except Exception as e:  # noqa: BLE001
            violations.append({"run": i, "error": f"{type(e).__name__}: {e}"})
            continue
        for k in ("accepted", "on_wire", "rejected", "connections"):
            tot[k] += st[k]
        tot["runs_with_write_fault"] += 1 if st["write_fault"] else 0
        tot["max_queue"] = max(tot["max_queue"], st["max_queue"])
        if v:
            violations.append({"run": i, "seed": seed * 100003 + i, "violations": [list(map(str, x)) for x in v[:4]], "trace": trace[:60]})
    print(json.dumps({"runs": runs, "violations": violations[:5], "n_violating_runs": len(violations), "stats": tot}))


if __name__ == "__main__":
    main()
