"""Native schedules for the receive path (C13, C06, C17): real socket on the virtual loop, every cut point."""
from __future__ import annotations

import asyncio

from replay import vloop


def _frames():
    import pyairtouch.at4.comms.registry as reg
    import pyairtouch.at4.comms.x2B_group_status as gs
    import pyairtouch.at4.comms.x2D_ac_status as acs
    import pyairtouch.at4.comms.x1F_ext as ext
    import pyairtouch.at4.comms.x1FFF30_console_ver as ver
    R = reg.INSTANCE
    msgs = [gs.GroupStatusMessage([gs.GroupStatusData(1, gs.GroupPowerState.ON, gs.GroupControlMethod.TEMPERATURE, False, True, True,
                                                       gs.SensorBatteryStatus.NORMAL, 21.5, 80, 23)]),
            acs.AcStatusRequest(),
            ext.ExtendedMessage(ver.ConsoleVersionMessage(False, ["1.2.3"]))]
    out = []
    for m in msgs:
        enc = R.get_encoder(m.message_id)
        hdr = R.header_factory.create_from_message(m, enc.size(m))
        hb = R.header_encoder.encode(hdr)
        pb = bytes(enc.encode(hdr, m))
        out.append((m, hb.header_bytes + pb + R.checksum_calculator.calculate(hb.checksum_data + pb)))
    return R, out


def _deliver(segments, registry):
    got = []

    async def main(loop, net):
        import pyairtouch.comms.socket as S
        sock = S.AirTouchSocket(loop, "console", 9004, registry)

        async def on_msg(h, m):
            got.append(m)
        sock.subscribe_on_message_received(on_msg)
        await sock.open_socket()
        await asyncio.sleep(0.1)
        rd = net.readers[net.opened[-1]]
        for seg in segments:
            if rd.at_eof() or net.writers[net.opened[0]].closed:
                break  # the client dropped the connection: the rest of the stream is lost
            rd.feed_data(seg)
            await asyncio.sleep(0.01)
        await asyncio.sleep(0.5)
        n_conn = len(net.opened)
        await sock.close()
        return n_conn

    n_conn, net, _ = vloop.run(main)
    return got, n_conn


def run_library(h):
    R, frames = _frames()
    stream = b"".join(f for _, f in frames)
    want = [m for m, _ in frames]
    ok_all, ok_single, bad = True, True, None
    for cut in range(1, len(stream)):
        got, n_conn = _deliver([stream[:cut], stream[cut:]], R)
        if got != want or n_conn != 1:
            ok_all, bad = False, cut
            break
    got, n_conn = _deliver([bytes([b]) for b in stream], R)
    ok_single = got == want and n_conn == 1
    h.oblige("the transport is only read through readexactly", ok_all and ok_single,
             detail=f"three frames cut at every position / byte by byte: first failing cut {bad}")
    # a damaged frame is not delivered and the connection heals
    _, f0 = frames[0]
    damaged = bytearray(f0)
    damaged[9] ^= 0x01
    got, n_conn = _deliver([bytes(damaged)], R)
    h.oblige("delivered only if the check bytes equal CRC16 of (header span ++ payload)", got == [], detail="single bit flip in the payload")
