"""Bounded native exploration of whole-client histories (thorough tier companion of the step contracts of the AirTouch4 /
AirTouch5 objects, the heartbeat manager and the socket): the real client against a simulated console that answers with
the package's own codecs, on the virtual-time loop, under random scripts of

    init / shutdown at arbitrary instants (including between two turns of the event loop in the middle of the handshake),
    link losses, refusal periods, a console that goes silent, user commands, slow subscribers, long idle periods.

After each script the end-to-end statements of C15 (shutdown final, leak-free, reversible), C09 (init returns within 5 s
with the right answer and the right model), C08 (one heartbeat every 300 s while connected, no reset of a healthy link)
and C14 (refresh after reconnection) are evaluated on what the simulated console saw.

It proves nothing (evidence label: bounded, library-validation kind).  It exists because the two defects of this kind
found late (a handshake step resuming after shutdown(); a periodic task dying of a refused send) were compositions of
steps whose contracts each looked at one function.

    /venv/bin/python replay/client_fuzz.py <seed> <runs>   ->  JSON {"runs": n, "violations": [...], "stats": {...}}
"""
from __future__ import annotations

import asyncio
import importlib
import json
import logging
import os
import random
import sys

sys.path.insert(0, os.path.dirname(os.path.dirname(os.path.abspath(__file__))))
sys.path.insert(0, os.environ.get("PYVC_REPO", "/repo"))
from replay import vloop  # noqa: E402

TASK_OWNERS = ("AirTouch4.", "AirTouch5.", "HeartbeatManager.", "AirTouchSocket.", "_delay")


def _mods(g):
    m = {}
    c = f"pyairtouch.at{g}.comms."
    for k, name in dict(api=f"pyairtouch.at{g}.api", reg=c + "registry", hdr=c + "hdr", ext=c + "x1F_ext", abil=c + "x1FFF11_ac_ability",
                        ver=c + "x1FFF30_console_ver").items():
        m[k] = importlib.import_module(name)
    if g == 4:
        for k, name in dict(names="x1FFF12_group_names", zs="x2B_group_status", acc="x2C_ac_ctrl", acs="x2D_ac_status", ts="x37_ac_timer_status").items():
            m[k] = importlib.import_module(c + name)
    else:
        for k, name in dict(names="x1FFF13_zone_names", zs="xC021_zone_status", acc="xC022_ac_ctrl", acs="xC023_ac_status", ts="xC033_ac_timer_status",
                            cs="xC0_ctrl_status").items():
            m[k] = importlib.import_module(c + name)
    return m


class Console:
    """Answers the six kinds of requests on whatever connection is open, with frames built by the package's codecs."""

    def __init__(self, g, net, loop, zones):
        self.g, self.net, self.loop = g, net, loop
        self.M = _mods(g)
        self.reg = self.M["reg"].INSTANCE
        self.zones = zones
        self.silent = False
        self.consumed = {}
        self.requests = []     # (time, connection, request class name)
        self.commands = []
        self.temp = 22.0
        self.fragment = False
        self.noisy = False
        self.rng = random.Random(0)
        self.pending = {}

    def frame(self, msg):
        reg, H = self.reg, self.M["hdr"]
        size = reg.get_encoder(msg.message_id).size(msg)
        frm = H.ADDRESS_AIRTOUCH_EXTENDED if msg.message_id == 0x1F else H.ADDRESS_AIRTOUCH
        cls = H.At4Header if self.g == 4 else H.At5Header
        header = cls(H.ADDRESS_CLIENT, frm, 1, msg.message_id, size)
        hdr = reg.header_encoder.encode(header)
        body = bytes(reg.get_encoder(msg.message_id).encode(header, msg))
        crc = reg.checksum_calculator.calculate(hdr.checksum_data + body)
        return bytes(hdr.header_bytes) + body + bytes(crc)

    def push(self, name, msg, raw=None):
        rd = self.net.readers.get(name)
        w = self.net.writers.get(name)
        if rd is None or w is None or w.closed or rd.at_eof():
            return
        data = raw if raw is not None else self.frame(msg)
        if not self.fragment:
            rd.feed_data(data)
            return
        # TCP segmentation: the frame arrives in pieces, a little apart (order preserved: one queue per connection)
        cuts = sorted(self.rng.sample(range(1, len(data)), min(len(data) - 1, self.rng.randint(1, 4)))) if len(data) > 1 else []
        parts = [data[a:b] for a, b in zip([0] + cuts, cuts + [len(data)])]
        q = self.pending.setdefault(name, [])
        first = not q
        q.extend(parts)
        if first:
            self.loop.call_later(0.0005, self._deliver, name)

    def _deliver(self, name):
        q = self.pending.get(name) or []
        rd, w = self.net.readers.get(name), self.net.writers.get(name)
        if not q or rd is None or w is None or w.closed or rd.at_eof():
            self.pending[name] = []
            return
        rd.feed_data(q.pop(0))
        if q:
            self.loop.call_later(0.0005, self._deliver, name)

    def extras(self, name):
        """Frames nobody asked for: duplicates of earlier answers, an unknown type, a frame addressed to somebody else."""
        M, H = self.M, self.M["hdr"]
        k = self.rng.random()
        if k < 0.3:
            self.push(name, M["ext"].ExtendedMessage(M["ver"].ConsoleVersionMessage(False, ["1.0.0"])))
        elif k < 0.5:
            self.push(name, self.ac_status())
        elif k < 0.65:
            self.push(name, self.zone_status())
        elif k < 0.8:
            self.push(name, self.timer_status())
        else:
            # unknown message type 0x99 with a well-formed frame
            cls = H.At4Header if self.g == 4 else H.At5Header
            header = cls(H.ADDRESS_CLIENT, H.ADDRESS_AIRTOUCH, 1, 0x99, 3)
            hdr = self.reg.header_encoder.encode(header)
            body = b"\x01\x02\x03"
            self.push(name, None, raw=bytes(hdr.header_bytes) + body + bytes(self.reg.checksum_calculator.calculate(hdr.checksum_data + body)))

    def _watch(self):
        """Wake the console whenever the client writes (instead of polling through hours of virtual idle time)."""
        self.wake = asyncio.Event()
        real_open = self.net.open_connection

        async def open_connection(*a, **k):
            rd, wr = await real_open(*a, **k)
            real_write = wr.write

            def write(b):
                real_write(b)
                self.wake.set()
            wr.write = write
            return rd, wr
        self.net.open_connection = open_connection
        asyncio.open_connection = open_connection

    async def serve(self):
        hd = self.reg.header_decoder
        while True:
            await self.wake.wait()
            self.wake.clear()
            await asyncio.sleep(0.01)      # the console's reaction time
            for name in list(self.net.opened):
                w = self.net.writers[name]
                buf, pos = w.data, self.consumed.get(name, 0)
                while len(buf) - pos >= hd.header_length:
                    res = hd.decode(bytes(buf[pos:pos + hd.header_length]))
                    total = hd.header_length + res.header.message_length + 2
                    if len(buf) - pos < total:
                        break
                    body = bytes(buf[pos + hd.header_length:pos + total - 2])
                    msg = self.reg.get_decoder(res.header.message_id).decode(body, res.header).message
                    pos += total
                    self.handle(name, msg)
                self.consumed[name] = pos

    # -- what the installation looks like ---------------------------------------------------------------------------
    def ability(self):
        M, g = self.M, self.g
        modes = {m: True for m in M["acc"].AcModeControl}
        fans = {f: True for f in M["acc"].AcFanSpeedControl}
        if g == 4:
            a = M["abil"].AcAbility(ac_number=0, ac_name="AC", ac_mode_support=modes, fan_speed_support=fans, min_set_point=16, max_set_point=30,
                                    groups=set(self.zones), start_group=0, group_count=len(self.zones))
        else:
            a = M["abil"].AcAbility(ac_number=0, ac_name="AC", start_zone=0, zone_count=len(self.zones), ac_mode_support=modes, fan_speed_support=fans,
                                    min_cool_set_point=16, max_cool_set_point=30, min_heat_set_point=16, max_heat_set_point=30)
        return M["ext"].ExtendedMessage(M["abil"].AcAbilityMessage([a]))

    def ac_status(self):
        M = self.M
        if self.g == 4:
            return M["acs"].AcStatusMessage([M["acs"].AcStatusData(ac_number=0, power_state=M["acs"].AcPowerState.ON, mode=M["acs"].AcMode.COOL,
                                                                   fan_speed=M["acs"].AcFanSpeed.LOW, spill_active=False, timer_set=False, set_point=24,
                                                                   temperature=self.temp, error_code=0)])
        return M["cs"].ControlStatusMessage(M["acs"].AcStatusMessage([M["acs"].AcStatusData(
            ac_number=0, power_state=M["acs"].AcPowerState.ON, mode=M["acs"].AcMode.COOL, fan_speed=M["acs"].AcFanSpeed.LOW, turbo_active=False,
            bypass_active=False, spill_active=False, timer_set=False, set_point=24.0, temperature=self.temp, error_code=0)]))

    def timer_status(self):
        M = self.M
        st = M["ts"].AcTimerState(True, 0, 0)
        msg = M["ts"].AcTimerStatusMessage([M["ts"].AcTimerStatusData(ac_number=0, on_timer=st, off_timer=st)])
        return msg if self.g == 4 else M["cs"].ControlStatusMessage(msg)

    def zone_status(self):
        M = self.M
        if self.g == 4:
            return M["zs"].GroupStatusMessage([M["zs"].GroupStatusData(
                group_number=z, power_state=M["zs"].GroupPowerState.ON, control_method=M["zs"].GroupControlMethod.TEMPERATURE, spill_active=False,
                supports_turbo=False, has_sensor=True, battery_status=M["zs"].SensorBatteryStatus.NORMAL, temperature=self.temp, damper_percentage=50,
                set_point=23) for z in self.zones])
        return M["cs"].ControlStatusMessage(M["zs"].ZoneStatusMessage([M["zs"].ZoneStatusData(
            zone_number=z, power_state=M["zs"].ZonePowerState.ON, spill_active=False, control_method=M["zs"].ZoneControlMethod.TEMPERATURE,
            has_sensor=True, battery_status=M["zs"].SensorBatteryStatus.NORMAL, temperature=self.temp, damper_percentage=50, set_point=23.0)
            for z in self.zones]))

    def handle(self, conn, m):
        M = self.M
        sub = getattr(m, "sub_message", m)
        name = type(sub).__name__
        if not name.endswith("Request"):
            self.commands.append((self.loop.time(), conn, name))
            return
        self.requests.append((self.loop.time(), conn, name))
        if self.silent:
            return
        if self.noisy and self.rng.random() < 0.6:
            self.extras(conn)          # before the answer
        if name == "ConsoleVersionRequest":
            self.push(conn, M["ext"].ExtendedMessage(M["ver"].ConsoleVersionMessage(False, ["1.0.0"])))
        elif name in ("GroupNamesRequest", "ZoneNamesRequest"):
            cls = M["names"].GroupNamesMessage if self.g == 4 else M["names"].ZoneNamesMessage
            self.push(conn, M["ext"].ExtendedMessage(cls(dict(self.zones))))
        elif name == "AcAbilityRequest":
            self.push(conn, self.ability())
        elif name == "AcStatusRequest":
            self.push(conn, self.ac_status())
        elif name == "AcTimerStatusRequest":
            self.push(conn, self.timer_status())
        elif name in ("GroupStatusRequest", "ZoneStatusRequest"):
            self.push(conn, self.zone_status())
        if self.noisy and self.rng.random() < 0.4:
            self.extras(conn)          # after the answer


def client_tasks(loop):
    out = []
    for t in asyncio.all_tasks(loop):
        if t.done():
            continue
        q = getattr(t.get_coro(), "__qualname__", "")
        if q.startswith(TASK_OWNERS):
            out.append(q)
    return sorted(out)


def one_run(seed):
    rng = random.Random(seed)
    g = rng.choice([4, 5])
    viol, trace = [], []
    stats = {"inits": 0, "inits_true": 0, "shutdowns": 0, "mid_handshake_shutdowns": 0, "link_losses": 0, "heartbeats": 0}

    async def main(loop, net):
        import pyairtouch.comms.socket as S
        zones = {0: "Living", 1: "Bed"} if rng.random() < 0.8 else ({0: "Only"} if g == 4 else {})
        con = Console(g, net, loop, zones)
        con.rng = rng
        con.fragment = rng.random() < 0.4
        con.noisy = rng.random() < 0.4
        con._watch()
        ct = loop.create_task(con.serve())
        M = con.M
        sock = S.AirTouchSocket(loop, "console", 9004 if g == 4 else 9005, con.reg)
        at = getattr(M["api"], f"AirTouch{g}")(loop, "id", "serial", "name", sock)
        net.default = ("accept", rng.choice([0.0, 0.01, 0.2]))
        slow = rng.choice([0.0, 0.0, 0.005, 0.3])

        async def slow_sub(_):
            if slow:
                await asyncio.sleep(slow)

        def note(kind, what):
            viol.append((kind, what, round(loop.time(), 4)))

        def all_zones():
            return [z for ac in at.air_conditioners for z in ac.zones]

        async def do_init(expect_answer):
            stats["inits"] += 1
            t0 = loop.time()
            try:
                r = await at.init()
            except BaseException as e:  # noqa: BLE001
                note("C09", f"init raised {type(e).__name__}: {e}")
                return False
            dt = loop.time() - t0
            if dt > 5.0 + 1e-6:
                note("C09", f"init returned after {dt} s")
            if r is not at.initialised:
                note("C09", f"init returned {r} but initialised is {at.initialised}")
            if r:
                stats["inits_true"] += 1
                zs = all_zones()
                if sorted(z.zone_id for z in zs) != sorted(zones) or len(at.air_conditioners) != 1:
                    note("C09", f"model after init: zones {sorted(z.zone_id for z in zs)} ACs {len(at.air_conditioners)}; console described {sorted(zones)} / 1")
                for z in zs:
                    z.subscribe(slow_sub)
            elif expect_answer:
                note("C09", f"init returned False after {dt} s against a console that answers every request (state {at._state.name})")
            return r

        async def do_shutdown(check=True):
            stats["shutdowns"] += 1
            try:
                await at.shutdown()
            except BaseException as e:  # noqa: BLE001
                note("C15", f"shutdown raised {type(e).__name__}: {e}")
            n_att, n_bytes = net.attempts, sum(len(w.data) for w in net.writers.values())
            idle = rng.choice([0.0, 0.01, 3.0, 400.0, 1000.0])
            for step in (0.0, idle):
                await asyncio.sleep(step)
                bad = []
                if at.initialised:
                    bad.append("initialised")
                if at._state.name != "CLOSED":
                    bad.append(f"state {at._state.name}")
                if sock.is_open or sock.is_connected:
                    bad.append(f"socket open={sock.is_open} connected={sock.is_connected}")
                if net.open_unclosed():
                    bad.append(f"{len(net.open_unclosed())} connection(s) left open")
                if step >= 3.0 and client_tasks(loop):
                    bad.append(f"tasks alive: {client_tasks(loop)}")
                if bad:
                    note("C15", f"{step} s after shutdown() returned: " + ", ".join(bad))
                    break
            if net.attempts != n_att:
                note("C15", "a connection was attempted after shutdown() returned")
            if sum(len(w.data) for w in net.writers.values()) != n_bytes:
                note("C15", "bytes were written after shutdown() returned")

        async def user_command():
            try:
                if at.initialised and all_zones() and rng.random() < 0.5:
                    z = rng.choice(all_zones())
                    await z.set_power(rng.choice(list(z.supported_power_states)))
                elif at.initialised and at.air_conditioners:
                    ac = at.air_conditioners[0]
                    await ac.set_target_temperature(rng.choice([18.0, 22.0, 25.0]))
            except (S.NotOpenError, S.QueueOverflowError, ValueError):
                pass
            except BaseException as e:  # noqa: BLE001
                note("C11", f"a setter raised {type(e).__name__}: {e}")

        # ---- the script -------------------------------------------------------------------------------------------
        n_sessions = rng.randint(1, 3)
        for session in range(n_sessions):
            con.silent = rng.random() < 0.12
            mid = rng.random() < 0.45
            if mid:
                # shutdown somewhere inside the handshake: at a frame instant plus a few turns of the loop
                it = loop.create_task(do_init(expect_answer=False))
                await asyncio.sleep(rng.choice([0.0, 0.01, 0.02, 0.03, 0.04, 0.05, 0.06, 0.07, 0.08, 0.2, 0.21, 0.25]))
                for _ in range(rng.randint(0, 6)):
                    await asyncio.sleep(0)
                stats["mid_handshake_shutdowns"] += 1
                trace.append(("shutdown-mid-handshake", round(loop.time(), 4), at._state.name))
                await do_shutdown()
                await it
                continue
            ok = await do_init(expect_answer=not con.silent)
            trace.append(("init", ok, round(loop.time(), 3)))
            if ok and rng.random() < 0.12:
                # steered: an outage that ends around a heartbeat tick, ten commands buffered meanwhile, and an application that
                # takes a moment over the reconnection - the tick finds the socket marked connected and the buffer still full
                stats["outage_at_tick"] = stats.get("outage_at_tick", 0) + 1
                t_mon = loop.time()
                delay = rng.choice([1.0, 3.0, 4.0])

                async def slow_reconnect(*, connected):
                    if connected:
                        await asyncio.sleep(delay)
                sock.subscribe_on_connection_changed(slow_reconnect)
                n_ref = rng.randint(1, 3)
                await asyncio.sleep(300.0 - 2.0 * n_ref - rng.choice([0.5, 1.0, 2.0]))
                net.script = [("refuse", 0.0)] * n_ref
                if sock._reader is not None:
                    sock._reader.feed_eof()
                await asyncio.sleep(0.2)
                for _ in range(12):
                    await user_command()
                c0 = None
                await asyncio.sleep(40.0)           # everything buffered has been written or has expired by now
                c0 = len(net.opened)
                n_req = len(con.requests)
                await asyncio.sleep(1500.0)
                hb = [t for t, c, n in con.requests[n_req:] if n == "ConsoleVersionRequest"]
                stats["heartbeats"] += len(hb)
                if len(hb) < 4:
                    note("C08", f"{len(hb)} heartbeats in the 1500 s after an outage that ended around a tick (monitoring since {round(t_mon, 2)})")
                if len(net.opened) != c0:
                    note("C08", f"{len(net.opened) - c0} reconnection(s) on a link that stayed up and answers every heartbeat, after an outage around a tick")
                sock.unsubscribe_on_connection_changed(slow_reconnect)
                await do_shutdown()
                continue
            if ok:
                # a stretch of normal life
                t_start, c_start = loop.time(), len(net.opened)
                healthy = True
                cmds_in_outage = 0
                for _ in range(rng.randint(0, 8)):
                    op = rng.random()
                    if op < 0.35:
                        await asyncio.sleep(rng.choice([0.0, 1.0, 120.0, 301.0, 700.0]))
                    elif op < 0.6:
                        await user_command()
                    elif op < 0.8 and sock._reader is not None:
                        healthy = False
                        stats["link_losses"] += 1
                        n_ref = rng.randint(0, 3)
                        net.script = [("refuse", 0.0)] * n_ref
                        t_loss, n_req = loop.time(), len(con.requests)
                        sock._reader.feed_eof()
                        con.temp += 1.0          # the console changes while we are away
                        await asyncio.sleep(0.5)
                        for _ in range(rng.randint(0, 6)):
                            await user_command()
                        await asyncio.sleep(2.0 * n_ref + 3.0)
                        if not sock.is_connected:
                            note("C07", f"not connected {2.0 * n_ref + 3.5} s after a link loss with {n_ref} refusals")
                        new = [r[2] for r in con.requests[n_req:]]
                        if at.initialised and not ("AcStatusRequest" in new and ("GroupStatusRequest" in new or "ZoneStatusRequest" in new)):
                            note("C14", f"no refresh after the reconnection (requests since the loss: {new})")
                        else:
                            await asyncio.sleep(0.5)
                            if at.initialised and at.air_conditioners and abs(at.air_conditioners[0].current_temperature - con.temp) > 1e-6:
                                note("C14", f"model shows {at.air_conditioners[0].current_temperature} after the refresh, console reports {con.temp}")
                    else:
                        # the console reports a change, then repeats the same report: the model follows (C10), subscribers hear
                        # about the change and not about the repetition (C12)
                        calls = []

                        async def listener(ident):
                            calls.append(ident)
                        ac = at.air_conditioners[0] if at.air_conditioners else None
                        if ac is not None and sock.is_connected:
                            ac.subscribe(listener)
                            con.temp += 0.5
                            for nm in net.open_unclosed():
                                con.push(nm, con.ac_status())
                                con.push(nm, con.zone_status())
                            await asyncio.sleep(0.1 + 2 * slow * max(1, len(zones)))
                            if sock.is_connected:
                                if abs(ac.current_temperature - con.temp) > 1e-6 or any(abs((z.current_temperature or 0) - con.temp) > 1e-6 for z in ac.zones):
                                    note("C10", f"console reported {con.temp}; AC shows {ac.current_temperature}, zones {[z.current_temperature for z in ac.zones]}")
                                if not calls:
                                    note("C12", "an AC subscriber heard nothing about a changed AC / zone report")
                                n_calls = len(calls)
                                for nm in net.open_unclosed():
                                    con.push(nm, con.ac_status())
                                    con.push(nm, con.zone_status())
                                await asyncio.sleep(0.1 + 2 * slow * max(1, len(zones)))
                                if len(calls) != n_calls and sock.is_connected:
                                    note("C12", f"{len(calls) - n_calls} notification(s) for a repeated, identical report")
                            ac.unsubscribe(listener)
                        stats["reports"] = stats.get("reports", 0) + 1
                if healthy:
                    # heartbeat: every 300 s from the start of monitoring, no reset of the healthy link
                    await asyncio.sleep(1000.0)
                    hb = [t for t, c, n in con.requests if n == "ConsoleVersionRequest" and t > t_start + 0.5]
                    stats["heartbeats"] += len(hb)
                    span = loop.time() - t_start
                    if len(hb) < int((span - 1.0) // 300.0):
                        note("C08", f"{len(hb)} heartbeats in {span} s on a healthy link")
                    if any(abs((b - a) - 300.0) > 0.1 for a, b in zip(hb, hb[1:])):
                        note("C08", f"heartbeat spacing {[round(b - a, 2) for a, b in zip(hb, hb[1:])]}")
                    if len(net.opened) != c_start:
                        note("C08", f"{len(net.opened) - c_start} reconnection(s) on a link that stayed up and answered every heartbeat")
            if rng.random() < 0.85 or session + 1 < n_sessions:
                await do_shutdown()
        ct.cancel()
        return None

    logging.disable(logging.CRITICAL)
    try:
        vloop.run(main)
    finally:
        logging.disable(logging.NOTSET)
    return viol, stats, trace


def main():
    seed = int(sys.argv[1]) if len(sys.argv) > 1 else 1
    runs = int(sys.argv[2]) if len(sys.argv) > 2 else 100
    violations = []
    tot = {}
    for i in range(runs):
        try:
            v, st, trace = one_run(seed * 100003 + i)
        except Exception as e:  # noqa: BLE001
            violations.append({"run": i, "seed": seed * 100003 + i, "error": f"{type(e).__name__}: {e}"})
            continue
        for k, x in st.items():
            tot[k] = tot.get(k, 0) + x
        if v:
            violations.append({"run": i, "seed": seed * 100003 + i, "violations": [list(map(str, x)) for x in v[:4]], "trace": trace[:20]})
    print(json.dumps({"runs": runs, "violations": violations[:5], "n_violating_runs": len(violations), "stats": tot}))


if __name__ == "__main__":
    main()
