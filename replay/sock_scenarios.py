"""Concrete schedules that drive the real AirTouchSocket on the virtual-time loop.

The symbolic counter-model of a coroutine obligation is a *state* reached after interference, not a
schedule.  Each function here is a schedule from the small library DESIGN.md 6.2 speaks of: it runs
the real code and evaluates the obligation of the same name natively.  Returns {obligation: held?}.
"""
from __future__ import annotations

import asyncio
import struct

from replay import vloop


def _at5():
    import pyairtouch.at5.comms.registry as reg
    import pyairtouch.at5.comms.xC0_ctrl_status as c0
    import pyairtouch.at5.comms.xC020_zone_ctrl as zc
    import pyairtouch.at5.comms.xC021_zone_status as zs
    return reg, c0, zc, zs


def _at4():
    import pyairtouch.at4.comms.registry as reg
    import pyairtouch.at4.comms.x2B_group_status as gs
    import pyairtouch.at4.comms.x2D_ac_status as acs
    return reg, gs, acs


def _sock(loop, registry):
    import pyairtouch.comms.socket as S
    return S, S.AirTouchSocket(loop, "console", 9005, registry)


def unencodable_at5_message():
    reg, c0, zc, zs = _at5()
    # set-point 50.0 degC -> raw 400 does not fit the byte: struct.error in the encoder
    return c0.ControlStatusMessage(zc.ZoneControlMessage([zc.ZoneControlData(
        zone_number=0, zone_power=zc.ZonePowerControl.UNCHANGED, zone_setting=zc.ZoneSetPointControl(set_point=50.0))]))


def drain_exception_escape():
    """Unencodable message queued; drain on a connected socket."""
    reg, c0, zc, zs = _at5()
    out = {}

    async def main(loop, net):
        S, sock = _sock(loop, reg.INSTANCE)
        await sock.open_socket()
        await asyncio.sleep(0.1)  # connected
        # queue directly (send() itself would raise in size()? no: size is static) - use the public API
        try:
            await sock.send(unencodable_at5_message(), S.RETRY_IDEMPOTENT)
            out["raised"] = None
        except KeyboardInterrupt:
            raise
        except BaseException as e:  # noqa: BLE001
            out["raised"] = type(e).__name__
        await sock.close()

    vloop.run(main)
    return {"the drain lets no exception out (an escaping exception kills the connect / send that called it)": out.get("raised") is None}


def connect_wedged_by_unencodable():
    """The same message queued while disconnected: after the connection comes up the read loop must run."""
    reg, c0, zc, zs = _at5()
    got = []
    out = {}

    async def main(loop, net):
        S, sock = _sock(loop, reg.INSTANCE)
        net.script = [("refuse", 0.0)]

        async def on_msg(h, m):
            got.append(m)
        sock.subscribe_on_message_received(on_msg)
        await sock.open_socket()
        await asyncio.sleep(0.1)
        await sock.send(unencodable_at5_message(), S.RETRY_IDEMPOTENT)  # queued: not connected
        await asyncio.sleep(5.0)  # retry at t=2 connects
        out["connected"] = sock.is_connected
        # feed one valid frame: a zone status request echo
        if net.opened:
            rd = net.readers[net.opened[-1]]
            msg = c0.ControlStatusMessage(zs.ZoneStatusRequest())
            enc = reg.INSTANCE.get_encoder(msg.message_id)
            hdr = reg.INSTANCE.header_factory.create_from_message(msg, enc.size(msg))
            hb = reg.INSTANCE.header_encoder.encode(hdr)
            pb = enc.encode(hdr, msg)
            rd.feed_data(hb.header_bytes + pb + reg.INSTANCE.checksum_calculator.calculate(hb.checksum_data + pb))
        await asyncio.sleep(1.0)
        await sock.close()

    vloop.run(main)
    return {"the read loop is started exactly once; the only other task may be one delayed reconnect (link lost again meanwhile)":
            bool(out.get("connected")) and len(got) == 1}


def drain_resumes_disconnected():
    """Peer loss while drain() is suspended; the resumed drain pops the next entry without a link."""
    reg, gs, acs = _at4()
    out = {"write_without_writer": 0, "lost": None}

    async def main(loop, net):
        S, sock = _sock(loop, reg.INSTANCE)
        await sock.open_socket()
        await asyncio.sleep(0.1)
        wr = net.writers[net.opened[-1]]
        gate = asyncio.Event()
        wr.drain_gate = gate
        orig_write = sock._write

        async def spy(header, message):
            if sock._writer is None:
                out["write_without_writer"] += 1
            return await orig_write(header, message)
        sock._write = spy
        net.default = ("accept", 1.0)  # slow reconnect
        t1 = loop.create_task(sock.send(gs.GroupStatusRequest(), S.RETRY_IDEMPOTENT))
        await asyncio.sleep(0)
        # second message is appended while the first drain is suspended in drain()
        sock._enqueue_message(S._MessageQueueEntry(
            header=reg.INSTANCE.header_factory.create_from_message(acs.AcStatusRequest(), 0),
            message=acs.AcStatusRequest(), retries_remaining=2, expiry=loop.time() + 30.0))
        await sock._disconnect()  # what the read loop does on EOF (first half of reset_connection)
        sock._schedule(sock._connect())
        gate.set()
        await asyncio.sleep(5.0)
        out["second_written"] = any(b"\x2d" in w for n in net.opened[1:] for w in net.writers[n].writes)
        out["still_queued"] = len(sock._message_queue)
        await sock.close()

    vloop.run(main)
    return {"_write is only called while a connection exists (otherwise the message is lost as an 'encoding error')":
            out["write_without_writer"] == 0}


def connect_after_close():
    """close() during the 2 s back-off."""
    reg, gs, acs = _at4()
    out = {}

    async def main(loop, net):
        S, sock = _sock(loop, reg.INSTANCE)
        net.script = [("refuse", 0.0)]
        await sock.open_socket()
        await asyncio.sleep(0.5)
        await sock.close()
        t_close = loop.time()
        await asyncio.sleep(10.0)
        out["late_attempts"] = [t for t in net.attempt_times if t > t_close]
        out["connected"] = sock.is_connected
        out["unclosed"] = net.open_unclosed()

    vloop.run(main)
    return {"a connection is only attempted while the socket is open (shutdown is final)": not out["late_attempts"],
            "a connection that arrives after close() or after another connect won is closed again and not adopted":
                not out["connected"] and not out["unclosed"]}


def close_while_connecting():
    """close() while open_connection is in flight (latency 1 s)."""
    reg, gs, acs = _at4()
    out = {}

    async def main(loop, net):
        S, sock = _sock(loop, reg.INSTANCE)
        net.script = [("accept", 1.0)]
        await sock.open_socket()
        await asyncio.sleep(0.5)
        await sock.close()
        await asyncio.sleep(10.0)
        out["connected"] = sock.is_connected
        out["unclosed"] = net.open_unclosed()

    vloop.run(main)
    return {"a connection that arrives after close() or after another connect won is closed again and not adopted":
            not out["connected"] and not out["unclosed"]}


def double_reset():
    """Two resets in the same loop turn: two connects in flight."""
    reg, gs, acs = _at4()
    out = {}

    async def main(loop, net):
        S, sock = _sock(loop, reg.INSTANCE)
        await sock.open_socket()
        await asyncio.sleep(0.1)
        net.default = ("accept", 0.5)
        await asyncio.gather(sock.reset_connection(), sock.reset_connection())
        await asyncio.sleep(5.0)
        out["unclosed"] = net.open_unclosed()
        out["connected"] = sock.is_connected
        await sock.close()

    vloop.run(main)
    return {"a connection that arrives after close() or after another connect won is closed again and not adopted":
            len(out["unclosed"]) <= 1}


def requeue_before_reset():
    """A write fails on an entry with retries left while the disconnect notification is slow: ten more sends arrive
    while the reset is suspended.  The failed entry must already be back in the buffer - the tenth of them is refused."""
    reg, gs, acs = _at4()
    out = {}

    async def main(loop, net):
        S, sock = _sock(loop, reg.INSTANCE)

        async def slow(*, connected):
            if not connected:
                await asyncio.sleep(1.0)
        sock.subscribe_on_connection_changed(slow)
        net.script = [("accept", 0.0), ("refuse", 0.0), ("refuse", 0.0), ("refuse", 0.0)]
        await sock.open_socket()
        await asyncio.sleep(0.1)
        sock._writer.fail_drain_after = 1
        first = loop.create_task(sock.send(acs.AcStatusRequest(), S.RETRY_IDEMPOTENT))
        await asyncio.sleep(0.2)               # the write failed; the reset is suspended in the slow notification
        refused, held = 0, []
        for _ in range(10):
            try:
                await sock.send(gs.GroupStatusRequest(), S.RETRY_IDEMPOTENT)
            except S.QueueOverflowError:
                refused += 1
            held.append(len(sock._message_queue))
        await first
        out["refused"], out["max_held"] = refused, max(held + [len(sock._message_queue)])
        await sock.close()

    vloop.run(main)
    return {"...before the reset can suspend: whatever is accepted while the link is being reset is counted against a buffer "
            "that already holds the failed entry (the capacity rule), and queues up behind it (the order)":
            out["refused"] == 1 and out["max_held"] <= 10}


def _drain_targeted():
    from replay.more_scenarios import drain_scenarios
    return drain_scenarios()


def _connect_errors():
    from replay.more_scenarios import connect_error_scenarios
    return connect_error_scenarios()[0]


LIBRARY = {
    "drain": [drain_exception_escape, drain_resumes_disconnected, _drain_targeted, requeue_before_reset],
    "connect": [connect_after_close, close_while_connecting, double_reset, connect_wedged_by_unencodable, _connect_errors],
}


def run_library(h, key):
    """Native reading of a socket obligation set: run every schedule of the library entry and state the
    obligations they evaluate."""
    for fn in LIBRARY[key]:
        try:
            res = fn()
        except KeyboardInterrupt:
            raise   # the wall-clock watchdog of the native reading (pyvc.replay.NativeTimeout)
        except BaseException as e:  # noqa: BLE001
            h.oblige(f"schedule {fn.__name__} runs", False, detail=f"{type(e).__name__}: {e}")
            continue
        for name, held in res.items():
            h.oblige(name, bool(held), detail=f"schedule {fn.__name__}")
