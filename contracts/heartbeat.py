"""C08: heartbeat.  pyairtouch/comms/heartbeat.py against the deadline contract.

Clock: ghost loop time, advances only at suspensions.  asyncio.timeout(d) / .reschedule(t) are the
assumed model of pyvc.aio.TimeoutCM: `when` is None or an absolute loop time; a suspended body is
interrupted with TimeoutError exactly when the clock reaches `when` (never if `when` is None).

Deadline invariant proved on the real `_heartbeat_timeout_loop`:
   at every `await self._response_received.wait()`   when == L + config.timeout
   where L = the later of (entry of the monitoring cycle, last matching response).
With the model above this gives both directions of the property: 330 s of silence from any origin
interrupt the wait (=> reset iff connected), and a response before the deadline moves it.
"""
from pyvc.values import PyExc, unmodelled as _unmodelled  # noqa: E402
from pyvc import aio, sym
from pyvc.sym import And, Or, Not, Implies, ite
from pyvc.vc import oset
from pyvc.values import Coroutine, Instance, Opaque
from pyvc.interp import PathEnd, LoopCut
from pyvc.world import World, AbsSet

HB = "pyairtouch.comms.heartbeat"
M = HB + ":HeartbeatManager."
SOCK = "pyairtouch.comms.socket"


class _Sock:
    """The socket as the heartbeat manager sees it (its public contract)."""

    def __init__(self, world, h):
        self.w = world
        self.h = h
        self.is_connected = h.bool("is_connected0")
        self.n = 0

    def py_getattr(self, it, name):
        from pyvc.values import Builtin
        w = self.w
        if name == "is_connected":
            return self.is_connected
        if name in ("send", "reset_connection"):
            def call(*a, **k):
                def run(it2):
                    w.event("call", name, list(a), dict(k), self.is_connected)
                    aio.suspend(it2, ("call", name))
                    if name == "send":
                        # by the contract of AirTouchSocket.send: accepted, or refused with one of its two documented errors
                        # (closed meanwhile; ten unexpired messages held, e.g. buffered during an outage and not yet drained)
                        kk = w.nondet(3, "send outcome")
                        if kk:
                            cls = self.h.get(SOCK + (":NotOpenError" if kk == 1 else ":QueueOverflowError"))
                            raise PyExc(it2.instantiate(cls, [], {}))
                    return None
                return aio.Awaitable(name, run)
            return Builtin("socket." + name, call)
        if name in ("subscribe_on_message_received", "unsubcribe_on_message_received"):
            return Builtin("socket." + name, lambda cb: w.event(name, cb))
        raise _unmodelled(self, name)

    def havoc(self, reason):
        self.n += 1
        self.is_connected = self.h.bool(f"is_connected{self.n}")


def _manager(h, interval=None, timeout=None):
    it = h.it
    w = World(it)
    sock = _Sock(w, h)
    w.havocs.append(sock.havoc)
    msg = Instance(h.get("pyairtouch.comms:UnsupportedMessage"), {"unsupported_id": 1, "raw_data": None})
    matcher = h.int("match_result", 0, 1)
    cfg_kwargs = {}
    interval = h.real("interval", 1, 100000) if interval is None else interval
    timeout = h.real("timeout", 1, 100000) if timeout is None else timeout
    from pyvc.values import Builtin
    match_calls = []

    def response_match(m):
        match_calls.append(m)
        return matcher == 1
    cfg = h.new(HB + ":HeartbeatConfig", message=msg, response_match=Builtin("response_match", response_match),
                interval=interval, timeout=timeout)
    mgr = h.new(HB + ":HeartbeatManager", loop=aio.LoopModel(), socket=sock, config=cfg)
    return w, sock, cfg, mgr, msg, matcher, match_calls


@oset("heartbeat.defaults", ["C08"], [])
def defaults(h):
    h.oblige("default heartbeat interval is 300 s", h.get(HB + ":DEFAULT_HEARTBEAT_INTERVAL") == 300.0)
    h.oblige("default response delay is 30 s", h.get(HB + ":DEFAULT_HEARTBEAT_RESPONSE_DELAY") == 30.0)
    cfg = h.new(HB + ":HeartbeatConfig", message=None, response_match=None)
    h.oblige("default config: interval 300 s, timeout 330 s", And(h.eq(h.attr(cfg, "interval"), 300.0), h.eq(h.attr(cfg, "timeout"), 330.0)))
    pol = h.get(SOCK + ":RETRY_CONNECTED")
    h.oblige("RETRY_CONNECTED: no retry, one second", And(h.attr(pol, "max_retries") == 0, h.eq(h.attr(pol, "max_lifetime"), 1.0)))


def run_cycle(h, it2, node, env, name):
    """Execute the body of a `while True` task loop once; obligation `name`: control comes back to the loop head."""
    from pyvc.interp import _Break, _Return, _Continue
    from pyvc.values import PyExc
    try:
        try:
            it2.exec_block(node.body, env)
        except _Continue:
            pass            # `continue` is a way back to the loop head
    except (PyExc, _Break, _Return) as e:
        what = e.value.cls.name if isinstance(e, PyExc) else type(e).__name__.strip("_").lower()
        h.oblige(name, False, kind="loop-preserve", detail=f"the loop body is left by {what}")
        raise
    h.oblige(name, True, kind="loop-preserve")


def install_deadline_loop(h, w, F, T, ev):
    """Loop contracts for the pattern
           while True:
               try:
                   async with asyncio.timeout(<T>) as timeout:
                       while True:
                           await <event>.wait(); timeout.reschedule(loop.time() + <T>); <event>.clear()
               except TimeoutError: <handler>
    on function F.  Obligations (stated here): the deadline is armed at entry (when == now + T), a
    response moves it to exactly (response time + T) in the same step and clears the flag.
    The caller runs F and inspects the events ("deadline", when) / handler effects."""
    it = h.it
    ev.flag = h.bool("flag0")
    ghost = {"L": None}
    state = {"outer": 0}

    def cur_timeout():
        st = it.path.ghost.get("timeouts", [])
        return st[-1] if st else None

    def wait_hook(it2, event):
        state["waits"] = state.get("waits", 0) + 1
        cm = cur_timeout()
        h.oblige("the response event is only ever awaited under an armed deadline (silence can always be detected)",
                 cm is not None and cm.when is not None, kind="site")
        if it2.path.branch(event.flag) if not isinstance(event.flag, bool) else event.flag:
            return True  # already set: no suspension
        aio.suspend(it2, ("event.wait",))
        now1 = aio.now(it2)
        when = cm.when if cm is not None else None
        if when is None:
            # nothing can interrupt the wait: either a response arrives or the coroutine sleeps forever
            event.flag = True
            it2.path.event("woken", now1)
            return True
        k = w.nondet(2, "wait outcome")
        if k == 0:
            it2.path.assume(now1 < when)
            event.flag = True
            it2.path.event("woken", now1)
            return True
        it2.path.assume(h.eq(now1, when))  # the deadline is reached first
        it2.path.event("deadline", when)
        raise it2.exc("TimeoutError")

    it.event_wait_hook = wait_hook

    def outer_hook(it2, node, env):
        # one arbitrary monitoring cycle: any clock value, any flag, any connection state
        h.oblige("the monitoring loop runs until cancelled (its loop test is constantly true)", it2.eval(node.test, env) is True, kind="loop-test")
        if state["outer"] == 0:
            state["outer"] = 1
            ghost["L"] = aio.now(it2)
            run_cycle(h, it2, node, env, "a monitoring cycle always ends back at the loop head: expiry is handled inside the loop, nothing "
                      "(no exception, break or return) ends the monitoring task except cancellation")
            raise LoopCut()
        return None

    def inner_hook(it2, node, env):
        cm = cur_timeout()
        t_enter = ghost["L"]
        h.oblige("the response loop only ends through the deadline (its loop test is constantly true)", it2.eval(node.test, env) is True, kind="loop-test")
        h.oblige("the deadline is armed when monitoring starts (and again after every expiry): when == now + timeout",
                 And(cm is not None, cm.when is not None, h.eq(cm.when, t_enter + T) if cm is not None and cm.when is not None else False),
                 kind="loop-init")
        # arbitrary iteration of the response loop: invariant when == L + timeout
        aio.advance_clock(it2, at_least=0)
        L = h.real("L", 0, None)
        it2.path.assume(L <= aio.now(it2))
        it2.path.assume(aio.now(it2) < L + T)  # the deadline has not passed yet (else we would not be here)
        ghost["L"] = L
        if cm is not None:
            cm.when = L + T
        ev.flag = h.bool("flag_k")
        w0 = state.get("waits", 0)
        from pyvc.interp import _Continue
        try:
            it2.exec_block(node.body, env)
        except _Continue:
            pass
        h.oblige("every turn of the response loop waits for the response event (it never pushes the deadline, nor spins, without a response)",
                 state.get("waits", 0) == w0 + 1, kind="loop-preserve")
        t_r = aio.now(it2)  # a response was processed
        h.oblige("a response pushes the deadline to exactly (time of the response + timeout)",
                 And(cm is not None, h.eq(cm.when, t_r + T) if cm is not None and cm.when is not None else False), kind="loop-preserve")
        h.oblige("the response flag is cleared for the next wait", h.eq(ev.flag, False), kind="loop-preserve")
        li = _last_index(it2.path.events, "woken")
        h.oblige("the deadline is re-armed in the same step in which the response is seen (no suspension in between)",
                 not any(e[0] == "suspend" for e in it2.path.events[li:]) if li >= 0 else True, kind="loop-preserve")
        raise PathEnd()

    it.loop_hooks[(F, 0)] = outer_hook
    # the response loop is located by its shape (a `while` that waits on an event and reschedules a deadline), anywhere
    # in the module of F: it may live in F itself or in a private helper F calls (refactoring-robust)
    import ast as _ast
    modname = F.split(":")[0]

    def is_response_loop(fullname, node):
        return (fullname.startswith(modname + ":") and isinstance(node, _ast.While)
                and any(isinstance(n, _ast.Attribute) and n.attr == "reschedule" for n in _ast.walk(node))
                and any(isinstance(n, _ast.Attribute) and n.attr == "wait" for n in _ast.walk(node))
                and not any(isinstance(n, (_ast.AsyncWith, _ast.Try)) for n in _ast.walk(node)))
    it.loop_matchers.append((is_response_loop, inner_hook))


@oset("heartbeat._heartbeat_timeout_loop", ["C08"], [M + "_heartbeat_timeout_loop"],
      trusted=["asyncio.timeout / Timeout.reschedule / Event.wait as modelled in pyvc/aio.py (deadline semantics)"])
def timeout_loop(h):
    if not h.symbolic:
        from replay.hb_scenarios import run_library
        from replay import more_scenarios as MS
        run_library(h)
        return MS.oblige_from(h, [MS.heartbeat_timeout_more])
    it = h.it
    w, sock, cfg, mgr, msg, matcher, _ = _manager(h)
    T = h.attr(cfg, "timeout")
    ev = h.attr(mgr, "_response_received")
    install_deadline_loop(h, w, M + "_heartbeat_timeout_loop", T, ev)
    r = h.method(mgr, "_heartbeat_timeout_loop")
    h.oblige("the monitoring task lets no exception out", r.ok)
    evs = it.path.events
    dl = [e for e in evs if e[0] == "deadline"]
    resets = [e for e in evs if e[0] == "call" and e[1] == "reset_connection"]
    if dl:
        if resets:
            h.oblige("a reset after expiry happens once, and only on a socket that is connected at that moment",
                     And(len(resets) == 1, resets[0][4]))
        else:
            h.oblige("expiry while connected resets the connection", Not(sock.is_connected))
    else:
        h.oblige("without an expired deadline the heartbeat never resets the connection", len(resets) == 0)
    h.cover("timeout loop explored")


def _last_index(events, kind):
    for i in range(len(events) - 1, -1, -1):
        if events[i][0] == kind:
            return i
    return -1


def _truthy_at_deadline(h, sock, evs):
    # the `if self._socket.is_connected` test follows the TimeoutError without suspension
    return h.branch(sock.is_connected) if not isinstance(sock.is_connected, bool) else sock.is_connected


@oset("heartbeat._heartbeat_loop", ["C08", "C02"], [M + "_heartbeat_loop", M + "_send_heartbeat_message"],
      assumptions=["socket.send by its contract: returns, or raises NotOpenError / QueueOverflowError; encoding errors cannot occur for the "
                   "fixed heartbeat message (its codec contracts)"],
      trusted=["asyncio.gather(sleep(d), c) completes when both are done, i.e. not before d seconds"])
def heartbeat_loop(h):
    if not h.symbolic:
        from replay import more_scenarios as MS
        return MS.oblige_from(h, [MS.heartbeat_scenarios], {
            "while not connected no heartbeat is sent",
            "the heartbeat loop runs until cancelled, whatever the connection state (its loop test is constantly true)",
            "a heartbeat cycle always ends back at the loop head (nothing but cancellation ends the heartbeat task)",
            "while connected exactly one heartbeat is sent per cycle: the configured message with RETRY_CONNECTED",
            "each cycle sleeps exactly the configured interval"})
    it = h.it
    w, sock, cfg, mgr, msg, matcher, _ = _manager(h)
    interval = h.attr(cfg, "interval")
    state = {"n": 0}
    t = {}

    def hook(it2, node, env):
        h.oblige("the heartbeat loop runs until cancelled, whatever the connection state (its loop test is constantly true)",
                 it2.eval(node.test, env) is True, kind="loop-test")
        if state["n"] == 0:
            state["n"] = 1
            t["start"] = aio.now(it2)
            t["connected"] = sock.is_connected
            run_cycle(h, it2, node, env, "a heartbeat cycle always ends back at the loop head (nothing but cancellation ends the heartbeat task)")
            t["end"] = aio.now(it2)
            raise LoopCut()
        return None

    it.loop_hooks[(M + "_heartbeat_loop", 0)] = hook
    sent = []

    def gather_hook(it2, aws):
        # model: run the send first (it starts immediately), the sleep determines the minimum duration
        out = []
        sleeps = [a for a in aws if isinstance(a, aio.Awaitable) and a.label == "sleep"]
        others = [a for a in aws if a not in sleeps]
        for a in others:
            out.append(it2.await_value(a))
        for a in sleeps:
            out.append(it2.await_value(a))
        return out

    it.gather_hook = gather_hook
    r = h.method(mgr, "_heartbeat_loop")
    evs = it.path.events
    sends = [e for e in evs if e[0] == "call" and e[1] == "send"]
    sleeps = [e for e in evs if e[0] == "sleep"]
    h.oblige("the heartbeat task lets no exception out", r.ok)
    h.oblige("each cycle sleeps exactly the configured interval", And(len(sleeps) == 1, h.eq(sleeps[0][1], interval) if sleeps else False))
    if h.branch(t["connected"]) if not isinstance(t["connected"], bool) else t["connected"]:
        pol = h.get(SOCK + ":RETRY_CONNECTED")
        h.oblige("while connected exactly one heartbeat is sent per cycle: the configured message with RETRY_CONNECTED",
                 And(len(sends) == 1, sends[0][3].get("message") is msg if sends else False,
                     sends[0][3].get("retry_policy") is pol if sends else False))
    else:
        h.oblige("while not connected no heartbeat is sent", len(sends) == 0)
    h.cover("heartbeat cycle explored")


@oset("heartbeat._message_received", ["C08"], [M + "_message_received"])
def message_received(h):
    if not h.symbolic:
        from replay import native_readings as NR
        return NR.heartbeat_message_received(h)
    w, sock, cfg, mgr, msg, matcher, match_calls = _manager(h)
    ev = h.attr(mgr, "_response_received")
    ev.flag = False
    m = Instance(h.get("pyairtouch.comms:UnsupportedMessage"), {"unsupported_id": 2, "raw_data": None})
    r = h.method(mgr, "_message_received", None, m)
    h.oblige("no exception", r.ok)
    h.oblige("the matcher is consulted with the received message", And(len(match_calls) == 1, match_calls[0] is m if match_calls else False))
    h.oblige("a matching message marks a response, any other message does not", h.eq(ev.flag, matcher == 1))


START_ATOMIC = ("start completes without suspending (the last handshake step relies on it: it creates the AT4 poll task and marks the "
                "object initialised right after awaiting start, with no look at what happened meanwhile)")


@oset("heartbeat.start-stop", ["C08", "C15"], [M + "start", M + "stop"],
      trusted=["task.cancel(); await task leaves the task finished (none of the loops catches CancelledError)"])
def start_stop(h):
    if not h.symbolic:
        from replay import more_scenarios as MS
        return MS.oblige_from(h, [MS.heartbeat_scenarios], {
            "stop raises nothing", "a second stop has no effect", "stop forgets the tasks and unsubscribes",
            "start creates the heartbeat task and the timeout task", "a second start has no effect", START_ATOMIC})
    it = h.it
    w, sock, cfg, mgr, msg, matcher, _ = _manager(h)
    h.oblige("constructing a manager has no effect on the socket or the loop (no subscription, no task): everything starts with start()",
             not [e for e in it.path.events if e[0] in ("create_task", "subscribe_on_message_received", "unsubcribe_on_message_received", "call")])
    mgr_b = h.new(HB + ":HeartbeatManager", loop=aio.LoopModel(), socket=sock, config=cfg)
    h.oblige("two managers share no state: each has its own response event and its own task list",
             And(h.attr(mgr, "_response_received") is not h.attr(mgr_b, "_response_received"),
                 h.attr(mgr, "_heartbeat_tasks") is not h.attr(mgr_b, "_heartbeat_tasks")))
    it.path.events.clear()
    s0 = w.suspensions
    r = h.method(mgr, "start")
    h.oblige("start raises nothing", r.ok)
    h.oblige(START_ATOMIC, w.suspensions == s0)
    tasks = [e[1] for e in it.path.events if e[0] == "create_task"]
    names = sorted(t.coro.func.name for t in tasks if isinstance(t.coro, Coroutine))
    h.oblige("start creates the heartbeat task and the timeout task", names == ["_heartbeat_loop", "_heartbeat_timeout_loop"])
    subs = [e for e in it.path.events if e[0] == "subscribe_on_message_received"]
    h.oblige("start subscribes _message_received", len(subs) == 1)
    n0 = len(it.path.events)
    r2 = h.method(mgr, "start")
    h.oblige("a second start has no effect", And(r2.ok, not any(e[0] in ("create_task", "subscribe_on_message_received") for e in it.path.events[n0:])))
    r3 = h.method(mgr, "stop")
    h.oblige("stop raises nothing", r3.ok)
    cancelled = [e[1] for e in it.path.events if e[0] == "task.cancel"]
    awaited = [e[1] for e in it.path.events if e[0] == "task.await"]
    h.oblige("stop cancels and awaits both tasks", And(all(t in cancelled for t in tasks), all(t in awaited for t in tasks), len(tasks) == 2))
    h.oblige("stop forgets the tasks and unsubscribes", And(h.length(h.attr(mgr, "_heartbeat_tasks")) == 0,
                                                           len([e for e in it.path.events if e[0] == "unsubcribe_on_message_received"]) == 1))
    n1 = len(it.path.events)
    r4 = h.method(mgr, "stop")
    h.oblige("a second stop has no effect", And(r4.ok, len(it.path.events) == n1))
    # a second session on the same object (init / shutdown / init): start must do all of it again
    n2 = len(it.path.events)
    r5 = h.method(mgr, "start")
    ev2 = it.path.events[n2:]
    names2 = sorted(e[1].coro.func.name for e in ev2 if e[0] == "create_task" and isinstance(e[1].coro, Coroutine))
    h.oblige("a start after a stop is a full start again: both tasks created and _message_received subscribed",
             And(r5.ok, names2 == ["_heartbeat_loop", "_heartbeat_timeout_loop"],
                 len([e for e in ev2 if e[0] == "subscribe_on_message_received"]) == 1))


@oset("heartbeat.reset-call-sites", ["C08"], [M + "_heartbeat_timeout_loop"], kind="frame")
def reset_sites(h):
    """Frame condition of the heartbeat contracts: the manager resets the connection nowhere but inside the monitoring
    task - `reset_connection` is referenced only in `_heartbeat_timeout_loop` or in private helpers that are (transitively)
    only used from it.  *When* that task resets (only after an expired deadline, only while connected) is the semantic
    contract `heartbeat._heartbeat_timeout_loop`, which executes the whole monitoring cycle including such helpers; what
    this set adds is that no other function of the module (the heartbeat loop, start, stop, the message handler) can."""
    import ast
    if h.symbolic:
        tree = h.loader.asts[HB]
    else:
        import inspect
        import pyairtouch.comms.heartbeat as m
        tree = ast.parse(inspect.getsource(m))
    funcs = {fn.name: fn for fn in ast.walk(tree) if isinstance(fn, (ast.FunctionDef, ast.AsyncFunctionDef))}

    def mentions(node, attr):
        return any(isinstance(n, (ast.Attribute, ast.Name)) and getattr(n, "attr", getattr(n, "id", None)) == attr for n in ast.walk(node))
    allowed = {"_heartbeat_timeout_loop"}
    changed = True
    while changed:
        changed = False
        for name, fn in funcs.items():
            if name in allowed:
                continue
            users = [o for o, f in funcs.items() if o != name and mentions(f, name)]
            if users and all(u in allowed for u in users):
                allowed.add(name)
                changed = True
    bad = [name for name, fn in funcs.items() if mentions(fn, "reset_connection") and name not in allowed]
    h.oblige("reset_connection is referenced only on the TimeoutError path of _heartbeat_timeout_loop (directly or through helpers used only there)",
             not bad and any(mentions(f, "reset_connection") for f in funcs.values()), detail=str(bad))
