"""Lemmas that justify the 'decifloat' abstraction (floats as exact reals) on the domains the codecs use.
Checked by exhaustive enumeration on CPython on every run (the same IEEE-754 doubles the package uses)."""
import datetime

from pyvc.vc import oset

PROPS = ["C03", "C04", "C05", "C10", "C11", "C19"]


@oset("float.lemmas", PROPS, [], kind="lemma",
      assumptions=["IEEE-754 double arithmetic of the interpreter running the check equals that of the interpreter running the package"])
def float_lemmas(h):
    K = range(-5000, 5001)
    h.oblige("F1  int(fl(k/10)*10.0 + 500) == k + 500   for k in -5000..5000 (temperature encoders)",
             all(int(k / 10 * 10.0 + 500) == k + 500 for k in K))
    h.oblige("F2  int(fl(k/10)*10.0 - 100) == k - 100   for k in -5000..5000 (AT5 set-point encoder)",
             all(int(k / 10 * 10.0 - 100) == k - 100 for k in K))
    h.oblige("F3  (r - 500)/10.0 and (r + 100)/10.0 are the doubles nearest to the exact quotient: fl((k)/10) for every raw value",
             all((r - 500) / 10.0 == (r - 500) / 10 and (r + 100) / 10.0 == (r + 100) / 10 for r in range(0, 8192)))
    h.oblige("F4  fl(k/10) is strictly increasing in k and compares with integers like k/10",
             all((k / 10 < (k + 1) / 10) and ((k / 10 > 150.0) == (k > 1500)) and ((k / 10 >= 0) == (k >= 0)) for k in K))
    h.oblige("F5  decode(encode(k/10)) == k/10 for temperatures and AT5 set-points",
             all(((int(k / 10 * 10.0 + 500)) - 500) / 10.0 == k / 10 for k in K) and
             all(((int(k / 10 * 10.0 - 100)) + 100) / 10.0 == k / 10 for k in range(100, 356)))
    h.oblige("F6  round(x, 1) on the 0.01 / 0.001 grids is a tenth within 0.05 of x; round(x) an integer within 0.5",
             all(abs(round(k / 100, 1) * 10 - round(round(k / 100, 1) * 10)) < 1e-9 and abs(round(k / 100, 1) - k / 100) <= 0.05 + 1e-12
                 and abs(round(k / 100) - k / 100) <= 0.5 for k in range(-3000, 8001)))
    ok = True
    for m in list(range(0, 3000)) + list(range(86000, 87000)):
        ts = datetime.timedelta(minutes=m).total_seconds()
        hours, seconds = divmod(ts, 3600)
        if int(hours % 24) != (m // 60) % 24 or int(seconds // 60) != m % 60:
            ok = False
    h.oblige("F7  timedelta(minutes=m).total_seconds() divmod 3600 / 60 equals integer arithmetic on minutes", ok)
