"""Lemmas that justify the 'decifloat' abstraction (floats as exact reals) on the domains the codecs use.
Checked by exhaustive enumeration on CPython on every run (the same IEEE-754 doubles the package uses)."""
import datetime

from pyvc.vc import oset

PROPS = ["C03", "C04", "C05", "C10", "C11", "C19"]


@oset("float.lemmas", PROPS, [], kind="lemma",
      assumptions=["IEEE-754 double arithmetic of the interpreter running the check equals that of the interpreter running the package"])
def float_lemmas(h):
    K = range(-5000, 5001)
    h.oblige("F1  int(fl(k/10)*10.0 + 500) == k + 500   for k in -5000..5000 (temperature encoders)",
             all(int(k / 10 * 10.0 + 500) == k + 500 for k in K))
    h.oblige("F2  int(fl(k/10)*10.0 - 100) == k - 100   for k in -5000..5000 (AT5 set-point encoder)",
             all(int(k / 10 * 10.0 - 100) == k - 100 for k in K))
    h.oblige("F3  (r - 500)/10.0 and (r + 100)/10.0 are the doubles nearest to the exact quotient: fl((k)/10) for every raw value",
             all((r - 500) / 10.0 == (r - 500) / 10 and (r + 100) / 10.0 == (r + 100) / 10 for r in range(0, 8192)))
    h.oblige("F4  fl(k/10) is strictly increasing in k and compares with integers like k/10",
             all((k / 10 < (k + 1) / 10) and ((k / 10 > 150.0) == (k > 1500)) and ((k / 10 >= 0) == (k >= 0)) for k in K))
    h.oblige("F5  decode(encode(k/10)) == k/10 for temperatures and AT5 set-points",
             all(((int(k / 10 * 10.0 + 500)) - 500) / 10.0 == k / 10 for k in K) and
             all(((int(k / 10 * 10.0 - 100)) + 100) / 10.0 == k / 10 for k in range(100, 356)))
    h.oblige("F6  round(x, 1) on the 0.01 / 0.001 grids is a tenth within 0.05 of x; round(x) an integer within 0.5",
             all(abs(round(k / 100, 1) * 10 - round(round(k / 100, 1) * 10)) < 1e-9 and abs(round(k / 100, 1) - k / 100) <= 0.05 + 1e-12
                 and abs(round(k / 100) - k / 100) <= 0.5 for k in range(-3000, 8001)))
    ok = True
    for m in list(range(0, 3000)) + list(range(86000, 87000)):
        ts = datetime.timedelta(minutes=m).total_seconds()
        hours, seconds = divmod(ts, 3600)
        if int(hours % 24) != (m // 60) % 24 or int(seconds // 60) != m % 60:
            ok = False
    h.oblige("F7  timedelta(minutes=m).total_seconds() divmod 3600 / 60 equals integer arithmetic on minutes", ok)


HELPERS = [
    # (module, function, argument grid, description)
    ("pyairtouch.at4.comms.utils", "encode_temperature", "tenths:-500:1600", "AT4 temperature encoder"),
    ("pyairtouch.at4.comms.utils", "decode_temperature", "raw16", "AT4 temperature decoder"),
    ("pyairtouch.at5.comms.utils", "encode_temperature", "tenths:-500:1600", "AT5 temperature encoder"),
    ("pyairtouch.at5.comms.utils", "decode_temperature", "raw:0:2047", "AT5 temperature decoder"),
    ("pyairtouch.at5.comms.utils", "encode_set_point", "tenths:0:400", "AT5 set-point encoder"),
    ("pyairtouch.at5.comms.utils", "decode_set_point", "raw:0:255", "AT5 set-point decoder"),
]


def _grid(spec):
    import fractions
    kind, *rest = spec.split(":")
    if kind == "tenths":
        lo, hi = int(rest[0]), int(rest[1])
        return [(k / 10, fractions.Fraction(k, 10)) for k in range(lo, hi + 1)]
    if kind == "raw":
        lo, hi = int(rest[0]), int(rest[1])
        return [(k, k) for k in range(lo, hi + 1)]
    if kind == "raw16":
        return [(k, k) for k in list(range(0, 4096)) + list(range(60000, 65536))]
    raise KeyError(spec)


@oset("float.exactness-of-codec-helpers", PROPS, [m + ":" + f for m, f, _, _ in HELPERS], kind="lemma",
      assumptions=["the reference value is the helper's own source evaluated over exact rationals by the pyvc interpreter"])
def float_exactness(h):
    """The decifloat abstraction is only valid for float expressions that are exact on the 0.1 grid.  For every float
    helper of the codecs: CPython's floating-point result on every grid point equals the result of evaluating the
    *same source* over exact rationals.  A float expression that loses a tenth to rounding (e.g. int((x - 10.0) * 10))
    fails here with the failing input."""
    import fractions
    import importlib
    from pyvc import check as chk
    from pyvc.interp import Interp, Path
    from pyvc.values import PyExc
    loader = h.loader if h.symbolic else (chk._LOADER or chk.build_loader())
    chk._LOADER = loader
    it = Interp(loader)
    it.path = Path([])
    it.exact_floats = True
    it.merge_pure = False
    for mod, fn, spec, what in HELPERS:
        native = getattr(importlib.import_module(mod), fn)
        ref = loader.load(mod).ns[fn]
        bad = None
        for xf, xq in _grid(spec):
            try:
                a = native(xf)
            except Exception as e:  # noqa: BLE001
                a = ("raised", type(e).__name__)
            try:
                b = it.call(ref, [xq], {})
            except PyExc as e:
                b = ("raised", e.value.cls.name)
            same = (a == b) if not isinstance(b, fractions.Fraction) else (isinstance(a, float) and a == float(b) or a == b)
            if not same:
                bad = (xf, a, str(b))
                break
        h.oblige(f"{what} ({mod}.{fn}): floating-point result == exact result on every grid point", bad is None,
                 detail=None if bad is None else f"first differing input {bad[0]!r}: CPython {bad[1]!r}, exact {bad[2]}")
