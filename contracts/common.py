"""Shared helpers of the contract files: symbolic CRC, dual-mode utilities."""
from __future__ import annotations

import z3

from pyvc import sym
from pyvc.sym import SBV, SInt, And, Or, Not, Implies, ite, eq
from pyvc.values import ABytes, BytesVal, Unsupported
from spec import crc_spec

_BV16 = z3.BitVecSort(16)
_ARR = z3.ArraySort(z3.IntSort(), z3.IntSort())
# crc_from(c0, arr, off, n): register after absorbing arr[off .. off+n) starting from c0.
# Uninterpreted; its definition (crc_spec.byte_step folded over the bytes) is supplied as ground
# instances exactly where the induction needs them.
CRC_FROM = z3.Function("crc_from", _BV16, _ARR, z3.IntSort(), z3.IntSort(), _BV16)
# crc_step(c, v): one byte, used to fold over buffers of concrete length (congruence only).
CRC_STEP = z3.Function("crc_step", _BV16, z3.IntSort(), _BV16)


def bv16(x):
    if isinstance(x, SBV):
        return x._ext(16) if x.w <= 16 else z3.Extract(15, 0, x.t)
    if isinstance(x, int):
        return z3.BitVecVal(x, 16)
    raise TypeError(x)


def crc_of_view(view: ABytes, n=None, c0=crc_spec.INIT):
    """Symbolic CRC register after the first n bytes (default: all) of a symbolic buffer."""
    n = view.ln if n is None else n
    return SBV(CRC_FROM(bv16(c0), view.arr, sym.int_t(view.off), sym.int_t(n)))


def crc_fold(parts, c0=crc_spec.INIT):
    """CRC register over a concatenation of BytesVal / ABytes parts (uninterpreted, congruent)."""
    c = bv16(c0)
    flat = []
    for p in parts:
        # a tuple / list of buffers stands for their concatenation (a checksum calculator that accepts its data in
        # parts is held to the CRC of the joined bytes: contract crc16.calculate.parts)
        flat.extend(p if isinstance(p, (tuple, list)) else [p])
    for p in flat:
        if isinstance(p, (bytes, bytearray)):
            p = BytesVal.of(p)
        if isinstance(p, BytesVal):
            for b in p.items:
                c = CRC_STEP(c, sym.int_t(b) if not isinstance(b, SBV) else sym.int_t(b.to_int()))
        elif isinstance(p, ABytes):
            c = CRC_FROM(c, p.arr, sym.int_t(p.off), sym.int_t(p.ln))
        else:
            raise Unsupported(f"crc over {type(p).__name__}")
    return SBV(c)


def crc_bytes_of(reg):
    """[high, low] byte values of a CRC register value (SBV or int)."""
    if isinstance(reg, int):
        return [(reg >> 8) & 0xFF, reg & 0xFF]
    return [SBV(z3.simplify(z3.Extract(15, 8, reg.t))).to_int(), SBV(z3.simplify(z3.Extract(7, 0, reg.t))).to_int()]
