"""Zone objects of both generations (At4Zone, At5Zone): C10 getters, C12 update/notify, C11 validation,
C04 what the transmitted frame means, C02 retry policy of each public command.

Wire expectations are transcribed from the vendor documents:
  AT4 v1.6 4.a (group control 0x2A): byte1 group; byte2 bit8-6 setting (000 keep, 100 set percentage,
       101 set setpoint), bit5-4 control method (00 keep, 10 percentage, 11 temperature), bit3-1 power
       (000 keep, 010 off, 011 on, 101 turbo); byte3 value; byte4 0.
  AT5 v1.2 4.a.i (zone control 0x20): byte1 bit6-1 zone; byte2 bit8-6 setting (100 percentage, 101 setpoint,
       other keep), bit5-4 control type (00 keep), bit3-1 power (010 off, 011 on, 101 turbo, other keep);
       byte3 value: percentage 0-100, setpoint (value+100)/10, other: keep; byte4 0.
"""
from pyvc import sym
from pyvc.sym import And, Or, Not, Implies, ite
from pyvc.vc import oset
from pyvc.world import AbsSet
from contracts.api_common import (api_world, policy_is, encode_payload, notified, notifications, notified_only,
                                  no_notification, subscriber_set, API, SOCK)

GEN = {
    4: dict(api="pyairtouch.at4.api", zone="At4Zone", status_mod="pyairtouch.at4.comms.x2B_group_status",
            rec="GroupStatusData", rec_attr="_group_status", number="group_number", update="update_group_status",
            power_enum="GroupPowerState", method_enum="GroupControlMethod", registry="pyairtouch.at4.comms.registry",
            resolution=1.0, send="_send_group_control_message"),
    5: dict(api="pyairtouch.at5.api", zone="At5Zone", status_mod="pyairtouch.at5.comms.xC021_zone_status",
            rec="ZoneStatusData", rec_attr="_zone_status", number="zone_number", update="update_zone_status",
            power_enum="ZonePowerState", method_enum="ZoneControlMethod", registry="pyairtouch.at5.comms.registry",
            resolution=0.1, send="_send_zone_control_message"),
}
STATE_CODE = {"OFF": 0, "ON": 1, "TURBO": 3}
METHOD_CODE = {"DAMPER": 0, "TEMPERATURE": 1}
BATTERY_CODE = {"NORMAL": 0, "LOW": 1}


def zone_record(h, g, p, number=None):
    """An arbitrary status record as a decoder can produce it."""
    G = GEN[g]
    M = G["status_mod"]
    has_sensor = h.bool(p + "has_sensor")
    temp = h.real(p + "temperature", -50, 155) if h.choice(p + "temp_present", [True, False]) else None
    kw = dict(power_state=h.enum(p + "power", M + ":" + G["power_enum"]),
              control_method=h.enum(p + "method", M + ":" + G["method_enum"]),
              spill_active=h.bool(p + "spill"), has_sensor=has_sensor,
              battery_status=h.enum(p + "battery", M + ":SensorBatteryStatus"),
              temperature=temp, damper_percentage=h.int(p + "damper", 0, 127))
    kw[G["number"]] = h.int(p + "number", 0, 63) if number is None else number
    if g == 4:
        kw["supports_turbo"] = h.bool(p + "turbo")
        kw["set_point"] = h.int(p + "set_point", 0, 63) if h.choice(p + "sp_present", [True, False]) else None
    else:
        kw["set_point"] = h.tenths(p + "set_point", 100, 354) if h.choice(p + "sp_present", [True, False]) else None
    return h.new(M + ":" + G["rec"], **kw)


def make_zone(h, g, rec):
    G = GEN[g]
    w, sock = api_world(h)
    subs_obj, subs = subscriber_set(h, w, "zone_subscribers")
    attrs = {"_name": "Living", G["rec_attr"]: rec, "_socket": sock, "_subscribers": subs_obj}
    if g == 5:
        api_states = h.get(API + ":ZonePowerState")
        attrs["_supported_power_states"] = [h.member(api_states, n) for n in ("OFF", "ON", "TURBO")]
    zone = h.raw(G["api"] + ":" + G["zone"], **attrs)
    return w, sock, subs, zone


def _fn(g, name):
    return f"{GEN[g]['api']}:{GEN[g]['zone']}.{name}"


def _getters(h, g):
    G = GEN[g]
    M = G["status_mod"]
    rec = zone_record(h, g, "r_")
    w, sock, subs, zone = make_zone(h, g, rec)

    def get(name):
        r = h.prop(zone, name)
        h.oblige(f"{name}: never raises for any defined protocol value", r.ok)
        return r.value if r.ok else None

    h.oblige("zone_id = zone number of the latest record", h.eq(get("zone_id"), h.attr(rec, G["number"])))
    h.oblige("name", h.eq(get("name"), "Living"))
    v = get("power_state")
    if v is not None:
        h.oblige("power_state = protocol power state (OFF/ON/TURBO)",
                 h.enum_code(v, API + ":ZonePowerState", STATE_CODE) == h.enum_code(h.attr(rec, "power_state"), M + ":" + G["power_enum"], STATE_CODE))
    v = get("control_method")
    if v is not None:
        h.oblige("control_method = protocol control method",
                 h.enum_code(v, API + ":ZoneControlMethod", METHOD_CODE) == h.enum_code(h.attr(rec, "control_method"), M + ":" + G["method_enum"], METHOD_CODE))
    h.oblige("has_temp_sensor = sensor bit", h.eq(get("has_temp_sensor"), h.attr(rec, "has_sensor")))
    v = get("sensor_battery_status")
    if v is not None:
        h.oblige("sensor_battery_status = low-battery bit",
                 h.enum_code(v, API + ":SensorBatteryStatus", BATTERY_CODE) == h.enum_code(h.attr(rec, "battery_status"), M + ":SensorBatteryStatus", BATTERY_CODE))
    h.oblige("current_temperature = reported temperature (absent when not available)", h.eq(get("current_temperature"), h.attr(rec, "temperature")))
    h.oblige("target_temperature = reported set-point (absent when not available)", h.eq(get("target_temperature"), h.attr(rec, "set_point")))
    h.oblige("target_temperature_resolution", h.eq(get("target_temperature_resolution"), G["resolution"]))
    h.oblige("current_damper_percentage = reported open percentage", h.eq(get("current_damper_percentage"), h.attr(rec, "damper_percentage")))
    h.oblige("spill_active = spill bit", h.eq(get("spill_active"), h.attr(rec, "spill_active")))
    sp = get("supported_power_states")
    if sp is not None:
        api_states = API + ":ZonePowerState"
        names = [m.name for m in h.elems(sp)]
        if g == 4:
            turbo = h.branch(h.attr(rec, "supports_turbo"))
            h.oblige("supported power states: OFF, ON and TURBO iff the group reports turbo support",
                     names == (["OFF", "ON", "TURBO"] if turbo else ["OFF", "ON"]))
        else:
            h.oblige("supported power states: OFF, ON, TURBO", names == ["OFF", "ON", "TURBO"])
    h.cover("getters explored")


def _update(h, g):
    G = GEN[g]
    old = zone_record(h, g, "old_")
    new = zone_record(h, g, "new_")
    w, sock, subs, zone = make_zone(h, g, old)
    seen = {}
    if h.symbolic:
        def at_notification(e):
            if e[0] in ("suspend", "for-all-members") and not seen:
                seen["stored"] = h.attr(zone, G["rec_attr"])
        w.site_checks.append(at_notification)
    r = h.method(zone, G["update"], new)
    same_id = h.branch(h.eq(h.attr(new, G["number"]), h.attr(old, G["number"])))
    if not same_id:
        h.oblige("a record for another zone is refused with ValueError", r.raised("ValueError"))
        h.oblige("...and nothing is stored or notified", And(h.attr(zone, G["rec_attr"]) is old, no_notification(h, w)))
        return
    h.oblige("update never raises (subscriber exceptions are isolated)", r.ok)
    h.oblige("the latest record is stored", h.attr(zone, G["rec_attr"]) is new)
    changed = h.branch(Not(h.eq(old, new)))
    if changed:
        if h.symbolic:
            h.oblige("the new record is in place before subscribers run (a subscriber reading the zone sees the new values)",
                     seen.get("stored") is new)
        h.oblige("a changed record notifies every zone subscriber once with the zone id",
                 notified_only(h, w, subs, [h.attr(new, G["number"])]))
        h.cover("changed")
    else:
        h.oblige("an identical record notifies nobody", no_notification(h, w))
        h.cover("unchanged")


def _subscribe(h, g):
    if not h.symbolic:
        rec = zone_record(h, g, "r_")
        w, sock, subs, zone = make_zone(h, g, rec)

        async def s(*a, **k):
            pass
        before = set(zone._subscribers)   # the recording subscriber of the native world
        zone.subscribe(s)
        zone.subscribe(s)
        h.oblige("subscribing twice registers the callable once (set semantics)", set(zone._subscribers) - before == {s} and len(zone._subscribers) == len(before) + 1)
        zone.unsubscribe(s)
        h.oblige("unsubscribing removes it", set(zone._subscribers) == before)
        return
    from pyvc.world import SubscriberModel
    rec = zone_record(h, g, "r_")
    w, sock, subs, zone = make_zone(h, g, rec)
    s = SubscriberModel(w, "s1")
    h.method(zone, "subscribe", s)
    h.method(zone, "subscribe", s)
    h.oblige("subscribing twice registers the callable once (set semantics)", subs.added == [s])
    h.method(zone, "unsubscribe", s)
    h.oblige("unsubscribing removes it", And(subs.added == [], subs.removed == [s]))


def _expect_one_frame(h, g, sock, r):
    h.oblige("the call succeeds", r.ok)
    h.oblige("exactly one frame is submitted", len(sock.sent) == 1)
    if len(sock.sent) != 1:
        return None
    msg, pol = sock.sent[0]
    out, hdr, size = encode_payload(h, GEN[g]["registry"], msg)
    return msg, pol, out, hdr


def _zone_payload(h, g, out):
    """The 4 bytes that control this zone (AT5: after the 8-byte 0xC0 sub-header)."""
    items = h.items(out.value)
    if g == 4:
        return items if len(items) == 4 else None
    if len(items) != 12:
        return None
    sub = items[:8]
    h.oblige("0xC0 sub-header: sub type 0x20, no normal data, one repeat of 4 bytes",
             And(sub[0] == 0x20, sub[1] == 0, sub[2] == 0, sub[3] == 0, sub[4] == 0, sub[5] == 4, sub[6] == 0, sub[7] == 1))
    return items[8:]


def _set_power(h, g):
    G = GEN[g]
    rec = zone_record(h, g, "r_")
    w, sock, subs, zone = make_zone(h, g, rec)
    pc = h.enum("power_control", API + ":ZonePowerState")
    r = h.method(zone, "set_power", pc)
    unsupported = And(h.is_member(pc, API + ":ZonePowerState", "TURBO"), Not(h.attr(rec, "supports_turbo"))) if g == 4 else False
    if h.branch(unsupported):
        h.oblige("an unsupported power state raises ValueError", r.raised("ValueError"))
        h.oblige("...and transmits nothing", len(sock.sent) == 0)
        return
    res = _expect_one_frame(h, g, sock, r)
    if res is None:
        return
    msg, pol, out, hdr = res
    h.oblige("setting a power state is idempotent: RETRY_IDEMPOTENT", policy_is(h, pol, "RETRY_IDEMPOTENT"))
    h.oblige("the message is encodable", out.ok)
    if not out.ok:
        return
    h.oblige("message type", h.attr(hdr, "message_id") == (0x2A if g == 4 else 0xC0))
    b = _zone_payload(h, g, out)
    h.oblige("payload layout", b is not None)
    if b is None:
        return
    want = h.enum_code(pc, API + ":ZonePowerState", {"OFF": 2, "ON": 3, "TURBO": 5})
    h.oblige("addresses this zone", (b[0] % 64) == h.attr(rec, G["number"]))
    h.oblige("power bits = set to off / on / turbo as requested", (b[1] % 8) == want)
    h.oblige("control method / type: keep", ((b[1] // 8) % 4) == 0)
    sc = b[1] // 32
    h.oblige("setting value: keep", And(sc != 2, sc != 3, sc != 4, sc != 5) if g == 5 else sc == 0)
    h.oblige("byte4 keep 0", b[3] == 0)
    h.cover("set_power frame")


def _method_clause(h, g, rec, b, member, code, what):
    """DESIGN App. B: the request means 'the zone is under <what> with this value'.  AirTouch 5 has no
    control-method field (bits 5-4 are 'keep 0'; its setting value switches the method); AirTouch 4 has
    one, so the frame must say <what>, or 'keep' only where the zone is reported to be under it already."""
    G = GEN[g]
    m = (b[1] // 8) % 4
    if g == 5:
        h.oblige("bits 5-4 of the AT5 zone control byte are zero", m == 0)
        return
    already = h.is_member(h.attr(rec, "control_method"), G["status_mod"] + ":" + G["method_enum"], member)
    h.oblige(f"control method: '{what}' (keep only if the zone is reported under it already): the request has the "
             "same meaning as on AirTouch 5, where the setting value selects the method",
             Or(m == code, And(m == 0, already)))


def _set_damper(h, g):
    G = GEN[g]
    rec = zone_record(h, g, "r_")
    w, sock, subs, zone = make_zone(h, g, rec)
    p = h.int("open_percentage", -1000, 1000)
    r = h.method(zone, "set_damper_percentage", p)
    if h.branch(Or(p < 0, p > 100)):
        h.oblige("a damper value outside 0..100 raises ValueError", r.raised("ValueError"))
        h.oblige("...and transmits nothing", len(sock.sent) == 0)
        return
    res = _expect_one_frame(h, g, sock, r)
    if res is None:
        return
    msg, pol, out, hdr = res
    h.oblige("setting a percentage is idempotent: RETRY_IDEMPOTENT", policy_is(h, pol, "RETRY_IDEMPOTENT"))
    h.oblige("the message is encodable", out.ok)
    if not out.ok:
        return
    b = _zone_payload(h, g, out)
    h.oblige("payload layout", b is not None)
    if b is None:
        return
    h.oblige("addresses this zone", (b[0] % 64) == h.attr(rec, G["number"]))
    h.oblige("power: keep", And((b[1] % 8) != 1, (b[1] % 8) != 2, (b[1] % 8) != 3, (b[1] % 8) != 5))
    h.oblige("setting = 100 set open percentage", (b[1] // 32) == 4)
    _method_clause(h, g, rec, b, "DAMPER", 2, "percentage control")
    h.oblige("value byte = the requested percentage", b[2] == p)
    h.oblige("byte4 keep 0", b[3] == 0)
    h.cover("set_damper frame")


def _set_target(h, g):
    G = GEN[g]
    rec = zone_record(h, g, "r_")
    w, sock, subs, zone = make_zone(h, g, rec)
    t = h.real("temperature", -20, 60)
    r = h.method(zone, "set_target_temperature", t)
    if h.branch(Not(h.attr(rec, "has_sensor"))):
        h.oblige("a set-point for a zone without sensor raises ValueError", r.raised("ValueError"))
        h.oblige("...and transmits nothing", len(sock.sent) == 0)
        return
    res = _expect_one_frame(h, g, sock, r)
    if res is None:
        return
    msg, pol, out, hdr = res
    h.oblige("setting a set-point is idempotent: RETRY_IDEMPOTENT", policy_is(h, pol, "RETRY_IDEMPOTENT"))
    # representable on the wire?  AT4: value byte 0..255 degC; AT5: (value+100)/10 with value 0..250 (10.0 .. 35.0)
    if not out.ok:
        h.oblige("an unencodable set-point is rejected by the encoder (struct.error), never sent as another value",
                 out.raised("struct.error", "ValueError"))
        if g == 4:
            h.oblige("...only if the rounded value does not fit the value byte", Or(t < -0.5, t > 254.5))
        else:
            h.oblige("...only if the rounded value is outside 10.0 .. 35.5 degC", Or(t < 10.0, t > 35.45))
        return
    b = _zone_payload(h, g, out)
    h.oblige("payload layout", b is not None)
    if b is None:
        return
    h.oblige("addresses this zone", (b[0] % 64) == h.attr(rec, G["number"]))
    h.oblige("power: keep", And((b[1] % 8) != 1, (b[1] % 8) != 2, (b[1] % 8) != 3, (b[1] % 8) != 5))
    h.oblige("setting = 101 set target setpoint", (b[1] // 32) == 5)
    _method_clause(h, g, rec, b, "TEMPERATURE", 3, "temperature control")
    t = h.exact(t)   # rounding obligations are stated over exact values (natively: the rational the float is)
    if g == 4:
        # resolution 1 degC: |value - t| <= 0.5
        h.oblige("value byte = the requested temperature rounded to 1 degC", And(h.exact(b[2]) - t <= h.exact(1) / 2, t - h.exact(b[2]) <= h.exact(1) / 2))
    else:
        sp = (h.exact(b[2]) + 100) / 10
        h.oblige("value byte: setpoint = (value+100)/10 = the requested temperature rounded to 0.1 degC",
                 And(sp - t <= h.exact(1) / 20, t - sp <= h.exact(1) / 20))
        h.oblige("value byte inside the documented 0..250 range or rejected", b[2] <= 255)
    h.oblige("byte4 keep 0", b[3] == 0)
    h.cover("set_target frame")


def _register(g):
    n = f"at{g}.zone"
    fz = lambda x: [_fn(g, x)]  # noqa: E731
    getters = ["zone_id", "name", "supported_power_states", "power_state", "control_method", "has_temp_sensor",
               "sensor_battery_status", "current_temperature", "target_temperature", "target_temperature_resolution",
               "current_damper_percentage", "spill_active"]
    oset(n + ".getters", ["C10", "C19"], [_fn(g, x) for x in getters])(lambda h: _getters(h, g))
    oset(n + ".update", ["C10", "C12", "C14", "C19"], fz(GEN[g]["update"]))(lambda h: _update(h, g))
    oset(n + ".subscribe", ["C12"], [_fn(g, "subscribe"), _fn(g, "unsubscribe")])(lambda h: _subscribe(h, g))
    oset(n + ".set_power", ["C04", "C11", "C02", "C19", "C07"], [_fn(g, "set_power"), _fn(g, GEN[g]["send"])])(lambda h: _set_power(h, g))
    oset(n + ".set_damper_percentage", ["C04", "C11", "C02", "C19", "C07"], [_fn(g, "set_damper_percentage"), _fn(g, GEN[g]["send"])])(lambda h: _set_damper(h, g))
    oset(n + ".set_target_temperature", ["C04", "C11", "C02", "C19", "C07"], [_fn(g, "set_target_temperature"), _fn(g, GEN[g]["send"])],
         assumptions=["round(): correctly rounded, ties to even (CPython)", "floats treated as exact reals (decifloat abstraction)"])(lambda h: _set_target(h, g))


_register(4)
_register(5)
