"""Air-conditioner objects of both generations (At4AirConditioner, At5AirConditioner):
C10 getters / updates, C12 notifications, C11 validation and shaping, C04 wire meaning, C02 policies.

Wire expectations (vendor documents):
  AT4 v1.6 4.c (AC control 0x2C): byte1 bit8-7 power (00 keep, 01 change on/off, 10 off, 11 on), bit6-1 AC;
       byte2 bit8-5 mode (0 auto 1 heat 2 dry 3 fan 4 cool, other keep), bit4-1 fan (0 auto 1 quiet 2 low 3 medium
       4 high 5 powerful 6 turbo, other keep); byte3 bit8-7 setpoint control (00 keep, 01 set value), bit6-1 value
       (0x3f when not 01); byte4 0.
  AT5 v1.2 4.a.iii (AC control 0x22): byte1 bit8-5 power (1 change on/off, 2 off, 3 on, 4 away, 5 sleep, other keep),
       bit4-1 AC; byte2 bit8-5 mode (0..4, other keep), bit4-1 fan (0..6, 8 intelligent auto, other keep);
       byte3 0x40 change setpoint / 0x00 keep; byte4 setpoint*10-100 when byte3 is 0x40.
"""
from pyvc.values import unmodelled as _unmodelled  # noqa: E402
from pyvc import sym
from pyvc.sym import And, Or, Not, Implies, ite
from pyvc.vc import oset
from pyvc.world import AbsSet, SubscriberModel
from pyvc.stdlib import TimeVal, TimeDelta
from contracts.api_common import (api_world, policy_is, encode_payload, notified, notifications, notified_only,
                                  no_notification, subscriber_set, union_handle, API, SOCK)

GEN = {
    4: dict(api="pyairtouch.at4.api", ac="At4AirConditioner", status="pyairtouch.at4.comms.x2D_ac_status",
            ctrl="pyairtouch.at4.comms.x2C_ac_ctrl", ability="pyairtouch.at4.comms.x1FFF11_ac_ability",
            timer="pyairtouch.at4.comms.x37_ac_timer_status", timer_ctrl="pyairtouch.at4.comms.x36_ac_timer_ctrl",
            quick="pyairtouch.at4.comms.x1FFF20_quick_timer", err="pyairtouch.at4.comms.x1FFF10_err_info",
            ext="pyairtouch.at4.comms.x1F_ext", registry="pyairtouch.at4.comms.registry", resolution=1.0,
            timer_send="_send_timer_control_message", powers=["TOGGLE", "TURN_OFF", "TURN_ON"],
            fans=["AUTO", "QUIET", "LOW", "MEDIUM", "HIGH", "POWERFUL", "TURBO"], zone="At4Zone"),
    5: dict(api="pyairtouch.at5.api", ac="At5AirConditioner", status="pyairtouch.at5.comms.xC023_ac_status",
            ctrl="pyairtouch.at5.comms.xC022_ac_ctrl", ability="pyairtouch.at5.comms.x1FFF11_ac_ability",
            timer="pyairtouch.at5.comms.xC033_ac_timer_status", timer_ctrl="pyairtouch.at5.comms.xC032_ac_timer_ctrl",
            quick="pyairtouch.at5.comms.x1FFF49_quick_timer", err="pyairtouch.at5.comms.x1FFF10_err_info",
            ext="pyairtouch.at5.comms.x1F_ext", registry="pyairtouch.at5.comms.registry", resolution=0.1,
            timer_send="_send_ac_timer_control_message",
            powers=["TOGGLE", "TURN_OFF", "TURN_ON", "SET_TO_AWAY", "SET_TO_SLEEP"],
            fans=["AUTO", "QUIET", "LOW", "MEDIUM", "HIGH", "POWERFUL", "TURBO", "INTELLIGENT_AUTO"], zone="At5Zone"),
}
MODES = ["AUTO", "HEAT", "DRY", "FAN", "COOL"]
MODE_CODE = {"AUTO": 0, "HEAT": 1, "DRY": 2, "FAN": 3, "COOL": 4}
STATUS_MODE_CODE = dict(MODE_CODE, AUTO_HEAT=8, AUTO_COOL=9)
FAN_CODE = {"AUTO": 0, "QUIET": 1, "LOW": 2, "MEDIUM": 3, "HIGH": 4, "POWERFUL": 5, "TURBO": 6, "INTELLIGENT_AUTO": 8}
POWER_CTRL_CODE = {"TOGGLE": 1, "TURN_OFF": 2, "TURN_ON": 3, "SET_TO_AWAY": 4, "SET_TO_SLEEP": 5}
POWER_STATE_CODE = {"OFF": 0, "ON": 1, "OFF_AWAY": 2, "ON_AWAY": 3, "SLEEP": 5}


def ac_record(h, g, p, number=None):
    G = GEN[g]
    S = G["status"]
    kw = dict(ac_number=h.int(p + "number", 0, 15) if number is None else number,
              power_state=h.enum(p + "power", S + ":AcPowerState"), mode=h.enum(p + "mode", S + ":AcMode"),
              fan_speed=h.enum(p + "fan", S + ":AcFanSpeed"), spill_active=h.bool(p + "spill"), timer_set=h.bool(p + "timer_set"),
              temperature=h.real(p + "temperature", -50, 155), error_code=h.int(p + "error", 0, 65535))
    if g == 4:
        kw["set_point"] = h.int(p + "set_point", 0, 63)
    else:
        kw["set_point"] = h.tenths(p + "set_point", 100, 350)
        kw["turbo_active"] = h.bool(p + "turbo_active")
        kw["bypass_active"] = h.bool(p + "bypass_active")
    return h.new(S + ":AcStatusData", **kw)


def timer_state(h, g, p):
    return h.new(GEN[g]["timer"] + ":AcTimerState", disabled=h.bool(p + "disabled"), hour=h.int(p + "hour", 0, 31), minute=h.int(p + "minute", 0, 63))


def timer_record(h, g, p, number):
    return h.new(GEN[g]["timer"] + ":AcTimerStatusData", ac_number=number, on_timer=timer_state(h, g, p + "on_"), off_timer=timer_state(h, g, p + "off_"))


def ac_ability(h, g, number):
    G = GEN[g]
    C = G["ctrl"]
    modes = {h.member(C + ":AcModeControl", m): h.bool("supports_mode_" + m) for m in MODES}
    modes[h.member(C + ":AcModeControl", "UNCHANGED")] = True
    fans = {h.member(C + ":AcFanSpeedControl", f): h.bool("supports_fan_" + f) for f in G["fans"]}
    fans[h.member(C + ":AcFanSpeedControl", "UNCHANGED")] = True
    if g == 4:
        return h.new(G["ability"] + ":AcAbility", ac_number=number, ac_name="UNIT", ac_mode_support=modes, fan_speed_support=fans,
                     min_set_point=h.int("min_set_point", 0, 63), max_set_point=h.int("max_set_point", 0, 63),
                     groups=None, start_group=0, group_count=0)
    return h.new(G["ability"] + ":AcAbility", ac_number=number, ac_name="UNIT", start_zone=0, zone_count=0,
                 ac_mode_support=modes, fan_speed_support=fans,
                 min_cool_set_point=h.int("min_cool", 10, 35), max_cool_set_point=h.int("max_cool", 10, 35),
                 min_heat_set_point=h.int("min_heat", 10, 35), max_heat_set_point=h.int("max_heat", 10, 35))


class AcEnv:
    def __init__(self, h, g, send_may_fail=False, status=None, timers=None, error_info="keep"):
        G = GEN[g]
        self.h, self.g = h, g
        self.w, self.sock = api_world(h, send_may_fail=send_may_fail)
        self.number = h.int("ac_number", 0, 3 if g == 4 else 15)
        self.ability = ac_ability(h, g, self.number)
        r = h.call(G["api"] + ":" + G["ac"], self.number, [], self.ability, self.sock)
        self.ctor = r
        self.ac = r.value
        subs_obj, self.subs = subscriber_set(h, self.w, "ac_subscribers")
        state_obj, self.subs_state = subscriber_set(h, self.w, "ac_state_subscribers")
        if r.ok:
            h.setattr(self.ac, "_subscribers", subs_obj)
            h.setattr(self.ac, "_subscribers_ac_state", state_obj)
            if status is not None:
                h.setattr(self.ac, "_ac_status", status)
            if timers is not None:
                h.setattr(self.ac, "_ac_timer_status", timers)

    def snapshot(self):
        self.stored0 = _stored(self.h, self)

    def both(self):
        return union_handle(self.h, self.w, self.subs, self.subs_state)


def _fn(g, name):
    return f"{GEN[g]['api']}:{GEN[g]['ac']}.{name}"


# ------------------------------------------------------------------------------------------------


def _init(h, g):
    G = GEN[g]
    E = AcEnv(h, g)
    h.oblige("the constructor never raises", E.ctor.ok)
    if not E.ctor.ok:
        return
    ac = E.ac
    pc = h.prop(ac, "supported_power_controls")
    h.oblige("supported power controls are exactly those the generation documents",
             And(pc.ok, [m.name for m in h.elems(pc.value)] == G["powers"] if pc.ok else False))
    sm = h.prop(ac, "supported_modes").value
    for m in MODES:
        api_m = h.member(API + ":AcMode", m)
        bit = h.attr(E.ability, "ac_mode_support")[h.member(G["ctrl"] + ":AcModeControl", m)]
        h.oblige(f"mode {m} is offered iff the ability record advertises it", h.eq(h.contains(sm, api_m), bit))
    sf = h.prop(ac, "supported_fan_speeds").value
    for f in [x.name for x in h.members(API + ":AcFanSpeed")]:
        api_f = h.member(API + ":AcFanSpeed", f)
        if f in G["fans"]:
            bit = h.attr(E.ability, "fan_speed_support")[h.member(G["ctrl"] + ":AcFanSpeedControl", f)]
            h.oblige(f"fan speed {f} is offered iff the ability record advertises it", h.eq(h.contains(sf, api_f), bit))
        else:
            h.oblige(f"fan speed {f} does not exist in this generation and is never offered", h.eq(h.contains(sf, api_f), False))
    h.oblige("name / id", And(h.eq(h.prop(ac, "name").value, "UNIT"), h.eq(h.prop(ac, "ac_id").value, E.number)))
    h.oblige("before the first report there is no error information", h.is_none(h.prop(ac, "error_info").value))
    # an AC built with zones: it listens to every one of them (zone changes reach the AC's subscribers, C12) and lists them
    log = []
    if h.symbolic:
        from pyvc.values import Builtin as _B, BoundMethod as _BM

        class ZoneStub:
            def __init__(self, k):
                self.k = k

            def py_truth(self, it):
                return True

            def py_getattr(self, it, name):
                if name == "subscribe":
                    return _B("zone.subscribe", lambda cb: log.append((self.k, cb)))
                raise _unmodelled(self, name)
        is_zone_updated = lambda cb, a: isinstance(cb, _BM) and cb.func.name == "_zone_updated" and cb.self_obj is a  # noqa: E731
    else:
        class ZoneStub:
            def __init__(self, k):
                self.k = k

            def subscribe(self, cb):
                log.append((self.k, cb))
        is_zone_updated = lambda cb, a: getattr(cb, "__func__", None) is type(a)._zone_updated and cb.__self__ is a  # noqa: E731
    zs = [ZoneStub(0), ZoneStub(1)]
    r2 = h.call(G["api"] + ":" + G["ac"], E.number, zs, E.ability, E.sock)
    h.oblige("an AC subscribes its own _zone_updated to each of its zones, once (zone changes reach the AC's general subscribers)",
             And(r2.ok, [k for k, _ in log] == [0, 1], all(is_zone_updated(cb, r2.value) for _, cb in log) if r2.ok else False))
    if r2.ok:
        got = h.elems(h.prop(r2.value, "zones").value)
        h.oblige("zones lists exactly the zones it was built with, in order", And(len(got) == 2, all(a is b for a, b in zip(got, zs))))
    h.cover("init explored")


def _getters(h, g):
    G = GEN[g]
    S = G["status"]
    rec = ac_record(h, g, "r_")
    E = AcEnv(h, g, status=rec)
    ac = E.ac

    def get(name):
        r = h.prop(ac, name)
        h.oblige(f"{name}: never raises for any defined protocol value", r.ok)
        return r.value if r.ok else None

    h.oblige("ac_id = AC number of the latest record", h.eq(get("ac_id"), h.attr(rec, "ac_number")))
    v = get("power_state")
    if v is not None:
        h.oblige("power_state = protocol power state",
                 h.enum_code(v, API + ":AcPowerState", POWER_STATE_CODE) == h.enum_code(h.attr(rec, "power_state"), S + ":AcPowerState", POWER_STATE_CODE))
    mode_code = h.enum_code(h.attr(rec, "mode"), S + ":AcMode", STATUS_MODE_CODE)
    v = get("selected_mode")
    if v is not None:
        h.oblige("selected_mode: AUTO for auto, auto-heat and auto-cool; the mode itself otherwise",
                 h.enum_code(v, API + ":AcMode", MODE_CODE) == ite(mode_code >= 8, 0, mode_code))
    v = get("active_mode")
    if v is not None:
        h.oblige("active_mode: HEAT for auto-heat, COOL for auto-cool; the mode itself otherwise",
                 h.enum_code(v, API + ":AcMode", MODE_CODE) == ite(mode_code == 8, 1, ite(mode_code == 9, 4, mode_code)))
    fs = h.attr(rec, "fan_speed")
    if g == 4:
        fcode = h.enum_code(fs, S + ":AcFanSpeed", FAN_CODE)
        for name in ("selected_fan_speed", "active_fan_speed"):
            v = get(name)
            if v is not None:
                h.oblige(f"{name} = protocol fan speed", h.enum_code(v, API + ":AcFanSpeed", FAN_CODE) == fcode)
    else:
        raw = {"AUTO": 0, "QUIET": 1, "LOW": 2, "MEDIUM": 3, "HIGH": 4, "POWERFUL": 5, "TURBO": 6,
               "INTELLIGENT_AUTO_QUIET": 9, "INTELLIGENT_AUTO_LOW": 10, "INTELLIGENT_AUTO_MEDIUM": 11,
               "INTELLIGENT_AUTO_HIGH": 12, "INTELLIGENT_AUTO_POWERFUL": 13, "INTELLIGENT_AUTO_TURBO": 14}
        fcode = h.enum_code(fs, S + ":AcFanSpeed", raw)
        v = get("selected_fan_speed")
        if v is not None:
            h.oblige("selected_fan_speed: INTELLIGENT_AUTO for codes 9..14, the speed itself otherwise",
                     h.enum_code(v, API + ":AcFanSpeed", FAN_CODE) == ite(fcode >= 9, 8, fcode))
        v = get("active_fan_speed")
        if v is not None:
            h.oblige("active_fan_speed: the concrete speed in effect (code - 8 for the intelligent-auto codes 9..14)",
                     h.enum_code(v, API + ":AcFanSpeed", FAN_CODE) == ite(fcode >= 9, fcode - 8, fcode))
    h.oblige("current_temperature = reported temperature", h.eq(get("current_temperature"), h.attr(rec, "temperature")))
    h.oblige("target_temperature = reported set-point", h.eq(get("target_temperature"), h.attr(rec, "set_point")))
    h.oblige("target_temperature_resolution", h.eq(get("target_temperature_resolution"), G["resolution"]))
    lo, hi = get("min_target_temperature"), get("max_target_temperature")
    ab = E.ability
    if g == 4:
        h.oblige("limits = the AC's advertised set-point limits",
                 And(h.eq(lo, h.attr(ab, "min_set_point")), h.eq(hi, h.attr(ab, "max_set_point"))))
    else:
        mh, xh, mc, xc = (h.attr(ab, n) for n in ("min_heat_set_point", "max_heat_set_point", "min_cool_set_point", "max_cool_set_point"))
        env_lo, env_hi = ite(mh < mc, mh, mc), ite(xh > xc, xh, xc)
        h.oblige("limits follow the mode: heat limits in HEAT, cool limits in COOL, the envelope of both otherwise",
                 And(Implies(mode_code == 1, And(h.eq(lo, mh), h.eq(hi, xh))),
                     Implies(mode_code == 4, And(h.eq(lo, mc), h.eq(hi, xc))),
                     Implies(And(mode_code != 1, mode_code != 4, mode_code < 8), And(h.eq(lo, env_lo), h.eq(hi, env_hi))),
                     # auto-heat / auto-cool: the document is silent; the envelope or the active mode's limits are both accepted
                     Implies(mode_code == 8, Or(And(h.eq(lo, env_lo), h.eq(hi, env_hi)), And(h.eq(lo, mh), h.eq(hi, xh)))),
                     Implies(mode_code == 9, Or(And(h.eq(lo, env_lo), h.eq(hi, env_hi)), And(h.eq(lo, mc), h.eq(hi, xc))))))
    v = get("spill_state")
    if v is not None:
        code = h.enum_code(v, API + ":AcSpillState", {"NONE": 0, "SPILL": 1, "BYPASS": 2})
        spill = h.attr(rec, "spill_active")
        if g == 4:
            h.oblige("spill_state = SPILL iff the spill bit is set", code == ite(spill, 1, 0))
        else:
            byp = h.attr(rec, "bypass_active")
            h.oblige("spill_state: BYPASS / SPILL / NONE from the bypass and spill bits",
                     And(Implies(And(Not(spill), Not(byp)), code == 0), Implies(And(spill, Not(byp)), code == 1),
                         Implies(And(byp, Not(spill)), code == 2), Implies(And(byp, spill), Or(code == 1, code == 2))))
    ei = get("error_info") if True else None
    err = h.attr(rec, "error_code")
    if h.is_none(ei):
        h.oblige("error details are absent only while the error code is 0", err == 0)
    else:
        h.oblige("error details appear only while an error code is present, and carry it", And(err != 0, h.eq(h.attr(ei, "code"), err)))
    h.cover("getters explored")


def _timer_getter(h, g):
    E = AcEnv(h, g)
    tr = timer_record(h, g, "t_", E.number)
    h.setattr(E.ac, "_ac_timer_status", tr)
    which = h.choice("timer_type", ["ON_TIMER", "OFF_TIMER"])
    st = h.attr(tr, "on_timer" if which == "ON_TIMER" else "off_timer")
    r = h.method(E.ac, "next_quick_timer", h.member(API + ":AcTimerType", which))
    defined = And(h.attr(st, "hour") <= 23, h.attr(st, "minute") <= 59)
    if h.branch(h.attr(st, "disabled")):
        h.oblige("a disabled timer reports no time", And(r.ok, h.is_none(r.value) if r.ok else False))
    elif h.branch(defined):
        h.oblige("an enabled timer reports the hour and minute last reported for that timer type",
                 And(r.ok, not h.is_none(r.value) if r.ok else False,
                     h.eq(h.attr(r.value, "hour"), h.attr(st, "hour")) if r.ok and not h.is_none(r.value) else False,
                     h.eq(h.attr(r.value, "minute"), h.attr(st, "minute")) if r.ok and not h.is_none(r.value) else False))
    else:
        h.oblige("an hour/minute outside a day is not turned into another time", Or(Not(r.ok), True))
    h.cover("timer getter explored")


def _update_status(h, g):
    G = GEN[g]
    old = ac_record(h, g, "old_")
    E = AcEnv(h, g, status=old)
    h.assume(h.eq(h.attr(old, "ac_number"), E.number))
    new = ac_record(h, g, "new_")
    h.setattr(E.ac, "_ac_error_info", "E1")
    seen = {}
    if h.symbolic:
        def at_first_suspension(e):
            if e[0] in ("suspend", "for-all-members", "send") and not seen:
                seen["stored"] = h.attr(E.ac, "_ac_status")
        E.w.site_checks.append(at_first_suspension)
    r = h.method(E.ac, "update_ac_status", new)
    if not h.branch(h.eq(h.attr(new, "ac_number"), E.number)):
        h.oblige("a record for another AC is refused with ValueError", r.raised("ValueError"))
        h.oblige("...and nothing is stored, sent or notified",
                 And(h.attr(E.ac, "_ac_status") is old, len(E.sock.sent) == 0, no_notification(h, E.w)))
        return
    h.oblige("update never raises", r.ok)
    h.oblige("the latest record is stored", h.attr(E.ac, "_ac_status") is new)
    if not h.branch(Not(h.eq(old, new))):
        h.oblige("an identical record sends nothing and notifies nobody", And(len(E.sock.sent) == 0, no_notification(h, E.w)))
        h.cover("unchanged")
        return
    if h.symbolic:
        h.oblige("the new record is in place before anything is sent or any subscriber runs", seen.get("stored") is new)
    h.oblige("a changed record notifies all subscribers (general and AC-state) once with the AC id",
             notified_only(h, E.w, E.both(), [E.number]))
    if h.branch(h.attr(new, "error_code") != 0):
        ok = len(E.sock.sent) == 1
        h.oblige("an error code triggers exactly one error-information request", ok)
        if ok:
            msg, pol = E.sock.sent[0]
            sub = h.attr(msg, "sub_message") if h.isinstance(msg, G["ext"] + ":ExtendedMessage") else None
            h.oblige("...an extended AcErrorInformationRequest for this AC, sent only if connected now (RETRY_CONNECTED)",
                     And(sub is not None, h.isinstance(sub, G["err"] + ":AcErrorInformationRequest") if sub is not None else False,
                         h.eq(h.attr(sub, "ac_number"), E.number) if sub is not None else False, policy_is(h, pol, "RETRY_CONNECTED")))
    else:
        h.oblige("without error code nothing is sent and stale error text is cleared",
                 And(len(E.sock.sent) == 0, h.is_none(h.attr(E.ac, "_ac_error_info"))))
    h.cover("changed")


def _update_timer_and_error(h, g):
    E = AcEnv(h, g)
    what = h.choice("what", ["timer", "timer-other-ac", "error-same", "error-changed"])
    if what.startswith("timer"):
        old = timer_record(h, g, "old_", E.number)
        h.setattr(E.ac, "_ac_timer_status", old)
        if what == "timer-other-ac":
            other = h.int("other", 0, 15)
            h.assume(other != E.number)
            new = timer_record(h, g, "new_", other)
            r = h.method(E.ac, "update_ac_timer_status", new)
            h.oblige("a timer record for another AC is refused with ValueError, nothing stored or notified",
                     And(r.raised("ValueError"), h.attr(E.ac, "_ac_timer_status") is old, no_notification(h, E.w)))
            return
        new = timer_record(h, g, "new_", E.number)
        r = h.method(E.ac, "update_ac_timer_status", new)
        h.oblige("update never raises", r.ok)
        h.oblige("the latest timer record is stored", h.attr(E.ac, "_ac_timer_status") is new)
        if h.branch(Not(h.eq(old, new))):
            h.oblige("a changed timer record notifies all subscribers once with the AC id",
                     notified_only(h, E.w, E.both(), [E.number]))
        else:
            h.oblige("an identical timer record notifies nobody", no_notification(h, E.w))
        return
    h.setattr(E.ac, "_ac_error_info", "ER: 1")
    new = "ER: 1" if what == "error-same" else h.choice("new_text", [None, "ER: 2"])
    r = h.method(E.ac, "update_ac_error_info", new)
    h.oblige("update never raises", r.ok)
    h.oblige("the latest error text is stored", h.eq(h.attr(E.ac, "_ac_error_info"), new))
    if what == "error-same":
        h.oblige("an identical error text notifies nobody", no_notification(h, E.w))
    else:
        h.oblige("a changed error text notifies all subscribers once with the AC id",
                 notified_only(h, E.w, E.both(), [E.number]))


def _zone_updated(h, g):
    E = AcEnv(h, g)
    r = h.method(E.ac, "_zone_updated", h.int("zone_id", 0, 15))
    h.oblige("never raises", r.ok)
    h.oblige("a zone change reaches the AC's general subscribers (with the AC id) but not its AC-state-only subscribers",
             notified_only(h, E.w, E.subs, [E.number]))
    if not h.symbolic:
        return
    s = SubscriberModel(E.w, "s")
    for sub, unsub, target in (("subscribe", "unsubscribe", E.subs), ("subscribe_ac_state", "unsubscribe_ac_state", E.subs_state)):
        h.method(E.ac, sub, s)
        h.method(E.ac, sub, s)
        h.oblige(f"{sub} twice registers once, in the right set", target.added == [s])
        h.method(E.ac, unsub, s)
        h.oblige(f"{unsub} removes it", And(target.added == [], s in target.removed))


# ---- commands ----------------------------------------------------------------------------------


def _stored(h, E):
    return (h.attr(E.ac, "_ac_status"), h.attr(E.ac, "_ac_timer_status"), h.attr(E.ac, "_ac_error_info"))


def _one_frame(h, E, r):
    st = getattr(E, "stored0", None)
    if st is not None:
        now = _stored(h, E)
        h.oblige("a command does not touch the stored console reports (only frames from the console do)",
                 And(now[0] is st[0], now[1] is st[1], now[2] is st[2]))
    h.oblige("the call succeeds", r.ok)
    h.oblige("exactly one frame is submitted", len(E.sock.sent) == 1)
    if len(E.sock.sent) != 1:
        return None
    msg, pol = E.sock.sent[0]
    out, hdr, size = encode_payload(h, GEN[E.g]["registry"], msg)
    return msg, pol, out, hdr


def _ac_payload(h, g, out, sub=0x22):
    items = h.items(out.value)
    if g == 4:
        return items if len(items) == 4 else None
    if len(items) != 12:
        return None
    s = items[:8]
    h.oblige("0xC0 sub-header: sub type, no normal data, one repeat of 4 bytes",
             And(s[0] == sub, s[1] == 0, s[2] == 0, s[3] == 0, s[4] == 0, s[5] == 4, s[6] == 0, s[7] == 1))
    return items[8:]


def _fields(h, g, b):
    """(ac, power code, mode code or 'keep', fan code or 'keep', setpoint-kept?) per the vendor layout."""
    if g == 4:
        return dict(ac=b[0] % 64, power=b[0] // 64, mode=b[1] // 16, fan=b[1] % 16, sp_keep=And((b[2] // 64) == 0, (b[2] % 64) == 0x3F), zero=b[3] == 0)
    return dict(ac=b[0] % 16, power=b[0] // 16, mode=b[1] // 16, fan=b[1] % 16, sp_keep=b[2] == 0x00, zero=True)


def _keep_mode(g, c):
    return c > 4


def _keep_fan(g, c):
    return And(c > 6, c != 8) if g == 5 else c > 6


def _keep_power(g, c):
    return c == 0 if g == 4 else Or(c == 0, c > 5)


def _set_power(h, g):
    G = GEN[g]
    E = AcEnv(h, g)
    pc = h.enum("power_control", API + ":AcPowerControl")
    E.snapshot()
    r = h.method(E.ac, "set_power", pc)
    code = h.enum_code(pc, API + ":AcPowerControl", POWER_CTRL_CODE)
    if g == 4 and h.branch(code >= 4):
        h.oblige("away / sleep do not exist on the AirTouch 4: ValueError", r.raised("ValueError"))
        h.oblige("...and nothing is transmitted", len(E.sock.sent) == 0)
        return
    res = _one_frame(h, E, r)
    if res is None:
        return
    msg, pol, out, hdr = res
    toggle = code == 1
    h.oblige("a power toggle is never retried (RETRY_NON_IDEMPOTENT); absolute settings use RETRY_IDEMPOTENT",
             policy_is(h, pol, "RETRY_NON_IDEMPOTENT") if h.branch(toggle) else policy_is(h, pol, "RETRY_IDEMPOTENT"))
    h.oblige("the message is encodable", out.ok)
    if not out.ok:
        return
    b = _ac_payload(h, g, out)
    h.oblige("payload layout", b is not None)
    if b is None:
        return
    f = _fields(h, g, b)
    h.oblige("addresses this AC", f["ac"] == E.number)
    h.oblige("power field = the requested power control", f["power"] == code)
    h.oblige("mode: keep", _keep_mode(g, f["mode"]))
    h.oblige("fan speed: keep", _keep_fan(g, f["fan"]))
    h.oblige("set-point: keep", f["sp_keep"])
    h.oblige("reserved byte", f["zero"])
    h.cover("set_power frame")


def _set_mode(h, g):
    G = GEN[g]
    E = AcEnv(h, g)
    mode = h.enum("mode", API + ":AcMode")
    power_on = h.bool("power_on")
    E.snapshot()
    r = h.method(E.ac, "set_mode", mode, power_on=power_on)
    code = h.enum_code(mode, API + ":AcMode", MODE_CODE)
    sup = h.attr(E.ability, "ac_mode_support")
    supported = Or(*[And(code == MODE_CODE[m], sup[h.member(G["ctrl"] + ":AcModeControl", m)]) for m in MODES])
    if not h.branch(supported):
        h.oblige("a mode the unit does not advertise raises ValueError", r.raised("ValueError"))
        h.oblige("...and nothing is transmitted", len(E.sock.sent) == 0)
        return
    res = _one_frame(h, E, r)
    if res is None:
        return
    msg, pol, out, hdr = res
    h.oblige("setting a mode is idempotent: RETRY_IDEMPOTENT", policy_is(h, pol, "RETRY_IDEMPOTENT"))
    h.oblige("the message is encodable", out.ok)
    if not out.ok:
        return
    b = _ac_payload(h, g, out)
    h.oblige("payload layout", b is not None)
    if b is None:
        return
    f = _fields(h, g, b)
    h.oblige("addresses this AC", f["ac"] == E.number)
    h.oblige("mode field = the requested mode", f["mode"] == code)
    h.oblige("power: 'set to on' iff power_on was requested, keep otherwise", ite(power_on, f["power"] == 3, _keep_power(g, f["power"])))
    h.oblige("fan speed: keep", _keep_fan(g, f["fan"]))
    h.oblige("set-point: keep", f["sp_keep"])
    h.cover("set_mode frame")


def _set_fan(h, g):
    G = GEN[g]
    E = AcEnv(h, g)
    fs = h.enum("fan_speed", API + ":AcFanSpeed")
    E.snapshot()
    r = h.method(E.ac, "set_fan_speed", fs)
    code = h.enum_code(fs, API + ":AcFanSpeed", FAN_CODE)
    sup = h.attr(E.ability, "fan_speed_support")
    supported = Or(*[And(code == FAN_CODE[f], sup[h.member(G["ctrl"] + ":AcFanSpeedControl", f)]) for f in G["fans"]])
    if not h.branch(supported):
        h.oblige("a fan speed the unit does not advertise raises ValueError", r.raised("ValueError"))
        h.oblige("...and nothing is transmitted", len(E.sock.sent) == 0)
        return
    res = _one_frame(h, E, r)
    if res is None:
        return
    msg, pol, out, hdr = res
    h.oblige("setting a fan speed is idempotent: RETRY_IDEMPOTENT", policy_is(h, pol, "RETRY_IDEMPOTENT"))
    h.oblige("the message is encodable", out.ok)
    if not out.ok:
        return
    b = _ac_payload(h, g, out)
    h.oblige("payload layout", b is not None)
    if b is None:
        return
    f = _fields(h, g, b)
    h.oblige("addresses this AC", f["ac"] == E.number)
    h.oblige("fan field = the requested fan speed", f["fan"] == code)
    h.oblige("power: keep", _keep_power(g, f["power"]))
    h.oblige("mode: keep", _keep_mode(g, f["mode"]))
    h.oblige("set-point: keep", f["sp_keep"])
    h.cover("set_fan frame")


def _set_target(h, g):
    G = GEN[g]
    E = AcEnv(h, g)
    rec = ac_record(h, g, "r_", number=E.number)
    h.setattr(E.ac, "_ac_status", rec)
    t = h.real("temperature", -20, 80)
    lo = h.prop(E.ac, "min_target_temperature").value
    hi = h.prop(E.ac, "max_target_temperature").value
    h.assume(lo <= hi, "the console's limits are ordered (min <= max)")
    E.snapshot()
    r = h.method(E.ac, "set_target_temperature", t)
    res = _one_frame(h, E, r)
    if res is None:
        return
    msg, pol, out, hdr = res
    h.oblige("setting a set-point is idempotent: RETRY_IDEMPOTENT", policy_is(h, pol, "RETRY_IDEMPOTENT"))
    h.oblige("a clamped set-point is always encodable", out.ok)
    if not out.ok:
        return
    b = _ac_payload(h, g, out)
    h.oblige("payload layout", b is not None)
    if b is None:
        return
    # obligations about rounding are stated over exact values (natively: the rationals the floats are)
    t, lo, hi = h.exact(t), h.exact(lo), h.exact(hi)
    if g == 4:
        f = dict(ac=b[0] % 64, power=b[0] // 64, mode=b[1] // 16, fan=b[1] % 16)
        h.oblige("set-point control = 01 set value", (b[2] // 64) == 1)
        sp = h.exact(b[2] % 64)
        res_half = h.exact(1) / 2
    else:
        f = dict(ac=b[0] % 16, power=b[0] // 16, mode=b[1] // 16, fan=b[1] % 16)
        h.oblige("set-point control byte = 0x40 change setpoint", b[2] == 0x40)
        sp = (h.exact(b[3]) + 100) / 10
        res_half = h.exact(1) / 20
    h.oblige("addresses this AC", f["ac"] == E.number)
    h.oblige("power: keep", _keep_power(g, f["power"]))
    h.oblige("mode: keep", _keep_mode(g, f["mode"]))
    h.oblige("fan speed: keep", _keep_fan(g, f["fan"]))
    # rounded to the resolution, then clamped into [min, max] of the current mode
    inside = And(t >= lo - res_half, t <= hi + res_half)
    h.oblige("the transmitted set-point lies inside the current [min, max]", And(sp >= lo, sp <= hi))
    h.oblige("inside the limits the transmitted set-point is the request rounded to the resolution",
             Implies(And(t >= lo, t <= hi), And(sp - t <= res_half, t - sp <= res_half)))
    h.oblige("below the minimum the minimum is sent, above the maximum the maximum",
             And(Implies(t < lo - res_half, h.eq(sp, lo)), Implies(t > hi + res_half, h.eq(sp, hi))))
    h.cover("set_target frame")


def _timers(h, g):
    G = GEN[g]
    E = AcEnv(h, g)
    tr = timer_record(h, g, "last_", E.number)
    h.setattr(E.ac, "_ac_timer_status", tr)
    which = h.choice("timer_type", ["ON_TIMER", "OFF_TIMER"])
    op = h.choice("operation", ["set-time", "clear", "set-duration", "bad-type"])
    tt = h.member(API + ":AcTimerType", which)
    E.snapshot()
    if op == "set-time":
        hour, minute = h.int("hour", 0, 23), h.int("minute", 0, 59)
        r = h.method(E.ac, "set_quick_timer", tt, h.time(hour, minute))
    elif op == "clear":
        r = h.method(E.ac, "clear_quick_timer", tt)
    elif op == "set-duration":
        dur = h.timedelta_minutes(h.int("minutes", 0, 100000))
        r = h.method(E.ac, "set_quick_timer", tt, dur)
    else:
        r = h.method(E.ac, "set_quick_timer", tt, 17)
        h.oblige("a value that is neither a time nor a duration raises ValueError and transmits nothing",
                 And(r.raised("ValueError"), len(E.sock.sent) == 0))
        return
    h.oblige("the call succeeds", r.ok)
    now = _stored(h, E)
    h.oblige("a timer command does not touch the stored console reports (the other timer stays 'as last reported' for later calls too)",
             And(now[0] is E.stored0[0], now[1] is E.stored0[1], now[2] is E.stored0[2]))
    h.oblige("exactly one frame is submitted", len(E.sock.sent) == 1)
    if len(E.sock.sent) != 1:
        return
    msg, pol = E.sock.sent[0]
    h.oblige("timer commands are idempotent: RETRY_IDEMPOTENT", policy_is(h, pol, "RETRY_IDEMPOTENT"))
    if op == "set-duration":
        sub = h.attr(msg, "sub_message") if h.isinstance(msg, G["ext"] + ":ExtendedMessage") else None
        ok = sub is not None and h.isinstance(sub, G["quick"] + ":QuickTimerMessage")
        h.oblige("a duration is sent as an extended quick-timer message", ok)
        if ok:
            h.oblige("...for this AC, the requested timer type and that very duration",
                     And(h.eq(h.attr(sub, "ac_number"), E.number), h.attr(sub, "duration") is dur,
                         h.is_member(h.attr(sub, "timer_type"), G["quick"] + ":TimerType", which)))
        return
    inner = msg if g == 4 else (h.attr(msg, "sub_message") if h.isinstance(msg, "pyairtouch.at5.comms.xC0_ctrl_status:ControlStatusMessage") else None)
    ok = inner is not None and h.isinstance(inner, G["timer_ctrl"] + ":AcTimerControlMessage")
    h.oblige("a time of day / a clear is sent as an AC timer control message", ok)
    if not ok:
        return
    lst = h.elems(h.attr(inner, "ac_timer_status"))
    h.oblige("it carries exactly one entry, for this AC", And(len(lst) == 1, h.eq(h.attr(lst[0], "ac_number"), E.number) if lst else False))
    if len(lst) != 1:
        return
    sel = h.attr(lst[0], "on_timer" if which == "ON_TIMER" else "off_timer")
    oth = h.attr(lst[0], "off_timer" if which == "ON_TIMER" else "on_timer")
    last_other = h.attr(tr, "off_timer" if which == "ON_TIMER" else "on_timer")
    if op == "set-time":
        h.oblige("the selected timer is enabled at the requested hour and minute",
                 And(h.eq(h.attr(sel, "disabled"), False), h.eq(h.attr(sel, "hour"), hour), h.eq(h.attr(sel, "minute"), minute)))
    else:
        h.oblige("the selected timer is disabled", h.eq(h.attr(sel, "disabled"), True))
    h.oblige("the other timer is exactly as last reported", h.eq(oth, last_other))
    h.cover("timer command explored")


def _register(g):
    n = f"at{g}.ac"
    G = GEN[g]
    getters = ["ac_id", "name", "supported_power_controls", "supported_modes", "supported_fan_speeds", "power_state",
               "selected_mode", "active_mode", "selected_fan_speed", "active_fan_speed", "current_temperature",
               "target_temperature", "target_temperature_resolution", "min_target_temperature", "max_target_temperature",
               "spill_state", "error_info"]
    A = ["round(): correctly rounded, ties to even (CPython)", "floats treated as exact reals (decifloat abstraction)"]
    oset(n + ".init", ["C09", "C10", "C11", "C12", "C19"], [_fn(g, "__init__")])(lambda h: _init(h, g))
    oset(n + ".getters", ["C10", "C19", "C04", "C11"], [_fn(g, x) for x in getters])(lambda h: _getters(h, g))
    oset(n + ".next_quick_timer", ["C10", "C19"], [_fn(g, "next_quick_timer")])(lambda h: _timer_getter(h, g))
    oset(n + ".update_ac_status", ["C10", "C12", "C02", "C14", "C19"], [_fn(g, "update_ac_status")],
         assumptions=["socket.send of the error-information request does not raise (socket open, queue not full); otherwise the notification is skipped"])(lambda h: _update_status(h, g))
    oset(n + ".update_timer_and_error", ["C10", "C12", "C19"], [_fn(g, "update_ac_timer_status"), _fn(g, "update_ac_error_info")])(lambda h: _update_timer_and_error(h, g))
    oset(n + ".zone_updated-and-subscriptions", ["C12"], [_fn(g, "_zone_updated"), _fn(g, "subscribe"), _fn(g, "unsubscribe"),
                                                          _fn(g, "subscribe_ac_state"), _fn(g, "unsubscribe_ac_state")])(lambda h: _zone_updated(h, g))
    oset(n + ".set_power", ["C04", "C11", "C02", "C19", "C07"], [_fn(g, "set_power"), _fn(g, "_send_ac_control_message")])(lambda h: _set_power(h, g))
    oset(n + ".set_mode", ["C04", "C11", "C02", "C19", "C07"], [_fn(g, "set_mode"), _fn(g, "_send_ac_control_message")])(lambda h: _set_mode(h, g))
    oset(n + ".set_fan_speed", ["C04", "C11", "C02", "C19", "C07"], [_fn(g, "set_fan_speed"), _fn(g, "_send_ac_control_message")])(lambda h: _set_fan(h, g))
    oset(n + ".set_target_temperature", ["C04", "C11", "C02", "C19", "C07"], [_fn(g, "set_target_temperature"), _fn(g, "_send_ac_control_message"),
                                                                      _fn(g, "min_target_temperature"), _fn(g, "max_target_temperature")],
         assumptions=A + ["console limits are ordered (min <= max) and representable (AT4: 0..63, AT5: 10..35 degC)"])(lambda h: _set_target(h, g))
    oset(n + ".quick_timers", ["C04", "C11", "C02", "C19", "C07"], [_fn(g, "set_quick_timer"), _fn(g, "clear_quick_timer"), _fn(g, G["timer_send"])])(lambda h: _timers(h, g))


_register(4)
_register(5)
