"""AirTouch4 / AirTouch5 top-level objects: initialisation state machine (C09), refresh after
reconnection and AT4 group-status poll (C14), shutdown (C15), dispatch of status frames to the model
(C10), console-version notifications (C12), heartbeat response matcher (C08), update check (C04).

Oracle for the state machine: the property statement - six requests, one at a time, in the fixed order
version, names, AC abilities, AC status, timer status, zone status; every other (state, frame) pair
changes nothing and sends nothing; AT5: an echoed names / zone-status request addressed to the client
(to-address 0xB0) counts as an empty answer (docs/design.md "Support for systems without zones").
"""
from pyvc.values import unmodelled as _unmodelled  # noqa: E402
from pyvc import aio, sym
from pyvc.sym import And, Or, Not, Implies, ite
from pyvc.vc import oset
from pyvc.values import Coroutine, Instance, Builtin, Opaque
from pyvc.interp import PathEnd, LoopCut
from pyvc.world import World, AbsSet
from contracts.api_common import (api_world, policy_is, notified_only, no_notification, subscriber_set, API, SOCK)
from contracts.heartbeat import install_deadline_loop

GEN = {
    4: dict(api="pyairtouch.at4.api", cls="AirTouch4", comms="pyairtouch.at4.comms.",
            names_state="INIT_GROUP_NAMES", zstatus_state="INIT_GROUP_STATUS", model="AIRTOUCH_4", port=9004,
            names_mod="x1FFF12_group_names", names_msg="GroupNamesMessage", names_req="GroupNamesRequest", names_field="group_number",
            zstatus_mod="x2B_group_status", zstatus_msg="GroupStatusMessage", zstatus_req="GroupStatusRequest",
            acstatus_mod="x2D_ac_status", timer_mod="x37_ac_timer_status", c0=None,
            p_names="_process_group_names_message", p_zstatus="_process_group_status_message"),
    5: dict(api="pyairtouch.at5.api", cls="AirTouch5", comms="pyairtouch.at5.comms.",
            names_state="INIT_ZONE_NAMES", zstatus_state="INIT_ZONE_STATUS", model="AIRTOUCH_5", port=9005,
            names_mod="x1FFF13_zone_names", names_msg="ZoneNamesMessage", names_req="ZoneNamesRequest", names_field="zone_number",
            zstatus_mod="xC021_zone_status", zstatus_msg="ZoneStatusMessage", zstatus_req="ZoneStatusRequest",
            acstatus_mod="xC023_ac_status", timer_mod="xC033_ac_timer_status", c0="xC0_ctrl_status",
            p_names="_process_zone_names_message", p_zstatus="_process_zone_status_message"),
}
STEPS = ["ver", "names", "ability", "acstatus", "timer", "zstatus"]  # the fixed order of the six requests


def init_states(g):
    G = GEN[g]
    return ["INIT_VERSION", G["names_state"], "INIT_AC_ABILITY", "INIT_AC_STATUS", "INIT_AC_TIMER_STATUS", G["zstatus_state"]]


def all_states(g):
    return ["CLOSED", "CONNECTING"] + init_states(g) + ["CONNECTED"]


def _fn(g, name):
    return f"{GEN[g]['api']}:{GEN[g]['cls']}.{name}"


class Hb:
    """The heartbeat manager as the AirTouch object uses it (its own contract is in contracts/heartbeat.py)."""

    def __init__(self, world):
        self.w = world

    def py_getattr(self, it, name):
        if name in ("start", "stop"):
            def call():
                def run(it2):
                    self.w.event("heartbeat." + name)
                    aio.suspend(it2, ("heartbeat." + name,))
                return aio.Awaitable("heartbeat." + name, run)
            return Builtin("heartbeat." + name, call)
        raise _unmodelled(self, name)


class Env:
    def __init__(self, h, g, state=None):
        G = GEN[g]
        self.h, self.g, self.G = h, g, G
        self.w, self.sock = api_world(h)
        self.state_at_send = []
        r = h.call(G["api"] + ":" + G["cls"], aio.LoopModel(), "AT-ID", "SERIAL", "Name", self.sock)
        self.ctor = r
        self.at = r.value
        self.matcher = h.attr(h.attr(h.attr(self.at, "_heartbeat_manager"), "_config"), "response_match")
        self.hb_message = h.attr(h.attr(h.attr(self.at, "_heartbeat_manager"), "_config"), "message")
        h.setattr(self.at, "_heartbeat_manager", Hb(self.w))
        subs_obj, self.subs = subscriber_set(h, self.w, "airtouch_subscribers")
        h.setattr(self.at, "_subscribers", subs_obj)
        self.States = G["api"] + ":_AirTouchState"
        if state is not None:
            h.setattr(self.at, "_state", h.member(self.States, state))
        self.process_calls = []
        self.at_process = []  # (initialised flag, state, heartbeat starts) when a model update begins
        # record the state visible at each send (the state must be assigned before the request goes out)
        self.w.site_checks.append(self._on_event)

    def _on_event(self, e):
        if e[0] == "send":
            self.state_at_send.append(self.h.attr(self.at, "_state"))

    def state(self):
        return self.h.attr(self.at, "_state").name

    # -- accessors shared with NativeEnv (the native reading of the same obligations) ------------
    def hb_starts(self):
        return len(self.w.events("heartbeat.start"))

    def hb_stops(self):
        return len(self.w.events("heartbeat.stop"))

    def init_flag(self):
        return self.h.attr(self.at, "_initialised_event").flag

    def set_init_flag(self, v):
        self.h.attr(self.at, "_initialised_event").flag = v

    def gs_flag(self):
        return self.h.attr(self.at, "_group_status_received_event").flag

    def tasks_created(self):
        return [e[1].coro.func.name for e in self.w.events("create_task") if isinstance(e[1].coro, Coroutine)]

    def install_poll_task(self, cancelled):
        t = aio.create_task(self.h.it, Opaque("old-poll-coro"))
        t.cancelled = cancelled
        self.h.it.path.events.clear()
        self.h.setattr(self.at, "_group_status_request_task", t)
        return t

    def task_cancelled_and_awaited(self, t):
        ev = self.h.it.path.events
        return And(any(e[0] == "task.cancel" and e[1] is t for e in ev), any(e[0] == "task.await" and e[1] is t for e in ev))

    def socket_calls(self, name):
        return len([e for e in self.h.it.path.events if e[0] == "call" and e[1] == name])

    def on_suspension(self, fn):
        """fn() is called at every point where the coroutine under contract suspends."""
        self.w.site_checks.append(lambda e: fn() if e[0] == "suspend" else None)

    def put_model(self):
        self.h.attr(self.at, "_air_conditioners")[0] = Opaque("ac0")
        self.h.attr(self.at, "_zones")[3] = Opaque("zone3")

    def stub_process(self):
        """The _process_* methods by contract (they have their own obligation sets)."""
        G, g = self.G, self.g
        for name, is_async in ((G["p_names"], False), ("_process_ac_ability_message", False),
                               ("_process_ac_status_message", True), ("_process_ac_timer_status_message", True),
                               (G["p_zstatus"], True), ("_process_ac_error_info_message", True),
                               ("_process_console_version_update", True)):
            self._stub(name, is_async)

    def _stub(self, name, is_async):
        def snap():
            ev = self.h.attr(self.at, "_initialised_event")
            self.at_process.append((getattr(ev, "flag", None), self.state(), len(self.w.events("heartbeat.start"))))

        def hook(it, fn, args, kwargs):
            rec = (name, list(args[1:]))
            if not is_async:
                self.process_calls.append(rec)
                snap()
                self.w.event("process", name)
                return None

            def run(it2):
                self.process_calls.append(rec)
                snap()
                self.w.event("process", name)
                aio.suspend(it2, ("process", name))
                for f in getattr(self, "during_process", []):
                    f()   # what another task did while the model update was suspended
            return aio.Awaitable(name, run)
        self.h.it.call_hooks[_fn(g_of(self), name)] = hook


def g_of(env):
    return env.g


class NativeEnv:
    """The native reading of Env: the real AirTouch object of the real package on CPython, with recording stand-ins
    for what Env gives by contract (socket, heartbeat manager, loop.create_task, the _process_* methods)."""

    def __init__(self, h, g, state=None):
        import asyncio
        G = GEN[g]
        self.h, self.g, self.G = h, g, G
        self.w, self.sock = api_world(h)
        env = self
        self.state_at_send, self.process_calls, self.at_process = [], [], []
        self._hb = {"start": 0, "stop": 0}
        self._tasks, self._sock_calls = [], []

        class Task:
            def __init__(self, name, cancelled=False):
                self.name, self.cancelled_, self.awaited = name, cancelled, 0

            def cancel(self):
                self.cancelled_ = True
                return True

            def done(self):
                return self.cancelled_

            def add_done_callback(self, cb):
                pass

            def __await__(self):
                self.awaited += 1
                for f in env._susp:
                    f()
                if self.cancelled_:
                    raise asyncio.CancelledError()
                return None
                yield  # pragma: no cover

        class Loop:
            def create_task(self, coro, **k):
                name = getattr(coro, "__qualname__", repr(coro)).split(".")[-1]
                coro.close()
                t = Task(name)
                env._tasks.append(t)
                return t

            def time(self):
                return 0.0
        self.Task = Task

        self._susp = []

        def suspended():
            for f in env._susp:
                f()

        class HbStub:
            async def start(self):
                suspended()
                env._hb["start"] += 1

            async def stop(self):
                suspended()
                env._hb["stop"] += 1

        orig_send = self.sock.send

        async def send(message=None, retry_policy=None):
            env.state_at_send.append(env.at._state)
            await orig_send(message=message, retry_policy=retry_policy)
        self.sock.send = send
        for nm in ("open_socket", "close", "reset_connection"):
            async def call(_nm=nm):
                for f in env._susp:
                    f()
                env._sock_calls.append(_nm)
            setattr(self.sock, nm, call)
        for nm in ("subscribe_on_connection_changed", "subscribe_on_message_received", "unsubscribe_on_connection_changed",
                   "unsubcribe_on_message_received"):
            setattr(self.sock, nm, lambda cb, _nm=nm: env._sock_calls.append(_nm))
        r = h.call(G["api"] + ":" + G["cls"], Loop(), "AT-ID", "SERIAL", "Name", self.sock)
        self.ctor = r
        self.at = r.value
        cfg = self.at._heartbeat_manager._config
        self.matcher, self.hb_message = cfg.response_match, cfg.message
        self.at._heartbeat_manager = HbStub()
        subs_obj, self.subs = subscriber_set(h, self.w, "airtouch_subscribers")
        self.at._subscribers = subs_obj
        self.States = G["api"] + ":_AirTouchState"
        if state is not None:
            self.at._state = h.member(self.States, state)

    def state(self):
        return self.at._state.name

    def stub_process(self):
        G = self.G
        env = self
        for name, is_async in ((G["p_names"], False), ("_process_ac_ability_message", False), ("_process_ac_status_message", True),
                               ("_process_ac_timer_status_message", True), (G["p_zstatus"], True), ("_process_ac_error_info_message", True),
                               ("_process_console_version_update", True)):
            def rec(*a, _name=name):
                env.process_calls.append((_name, list(a)))
                env.at_process.append((env.at._initialised_event.is_set(), env.state(), env._hb["start"]))
            if is_async:
                async def stub(*a, _rec=rec):
                    _rec(*a)
                    for f in getattr(env, "during_process", []):
                        f()   # what another task did while the model update was suspended
            else:
                def stub(*a, _rec=rec):
                    _rec(*a)
            setattr(self.at, name, stub)

    def hb_starts(self):
        return self._hb["start"]

    def hb_stops(self):
        return self._hb["stop"]

    def init_flag(self):
        return self.at._initialised_event.is_set()

    def set_init_flag(self, v):
        (self.at._initialised_event.set if v else self.at._initialised_event.clear)()

    def gs_flag(self):
        return self.at._group_status_received_event.is_set()

    def tasks_created(self):
        return [t.name for t in self._tasks]

    def install_poll_task(self, cancelled):
        t = self.Task("old-poll", cancelled)
        self.at._group_status_request_task = t
        return t

    def task_cancelled_and_awaited(self, t):
        return t.cancelled_ and t.awaited >= 1

    def socket_calls(self, name):
        return self._sock_calls.count(name)

    def on_suspension(self, fn):
        self._susp.append(fn)

    def put_model(self):
        self.at._air_conditioners[0] = object()
        self.at._zones[3] = object()


def make_env(h, g, state=None):
    return Env(h, g, state) if h.symbolic else NativeEnv(h, g, state)


def shapes(h, g):
    """One message object per frame shape the console (or anybody else) can send."""
    G = GEN[g]
    C = G["comms"]
    ext = lambda sub: h.new(C + "x1F_ext:ExtendedMessage", sub)  # noqa: E731
    c0 = (lambda sub: h.new(C + "xC0_ctrl_status:ControlStatusMessage", sub)) if g == 5 else (lambda sub: sub)
    unsup = h.new("pyairtouch.comms:UnsupportedMessage", unsupported_id=0x99, raw_data=h.mkbytes([1, 2]))
    S = {
        "ver": ext(h.new(C + "x1FFF30_console_ver:ConsoleVersionMessage", update_available=True, versions=["1.2.3"])),
        "names": ext(h.new(C + G["names_mod"] + ":" + G["names_msg"], {})),
        "ability": ext(h.new(C + "x1FFF11_ac_ability:AcAbilityMessage", [])),
        "acstatus": c0(h.new(C + G["acstatus_mod"] + ":AcStatusMessage", [])),
        "timer": c0(h.new(C + G["timer_mod"] + ":AcTimerStatusMessage", [])),
        "zstatus": c0(h.new(C + G["zstatus_mod"] + ":" + G["zstatus_msg"], [])),
        "err": ext(h.new(C + "x1FFF10_err_info:AcErrorInformationMessage", ac_number=0, error_info=None)),
        "ver-request": ext(h.new(C + "x1FFF30_console_ver:ConsoleVersionRequest")),
        "names-request": ext(h.new(C + G["names_mod"] + ":" + G["names_req"], "ALL")),
        "ability-request": ext(h.new(C + "x1FFF11_ac_ability:AcAbilityRequest", "ALL")),
        "acstatus-request": c0(h.new(C + G["acstatus_mod"] + ":AcStatusRequest")),
        "timer-request": c0(h.new(C + G["timer_mod"] + ":AcTimerStatusRequest")),
        "zstatus-request": c0(h.new(C + G["zstatus_mod"] + ":" + G["zstatus_req"])),
        "unsupported": unsup,
        "ext-unsupported": ext(unsup),
    }
    if g == 5:
        S["c0-unsupported"] = c0(unsup)
    return S


def is_request(h, g, msg, step):
    """msg is the request of `step` as the property orders them."""
    G = GEN[g]
    C = G["comms"]
    ext_cls, c0_cls = C + "x1F_ext:ExtendedMessage", C + "xC0_ctrl_status:ControlStatusMessage"

    def ext_sub(cls):
        return h.isinstance(msg, ext_cls) and h.isinstance(h.attr(msg, "sub_message"), cls)

    def c0_sub(cls):
        if g == 4:
            return h.isinstance(msg, cls)
        return h.isinstance(msg, c0_cls) and h.isinstance(h.attr(msg, "sub_message"), cls)

    if step == "ver":
        return ext_sub(C + "x1FFF30_console_ver:ConsoleVersionRequest")
    if step == "names":
        cls = C + G["names_mod"] + ":" + G["names_req"]
        return ext_sub(cls) and h.attr(h.attr(msg, "sub_message"), G["names_field"]) == "ALL"
    if step == "ability":
        return ext_sub(C + "x1FFF11_ac_ability:AcAbilityRequest") and h.attr(h.attr(msg, "sub_message"), "ac_number") == "ALL"
    if step == "acstatus":
        return c0_sub(C + G["acstatus_mod"] + ":AcStatusRequest")
    if step == "timer":
        return c0_sub(C + G["timer_mod"] + ":AcTimerStatusRequest")
    return c0_sub(C + G["zstatus_mod"] + ":" + G["zstatus_req"])


def expected(g, state, shape, to_is_client):
    """(next state, request sent or None, process call or None, completes initialisation?)"""
    G = GEN[g]
    ist = init_states(g)
    proc = {"ver": None, "names": G["p_names"], "ability": "_process_ac_ability_message",
            "acstatus": "_process_ac_status_message", "timer": "_process_ac_timer_status_message", "zstatus": G["p_zstatus"]}
    if state in ist:
        i = ist.index(state)
        answer = STEPS[i]
        echo_empty = g == 5 and to_is_client and ((answer == "names" and shape == "names-request") or (answer == "zstatus" and shape == "zstatus-request"))
        if shape == answer or echo_empty:
            p = None if echo_empty else proc[answer]
            if i < 5:
                return ist[i + 1], STEPS[i + 1], p, False
            return "CONNECTED", None, p, True
    if state == "CONNECTED":
        if shape in ("acstatus", "timer", "zstatus"):
            return state, None, proc[shape], False
        if shape == "ver":
            return state, None, "_process_console_version_update", False
    if shape == "err":
        return state, None, "_process_ac_error_info_message", False
    return state, None, None, False


def _message_received(h, g):
    G = GEN[g]
    state = h.choice("state", all_states(g))
    E = make_env(h, g, state)
    S = shapes(h, g)
    shape = h.choice("frame", sorted(S.keys()))
    to_client = h.choice("to_address_is_client", [True, False])
    hdr_mod = G["comms"] + "hdr"
    hdr = h.new(hdr_mod + (":At4Header" if g == 4 else ":At5Header"), to_address=0xB0 if to_client else 0x80,
                from_address=0x80, packet_id=1, message_id=h.attr(S[shape], "message_id"), message_length=0)
    E.stub_process()
    old_version = h.attr(E.at, "_console_version")
    if g == 4 and h.choice("poll_task_left_over_from_an_earlier_session", [False, True]):
        # after shutdown() the attribute may still refer to the cancelled task of the previous session
        E.install_poll_task(cancelled=True)
    r = h.method(E.at, "_message_received", hdr, S[shape])
    nxt, req, proc, done = expected(g, state, shape, to_client)
    h.oblige("_message_received never raises", r.ok)
    h.oblige("next state is the one the fixed handshake order prescribes (unexpected frames change nothing)", E.state() == nxt)
    sent = E.sock.sent
    if req is None:
        h.oblige("no request is sent for this (state, frame) pair", len(sent) == 0)
    else:
        h.oblige("exactly one request is sent: the next one of the fixed order", And(len(sent) == 1, is_request(h, g, sent[0][0], req) if sent else False))
        if sent:
            h.oblige("handshake requests are only sent while connected (RETRY_CONNECTED)", policy_is(h, sent[0][1], "RETRY_CONNECTED"))
            h.oblige("the state is advanced before the request goes out", E.state_at_send[0].name == nxt)
    calls = [c[0] for c in E.process_calls]
    h.oblige("the frame is handed to the right model update, and only to it", calls == ([proc] if proc else []))
    if proc and E.process_calls:
        payload = h.attr(S[shape], "sub_message") if (shape in ("ver", "names", "ability", "err") or g == 5) else S[shape]
        arg = E.process_calls[0][1][0]
        fld = {"names": "group_names" if g == 4 else "zone_names", "ability": "ac_abilities", "acstatus": "ac_status",
               "timer": "ac_timer_status", "zstatus": "groups" if g == 4 else "zones"}.get(shape)
        h.oblige("...with the records of this very frame", arg is (h.attr(payload, fld) if fld else payload))
    if state == "INIT_VERSION" and shape == "ver":
        h.oblige("the console version of the handshake answer is stored", h.attr(E.at, "_console_version") is h.attr(S[shape], "sub_message"))
    elif proc != "_process_console_version_update":
        h.oblige("the stored console version is untouched", h.attr(E.at, "_console_version") is old_version)
    started = E.hb_starts()
    tasks = E.tasks_created()
    if done:
        h.oblige("completing the last step starts the heartbeat and marks the object initialised", And(started == 1, h.eq(E.init_flag(), True)))
        h.oblige("...only after the model update of that last frame: init() must not return (nor the heartbeat run) while "
                 "zones still show constructor defaults",
                 And(len(E.at_process) == (1 if proc else 0), *[And(h.eq(f, False), st != "CONNECTED", n == 0) for f, st, n in E.at_process]))
        h.oblige("AT4 also starts the group-status poll task (AT5 has none)", tasks == (["_group_status_request_loop"] if g == 4 else []))
    else:
        h.oblige("nothing else starts the heartbeat, creates tasks or marks initialisation", And(started == 0, h.eq(E.init_flag(), False), tasks == []))
    if g == 4:
        h.oblige("the group-status poll deadline is pushed back exactly by group status frames in the CONNECTED state",
                 h.eq(E.gs_flag(), state == "CONNECTED" and shape == "zstatus"))
    h.cover("transition explored")


def _shutdown_meanwhile(h, g):
    """C15 'at any moment, including mid-handshake': three handshake steps await the model update of their frame before
    they advance the machine.  If shutdown() runs while such a step is suspended there (its first atomic segment - state
    CLOSED, initialised flag cleared - is proved by the shutdown contract), the step must be over when it resumes: the
    machine stays CLOSED, nothing is requested, the heartbeat is not started, no task is created, the object does not
    become initialised.  Otherwise a closed client monitors a dead socket for ever and a later init() returns at once
    with an empty model."""
    G = GEN[g]
    ist = init_states(g)
    step = h.choice("step", ["acstatus", "timer", "zstatus"])
    state = ist[STEPS.index(step)]
    E = make_env(h, g, state)
    S = shapes(h, g)
    hdr_mod = G["comms"] + "hdr"
    hdr = h.new(hdr_mod + (":At4Header" if g == 4 else ":At5Header"), to_address=0x80, from_address=0x80, packet_id=1,
                message_id=h.attr(S[step], "message_id"), message_length=0)
    E.stub_process()
    closed = h.member(E.States, "CLOSED")

    def shutdown_ran():
        h.setattr(E.at, "_state", closed)
        E.set_init_flag(False)
    E.during_process = [shutdown_ran]
    r = h.method(E.at, "_message_received", hdr, S[step])
    h.oblige("_message_received never raises", r.ok)
    h.oblige("the frame reached its model update (the step was in progress when shutdown ran)", len(E.process_calls) == 1)
    h.oblige("a handshake step that was suspended while shutdown() ran leaves the machine CLOSED", E.state() == "CLOSED")
    h.oblige("...requests nothing", len(E.sock.sent) == 0)
    h.oblige("...does not start the heartbeat, creates no task and does not mark the object initialised",
             And(E.hb_starts() == 0, E.tasks_created() == [], h.eq(E.init_flag(), False)))
    h.cover("step resumed after shutdown")


def _connection_changed(h, g):
    G = GEN[g]
    state = h.choice("state", all_states(g))
    E = make_env(h, g, state)
    connected = h.choice("connected", [True, False])
    r = h.method(E.at, "_connection_changed", connected=connected)
    h.oblige("_connection_changed never raises", r.ok)
    sent = E.sock.sent
    if not connected:
        h.oblige("a disconnection sends nothing and keeps the state", And(len(sent) == 0, E.state() == state))
    elif state == "CONNECTING":
        h.oblige("first connection: the handshake starts with the console-version request",
                 And(len(sent) == 1, is_request(h, g, sent[0][0], "ver") if sent else False, E.state() == "INIT_VERSION"))
        if sent:
            h.oblige("...sent with RETRY_CONNECTED, after the state was advanced",
                     And(policy_is(h, sent[0][1], "RETRY_CONNECTED"), E.state_at_send[0].name == "INIT_VERSION"))
    else:
        h.oblige("any later (re)connection immediately requests AC status, then zone/group status",
                 And(len(sent) == 2, is_request(h, g, sent[0][0], "acstatus") if len(sent) == 2 else False,
                     is_request(h, g, sent[1][0], "zstatus") if len(sent) == 2 else False))
        h.oblige("...both with RETRY_CONNECTED, and the state is kept",
                 And(all(policy_is(h, p, "RETRY_CONNECTED") for _, p in sent), E.state() == state))
    h.cover("connection change explored")


def _init(h, g):
    if not h.symbolic:
        from replay import native_readings as NR
        return NR.airtouch_init(h, g, GEN)
    E = Env(h, g, "CLOSED")
    it = h.it
    t0 = aio.now(it)
    init_ev = h.attr(E.at, "_initialised_event")
    done_in_time = h.choice("handshake_completes_within_5s", [True, False])

    def wait_for(it2, aw, timeout):
        E.w.event("wait_for", timeout)
        aio.suspend(it2, ("wait_for",))
        if done_in_time:
            it2.path.assume(aio.now(it2) <= t0 + timeout)
            init_ev.flag = True
            return True
        # nobody completed the handshake: the timer fires at exactly start + timeout
        it2.path.ghost["now"] = t0 + timeout
        init_ev.flag = False
        raise it2.exc("TimeoutError")

    it.wait_for_hook = wait_for
    # open_socket does not suspend for long; time spent there is part of the 5 s budget of the statement's reading
    E.w.frozen = True
    r = h.method(E.at, "init")
    h.oblige("init never raises", r.ok)
    ev = it.path.events
    names = [e[0] for e in ev]
    h.oblige("both socket subscriptions are registered before the socket is opened",
             "subscribe_on_connection_changed" in names and "subscribe_on_message_received" in names and ("call", "open_socket") in [(e[0], e[1]) for e in ev if e[0] == "call"]
             and names.index("subscribe_on_connection_changed") < [i for i, e in enumerate(ev) if e[0] == "call" and e[1] == "open_socket"][0]
             and names.index("subscribe_on_message_received") < [i for i, e in enumerate(ev) if e[0] == "call" and e[1] == "open_socket"][0])
    h.oblige("the state machine is armed (CONNECTING) when the socket is opened", E.state() == "CONNECTING")
    wf = [e for e in ev if e[0] == "wait_for"]
    h.oblige("waits for initialisation for at most 5.0 seconds", And(len(wf) == 1, h.eq(wf[0][1], 5.0) if wf else False))
    h.oblige("returns whether the object is initialised", h.eq(r.value, done_in_time) if r.ok else False)
    h.oblige("returns no later than 5 s after the wait started", aio.now(it) <= t0 + 5.0)
    h.oblige("initialised reads the same flag", h.eq(h.prop(E.at, "initialised").value, done_in_time))


def _shutdown(h, g):
    state = h.choice("state", all_states(g))
    E = make_env(h, g, state)
    E.set_init_flag(h.bool("was_initialised"))
    E.put_model()
    task = None
    if g == 4 and h.choice("poll_task_running", [True, False]):
        task = E.install_poll_task(cancelled=False)
    first = {}

    def at_first_suspension():
        if not first:
            first["state"] = E.state()
            first["flag"] = E.init_flag()
    E.on_suspension(at_first_suspension)
    r = h.method(E.at, "shutdown")
    h.oblige("shutdown never raises", r.ok)
    h.oblige("the state machine is CLOSED and the initialised flag cleared before shutdown first suspends "
             "(a frame arriving while it waits must not complete the handshake or restart the heartbeat)",
             And(first.get("state") == "CLOSED", h.eq(first.get("flag"), False)) if first else False)
    h.oblige("state CLOSED, not initialised", And(E.state() == "CLOSED", h.eq(E.init_flag(), False), h.eq(h.prop(E.at, "initialised").value, False)))
    h.oblige("the heartbeat is stopped and the socket closed, exactly once each", And(E.hb_stops() == 1, E.socket_calls("close") == 1))
    if task is not None:
        h.oblige("the group-status poll task is cancelled and awaited", E.task_cancelled_and_awaited(task))
    h.oblige("the model is dropped: no air-conditioners, no zones",
             And(h.length(h.attr(E.at, "_air_conditioners")) == 0, h.length(h.attr(E.at, "_zones")) == 0,
                 h.length(h.prop(E.at, "air_conditioners").value) == 0))
    h.oblige("shutdown sends nothing", len(E.sock.sent) == 0)


def _misc(h, g):
    G = GEN[g]
    E = make_env(h, g, "CONNECTED")
    r = h.method(E.at, "check_for_updates")
    sent = E.sock.sent
    h.oblige("check_for_updates sends exactly one console-version request, retried as an idempotent command",
             And(r.ok, len(sent) == 1, is_request(h, g, sent[0][0], "ver") if sent else False,
                 policy_is(h, sent[0][1], "RETRY_IDEMPOTENT") if sent else False))
    h.oblige("identity properties", And(h.eq(h.prop(E.at, "airtouch_id").value, "AT-ID"), h.eq(h.prop(E.at, "serial").value, "SERIAL"),
                                        h.eq(h.prop(E.at, "name").value, "Name"), h.prop(E.at, "host").value is E.sock.host,
                                        h.prop(E.at, "model").value is h.member(API + ":AirTouchModel", G["model"])))
    h.oblige("default port", h.get(G["api"] + ":DEFAULT_PORT_NUMBER") == G["port"])
    S = shapes(h, g)
    for name, m in sorted(S.items()):
        res = h.call(E.matcher, m)
        want = name in ("ver", "ver-request")
        h.oblige(f"heartbeat response matcher on frame '{name}': true exactly for extended messages carrying the console-version id",
                 And(res.ok, h.eq(res.value, want) if res.ok else False))
    h.oblige("the heartbeat message is the extended console-version request", is_request(h, g, E.hb_message, "ver"))
    cv = h.attr(S["ver"], "sub_message")
    h.setattr(E.at, "_console_version", cv)
    h.oblige("update_available / console_versions read the stored version message",
             And(h.eq(h.prop(E.at, "update_available").value, True), h.eq(h.prop(E.at, "console_versions").value, ["1.2.3"])))
    if not h.symbolic:
        async def s(*a, **k):
            pass

        async def never(*a, **k):
            pass
        before = set(E.at._subscribers)
        E.at.subscribe(s)
        E.at.subscribe(s)
        h.oblige("subscribe twice registers the callable once, in the set the version update notifies",
                 set(E.at._subscribers) - before == {s} and len(E.at._subscribers) == len(before) + 1)
        E.at.unsubscribe(s)
        h.oblige("unsubscribe removes it (and only it)", set(E.at._subscribers) == before)
        r2 = h.method(E.at, "unsubscribe", never)
        h.oblige("unsubscribing a callable that was never subscribed is harmless", r2.ok)
        return
    from pyvc.world import SubscriberModel
    s = SubscriberModel(E.w, "s")
    h.method(E.at, "subscribe", s)
    h.method(E.at, "subscribe", s)
    h.oblige("subscribe twice registers the callable once, in the set the version update notifies", E.subs.added == [s])
    h.method(E.at, "unsubscribe", s)
    h.oblige("unsubscribe removes it (and only it)", And(E.subs.added == [], E.subs.removed == [s]))
    r2 = h.method(E.at, "unsubscribe", SubscriberModel(E.w, "never-subscribed"))
    h.oblige("unsubscribing a callable that was never subscribed is harmless", r2.ok)


def _console_version_update(h, g):
    G = GEN[g]
    C = G["comms"]
    E = make_env(h, g, "CONNECTED")
    old = h.new(C + "x1FFF30_console_ver:ConsoleVersionMessage", update_available=h.bool("old_update"), versions=["1.0", "2.0"])
    new = h.new(C + "x1FFF30_console_ver:ConsoleVersionMessage", update_available=h.bool("new_update"),
                versions=h.choice("new_versions", [["1.0", "2.0"], ["1.1", "2.0"], ["1.0"]]))
    h.setattr(E.at, "_console_version", old)
    r = h.method(E.at, "_process_console_version_update", new)
    h.oblige("never raises", r.ok)
    h.oblige("the latest version message is stored", h.attr(E.at, "_console_version") is new)
    if h.branch(Not(h.eq(old, new))):
        h.oblige("a changed version notifies every AirTouch subscriber once with the AirTouch id", notified_only(h, E.w, E.subs, ["AT-ID"]))
    else:
        h.oblige("an identical version message notifies nobody", no_notification(h, E.w))


def _dispatch(h, g):
    """_process_*_status_message: every record goes, in order, to the entity with that id; unknown ids are skipped
    (last writer wins follows from the update contracts).  Record count enumerated 0..3."""
    G = GEN[g]
    E = make_env(h, g, "CONNECTED")
    kind = h.choice("kind", ["acstatus", "timer", "zstatus", "err"])
    n = h.choice("records", [0, 1, 2, 3]) if kind != "err" else 1
    log = []
    target_attr = "_zones" if kind == "zstatus" else "_air_conditioners"
    method = {"acstatus": "update_ac_status", "timer": "update_ac_timer_status", "err": "update_ac_error_info",
              "zstatus": "update_group_status" if g == 4 else "update_zone_status"}[kind]
    idf = {"acstatus": "ac_number", "timer": "ac_number", "err": "ac_number", "zstatus": "group_number" if g == 4 else "zone_number"}[kind]
    if h.symbolic:
        class Ent:
            def __init__(self, key):
                self.key = key

            def py_truth(self, it):
                return True

            def py_getattr(self, it, name):
                if name == method:
                    def call(x):
                        def run(it2):
                            log.append((self.key, x))
                            aio.suspend(it2, ("update",))
                        return aio.Awaitable(method, run)
                    return Builtin(method, call)
                raise _unmodelled(self, name)

        def record(i, ident):
            return Instance(h.get("pyairtouch.comms:UnsupportedMessage"), {idf: ident, "error_info": "ER", "label": f"r{i}"})
        ident_of = lambda rec: rec.attrs[idf]  # noqa: E731
    else:
        class Ent:
            def __init__(self, key):
                self.key = key

            def __getattr__(self, name):
                if name != method:
                    raise AttributeError(name)

                async def call(x):
                    log.append((self.key, x))
                return call

        class Rec:
            def __init__(self, i, ident):
                setattr(self, idf, ident)
                self.error_info = "ER"
                self.label = f"r{i}"

        def record(i, ident):
            return Rec(i, ident)
        ident_of = lambda rec: getattr(rec, idf)  # noqa: E731
    d = h.attr(E.at, target_attr)
    for k in (0, 2):
        d[k] = Ent(k)
    recs = [record(i, h.int(f"id{i}", 0, 3)) for i in range(n)]
    pname = {"acstatus": "_process_ac_status_message", "timer": "_process_ac_timer_status_message", "zstatus": G["p_zstatus"],
             "err": "_process_ac_error_info_message"}[kind]
    r = h.method(E.at, pname, recs[0] if kind == "err" else recs)
    h.oblige("dispatch never raises", r.ok)
    exp = []
    for rec in recs:
        ident = ident_of(rec)
        for k in (0, 2):
            if h.branch(ident == k):
                exp.append((k, "ER" if kind == "err" else rec))
    h.oblige("each record is applied, in frame order, to the entity with its id; records with unknown ids are skipped",
             And(len(log) == len(exp), all(a[0] == b[0] and a[1] is b[1] for a, b in zip(log, exp))))
    h.cover("dispatch explored")


class AnyRecords:
    """A frame's record list of arbitrary length, as the dispatch loops see it: `for r in records` binds every
    record once, in order.  Rule: (branch 0) the loop body is executed for one arbitrary record (symbolic id),
    (branch 1) after the loop the shared state is arbitrary (the body awaits)."""

    def __init__(self, world, make_record):
        self.w = world
        self.make = make_record
        self.generic = None

    def py_for(self, it, node, env):
        if self.w.nondet(2, "for-every-record") == 0:
            self.generic = self.make()
            it.assign(node.target, self.generic, env)
            from pyvc.interp import _Return, _Break, _Continue
            try:
                it.exec_block(node.body, env)
            except _Continue:
                pass
            except (_Return, _Break):
                it.path.oblige("the loop goes on to the next record after every record (no early return / break)", False, kind="site")
            raise LoopCut()
        aio.suspend(it, ("for-every-record",))
        return None


def _dispatch_any(h, g):
    """_process_*_status_message for a frame with ANY number of records: an arbitrary record is applied to the entity
    with its id (exactly one update call, with that record) and skipped when no entity has that id.  With the update
    contracts (latest record stored) this is 'last writer wins' for partial frames, repeats and unknown ids."""
    if not h.symbolic:
        from replay import native_readings as NR
        return NR.airtouch_dispatch_any(h, g, GEN)
    G = GEN[g]
    E = Env(h, g, "CONNECTED")
    kind = h.choice("kind", ["acstatus", "timer", "zstatus"])
    log = []
    target_attr = "_zones" if kind == "zstatus" else "_air_conditioners"
    method = {"acstatus": "update_ac_status", "timer": "update_ac_timer_status",
              "zstatus": "update_group_status" if g == 4 else "update_zone_status"}[kind]

    class Ent:
        def __init__(self, key):
            self.key = key

        def py_truth(self, it):
            return True

        def py_getattr(self, it, name):
            if name == method:
                def call(x):
                    def run(it2):
                        log.append((self.key, x))
                        aio.suspend(it2, ("update",))
                    return aio.Awaitable(method, run)
                return Builtin(method, call)
            raise _unmodelled(self, name)

    d = h.attr(E.at, target_attr)
    keys = h.choice("known_entities", [[], [0], [0, 2], [1, 3, 15]])
    for k in keys:
        d[k] = Ent(k)
    idf = {"acstatus": "ac_number", "timer": "ac_number", "zstatus": "group_number" if g == 4 else "zone_number"}[kind]
    ident = h.int("record_id", 0, 63)

    def make():
        return Instance(h.get("pyairtouch.comms:UnsupportedMessage"), {idf: ident, "label": "generic-record"})

    recs = AnyRecords(E.w, make)
    pname = {"acstatus": "_process_ac_status_message", "timer": "_process_ac_timer_status_message", "zstatus": G["p_zstatus"]}[kind]
    r = h.method(E.at, pname, recs)
    h.oblige("dispatch never raises", r.ok)
    if recs.generic is None:
        h.oblige("nothing is applied outside the loop over the records", len(log) == 0)
        return
    known = [k for k in keys if h.branch(ident == k)]
    if known:
        h.oblige("a record whose id names a known entity is applied to exactly that entity, once, as it is",
                 And(len(log) == 1, log[0][0] == known[0] if log else False, log[0][1] is recs.generic if log else False))
    else:
        h.oblige("a record with an unknown id is skipped (and does not stop the frame)", len(log) == 0)
    h.cover("arbitrary record dispatched")


def _build_model(h, g):
    """Names then abilities: exactly the zones / ACs the console described, each zone attached to the right AC.
    Installations are enumerated (bounded): 0..3 named zones out of {0, 1, 5}, one or two ACs."""
    G = GEN[g]
    C = G["comms"]
    E = make_env(h, g, G["names_state"])
    zone_ids = h.choice("zones", [[], [0], [0, 1], [0, 1, 5]])
    names = {z: f"Z{z}" for z in zone_ids}
    r = h.method(E.at, G["p_names"], names)
    h.oblige("names processing never raises", r.ok)
    zones = h.attr(E.at, "_zones")
    h.oblige("exactly the named zones exist, keyed by their id", sorted(zones.keys()) == zone_ids)
    for z in zone_ids:
        zo = zones[z]
        h.oblige(f"zone {z}: id, name and socket", And(h.eq(h.prop(zo, "zone_id").value, z), h.eq(h.prop(zo, "name").value, f"Z{z}"),
                                                       h.attr(zo, "_socket") is E.sock))
    mc, fc = C + ("x2C_ac_ctrl" if g == 4 else "xC022_ac_ctrl"), None
    modes = {m: True for m in h.members(mc + ":AcModeControl")}
    fans = {f: True for f in h.members(mc + ":AcFanSpeedControl")}

    def ability(number, **kw):
        if g == 4:
            return h.new(C + "x1FFF11_ac_ability:AcAbility", ac_number=number, ac_name=f"AC{number}", ac_mode_support=modes,
                         fan_speed_support=fans, min_set_point=16, max_set_point=30, **kw)
        return h.new(C + "x1FFF11_ac_ability:AcAbility", ac_number=number, ac_name=f"AC{number}", ac_mode_support=modes,
                     fan_speed_support=fans, min_cool_set_point=16, max_cool_set_point=30, min_heat_set_point=16, max_heat_set_point=30, **kw)

    n = len(zone_ids)
    if g == 4:
        layout = h.choice("layout", ["one-ac-bitmap", "one-ac-empty-bitmap", "one-ac-no-bitmap", "two-acs-bitmap", "two-acs-one-empty-bitmap", "two-acs-ranges"])
        if layout == "one-ac-empty-bitmap":
            # new ability format, AC serving no group: the (present, empty) bitmap wins over the fallbacks
            abl = [ability(0, groups=set_of(h, []), start_group=0, group_count=n)]
            want = {0: []}
        elif layout == "two-acs-one-empty-bitmap":
            abl = [ability(0, groups=set_of(h, zone_ids), start_group=0, group_count=0),
                   ability(1, groups=set_of(h, []), start_group=0, group_count=n)]
            want = {0: zone_ids, 1: []}
        elif layout == "one-ac-bitmap":
            abl = [ability(0, groups=set_of(h, zone_ids[:1]), start_group=9, group_count=7)]
            want = {0: zone_ids[:1]}
        elif layout == "one-ac-no-bitmap":
            abl = [ability(0, groups=None, start_group=0, group_count=0)]
            want = {0: zone_ids}
        elif layout == "two-acs-bitmap":
            abl = [ability(0, groups=set_of(h, zone_ids[1:]), start_group=0, group_count=0),
                   ability(1, groups=set_of(h, zone_ids[:1]), start_group=0, group_count=0)]
            want = {0: zone_ids[1:], 1: zone_ids[:1]}
        else:
            lo = [z for z in zone_ids if z < 2]
            if zone_ids != list(range(len(zone_ids))):
                return  # ranges must name existing zones (self-consistent console)
            abl = [ability(0, groups=None, start_group=0, group_count=1 if n else 0),
                   ability(1, groups=None, start_group=1 if n else 0, group_count=max(n - 1, 0))]
            want = {0: zone_ids[:1], 1: zone_ids[1:]}
    else:
        if zone_ids != list(range(len(zone_ids))):
            return
        layout = h.choice("layout", ["one-ac", "two-acs"])
        if layout == "one-ac":
            abl = [ability(0, start_zone=0, zone_count=n)]
            want = {0: zone_ids}
        else:
            abl = [ability(0, start_zone=0, zone_count=1 if n else 0), ability(1, start_zone=1 if n else 0, zone_count=max(n - 1, 0))]
            want = {0: zone_ids[:1], 1: zone_ids[1:]}
    r = h.method(E.at, "_process_ac_ability_message", abl)
    h.oblige("ability processing never raises for a self-consistent console", r.ok)
    if not r.ok:
        return
    acs = h.attr(E.at, "_air_conditioners")
    h.oblige("exactly the reported air-conditioners exist, keyed by their number", sorted(acs.keys()) == sorted(want.keys()))
    for k, zs in want.items():
        ac = acs[k]
        got = [h.prop(z, "zone_id").value for z in h.elems(h.prop(ac, "zones").value)]
        h.oblige(f"AC {k}: id, and exactly its zones attached", And(h.eq(h.prop(ac, "ac_id").value, k), sorted(got) == sorted(zs)))
        h.oblige(f"AC {k}: its zone objects are the shared zone objects of the AirTouch", all(any(z is zones[i] for i in zs) for z in h.elems(h.prop(ac, "zones").value)))
    h.oblige("air_conditioners lists them", h.length(h.prop(E.at, "air_conditioners").value) == len(want))
    h.cover("model built")


def _build_model_exhaustive(h, g):
    """Thorough tier: *every* installation with up to 4 zones (ids 0..n-1) and one or two ACs whose zone
    assignment fields take every value in range (AT5: start/count 0..4; AT4: every group subset, or no bitmap with
    start/count 0..4), consistent or not.  Reference: the AC gets exactly the zones its ability names; a console
    that names a zone it never described makes the step fail with KeyError (init() then times out cleanly) and
    with nothing else."""
    import itertools
    G = GEN[g]
    C = G["comms"]
    E = make_env(h, g, G["names_state"])
    top = 4 if g == 5 else 3
    n = h.choice("zones", list(range(top + 1)))
    zone_ids = list(range(n))
    h.method(E.at, G["p_names"], {z: f"Z{z}" for z in zone_ids})
    zones = h.attr(E.at, "_zones")
    mc = C + ("x2C_ac_ctrl" if g == 4 else "xC022_ac_ctrl")
    modes = {m: True for m in h.members(mc + ":AcModeControl")}
    fans = {f: True for f in h.members(mc + ":AcFanSpeedControl")}
    n_acs = h.choice("acs", [1, 2])
    abl, want = [], {}
    for a in range(n_acs):
        if g == 5:
            start, count = h.choice(f"ac{a}_start", list(range(top + 1))), h.choice(f"ac{a}_count", list(range(top + 1)))
            abl.append(h.new(C + "x1FFF11_ac_ability:AcAbility", ac_number=a, ac_name=f"AC{a}", ac_mode_support=modes, fan_speed_support=fans,
                             min_cool_set_point=16, max_cool_set_point=30, min_heat_set_point=16, max_heat_set_point=30,
                             start_zone=start, zone_count=count))
            want[a] = list(range(start, start + count))
        else:
            subsets = [None] + [list(c) for r in range(0, top + 2) for c in itertools.combinations(range(top + 1), r)]
            grp = h.choice(f"ac{a}_groups", subsets)
            # the old start / count fields only matter without a bitmap (with one they are arbitrary: 3 / 2 here)
            start, count = (h.choice(f"ac{a}_start", list(range(top + 1))), h.choice(f"ac{a}_count", list(range(top + 1)))) if grp is None else (3, 2)
            abl.append(h.new(C + "x1FFF11_ac_ability:AcAbility", ac_number=a, ac_name=f"AC{a}", ac_mode_support=modes, fan_speed_support=fans,
                             min_set_point=16, max_set_point=30, start_group=start, group_count=count,
                             groups=None if grp is None else set_of(h, grp)))
            want[a] = ("all" if n_acs == 1 else list(range(start, start + count))) if grp is None else grp
    if g == 4:
        want = {a: (zone_ids if w == "all" else w) for a, w in want.items()}
    r = h.method(E.at, "_process_ac_ability_message", abl)
    # the step is a loop over the ACs in message order: it stops at the first AC that names a zone that does not exist
    first_bad = next((a for a in range(n_acs) if any(z not in zone_ids for z in want[a])), None)
    if first_bad is not None:
        h.oblige("a console that names a zone it never described makes the step fail with KeyError only", r.raised("KeyError"))
        h.cover("inconsistent console")
        return
    h.oblige("ability processing never raises for a self-consistent console", r.ok)
    if not r.ok:
        return
    acs = h.attr(E.at, "_air_conditioners")
    h.oblige("exactly the reported air-conditioners exist, keyed by their number", sorted(acs.keys()) == list(range(n_acs)))
    for a in range(n_acs):
        if a not in acs:
            continue
        got = h.elems(h.prop(acs[a], "zones").value)
        h.oblige(f"AC {a}: exactly the zones its ability names, as the shared zone objects",
                 len(got) == len(want[a]) and all(any(z is zones[i] for z in got) for i in want[a]))
    h.cover("model built")


def set_of(h, items):
    if not h.symbolic:
        return set(items)
    from pyvc.values import SetVal
    return SetVal(items)


def _poll_loop(h):
    """AT4: a GroupStatusRequest whenever no group status arrived for 300 s, for as long as the silence lasts."""
    if not h.symbolic:
        from replay import native_readings as NR
        return NR.airtouch_poll_loop(h, GEN)
    g = 4
    E = Env(h, g, "CONNECTED")
    E.sock.send_may_fail = True   # send by its contract: accepted, or refused with NotOpenError / QueueOverflowError
    T = h.get(GEN[g]["api"] + ":_GROUP_STATUS_TIMEOUT")
    h.oblige("group-status timeout is 300 s", T == 300.0)
    ev = h.attr(E.at, "_group_status_received_event")

    def havoc(reason):
        E.sock.is_connected = h.bool(f"connected{E.w.suspensions}")
    E.w.havocs.append(havoc)
    F = _fn(g, "_group_status_request_loop")
    install_deadline_loop(h, E.w, F, T, ev)
    r = h.method(E.at, "_group_status_request_loop")
    h.oblige("the poll task lets no exception out", r.ok)
    evs = h.it.path.events
    dl = [e for e in evs if e[0] == "deadline"]
    sent = E.sock.sent
    if dl:
        if sent:
            h.oblige("on expiry exactly one group-status request is sent, only while connected (RETRY_CONNECTED)",
                     And(len(sent) == 1, is_request(h, g, sent[0][0], "zstatus"), policy_is(h, sent[0][1], "RETRY_CONNECTED")))
        else:
            h.oblige("expiry while connected sends the request", Not(E.sock.is_connected))
    else:
        h.oblige("without an expired deadline nothing is sent", len(sent) == 0)
    h.cover("poll loop explored")


def _init_machine_lemma(h, g):
    """Init-machine lemma (DESIGN.md 3.4, finite: decided by exhaustive enumeration).  The transition table that
    `_message_received` / `_connection_changed` are proved to implement is a strict chain: whatever frames arrive
    in whatever order, the only way from CONNECTING to CONNECTED is through the six steps in the fixed order, each
    step sending exactly the next request; no frame moves the machine backwards, skips a step or leaves CONNECTED."""
    if not h.symbolic:
        return
    ist = init_states(g)
    order = ["CLOSED", "CONNECTING"] + ist + ["CONNECTED"]
    shapes_ = sorted(shapes(h, g).keys())
    edges = {}
    for st in order:
        for sh in shapes_:
            for to in (True, False):
                nxt, req, proc, done = expected(g, st, sh, to)
                if nxt != st:
                    edges.setdefault(st, set()).add((nxt, req, done))
    h.oblige("frames never move CLOSED, CONNECTING or CONNECTED (only a connection starts, only shutdown ends a session)",
             not any(s in edges for s in ("CLOSED", "CONNECTING", "CONNECTED")))
    ok_chain = all(edges.get(ist[i]) == {(ist[i + 1] if i < 5 else "CONNECTED", STEPS[i + 1] if i < 5 else None, i == 5)} for i in range(6))
    h.oblige("every handshake state has exactly one successor: the next state of the fixed order, entered with exactly the next "
             "request (the last step completes initialisation and sends nothing)", ok_chain)
    # all maximal paths of state-changing transitions from INIT_VERSION
    paths, todo = [], [("INIT_VERSION", ["ver"])]
    while todo:
        st, reqs = todo.pop()
        if st not in edges or len(reqs) > 12:
            paths.append((st, reqs))
            continue
        for nxt, req, done in edges[st]:
            todo.append((nxt, reqs + ([req] if req else [])))
    h.oblige("every run of the machine that reaches CONNECTED has sent the six requests once each in the fixed order "
             "(version, names, abilities, AC status, timer status, zone/group status)",
             bool(paths) and all(st == "CONNECTED" and reqs == STEPS for st, reqs in paths))
    h.cover("transition table enumerated")


def _register(g):
    n = f"at{g}.airtouch"
    G = GEN[g]
    oset(n + ".build-model.every-small-installation", ["C09", "C19"], [_fn(g, G["p_names"]), _fn(g, "_process_ac_ability_message")], tier="thorough",
         bounded=("every installation with 0..4 zones, 1..2 ACs, start / count 0..4" if g == 5 else
                  "every installation with 0..3 groups, 1..2 ACs, each with any bitmap over groups 0..3 or no bitmap and start / count 0..3")
         + ", consistent or not (complete enumeration inside the bound)")(lambda h: _build_model_exhaustive(h, g))
    oset(n + ".init-machine-lemma", ["C09"], [_fn(g, "_message_received"), _fn(g, "_connection_changed")], kind="lemma",
         assumptions=["lemma over the transition table of the _message_received / _connection_changed contracts (finite, enumerated completely)"])(
             lambda h: _init_machine_lemma(h, g))
    oset(n + "._message_received", ["C09", "C10", "C14", "C02", "C08", "C15"], [_fn(g, "_message_received")],
         assumptions=["socket.send accepts the request it is given here; by its own contract it may instead refuse with NotOpenError / QueueOverflowError "
                      "(closed meanwhile, ten unexpired messages held): the exception then leaves the handler and is swallowed and logged by the "
                      "socket's notification - the periodic tasks, which would die of it, are proved against the full contract"])(lambda h: _message_received(h, g))
    oset(n + "._connection_changed", ["C14", "C09", "C02", "C19"], [_fn(g, "_connection_changed")],
         assumptions=["socket.send accepts the request it is given here; by its own contract it may instead refuse with NotOpenError / QueueOverflowError "
                      "(closed meanwhile, ten unexpired messages held): the exception then leaves the handler and is swallowed and logged by the "
                      "socket's notification - the periodic tasks, which would die of it, are proved against the full contract"])(lambda h: _connection_changed(h, g))
    oset(n + "._message_received.shutdown-meanwhile", ["C15", "C09"], [_fn(g, "_message_received")],
         assumptions=["shutdown() sets the state CLOSED and clears the initialised flag before it first suspends (proved: <gen>.airtouch.shutdown)"])(
        lambda h: _shutdown_meanwhile(h, g))
    oset(n + ".init", ["C09", "C15"], [_fn(g, "init"), _fn(g, "initialised")],
         trusted=["asyncio.wait_for(aw, t): returns when aw completes, or raises TimeoutError exactly t seconds after it started"])(lambda h: _init(h, g))
    oset(n + ".shutdown", ["C15"], [_fn(g, "shutdown")],
         trusted=["task.cancel(); await task leaves the task finished"])(lambda h: _shutdown(h, g))
    oset(n + ".misc", ["C04", "C08", "C10", "C12", "C19"], [_fn(g, "check_for_updates"), _fn(g, "__init__"), _fn(g, "model"), _fn(g, "host"),
                                                             _fn(g, "update_available"), _fn(g, "console_versions"), _fn(g, "airtouch_id"),
                                                             _fn(g, "serial"), _fn(g, "name"), _fn(g, "subscribe"), _fn(g, "unsubscribe")])(lambda h: _misc(h, g))
    oset(n + "._process_console_version_update", ["C10", "C12"], [_fn(g, "_process_console_version_update")])(lambda h: _console_version_update(h, g))
    oset(n + ".dispatch", ["C10", "C09"], [_fn(g, "_process_ac_status_message"), _fn(g, "_process_ac_timer_status_message"),
                                           _fn(g, G["p_zstatus"]), _fn(g, "_process_ac_error_info_message")],
         bounded="0..3 records per frame, entity ids 0..3")(lambda h: _dispatch(h, g))
    oset(n + ".dispatch-any-length", ["C10", "C09", "C12", "C14"], [_fn(g, "_process_ac_status_message"), _fn(g, "_process_ac_timer_status_message"),
                                                              _fn(g, G["p_zstatus"])])(lambda h: _dispatch_any(h, g))
    # C19: AC -> zones membership is exposed by both generations; each model equals the reading of the installation,
    # so equivalent installations give equal membership (seeded C19_12: empty AT4 bitmap read as absent)
    oset(n + ".build-model", ["C09", "C19"], [_fn(g, G["p_names"]), _fn(g, "_process_ac_ability_message")],
         bounded="installations enumerated: 0..3 zones, 1..2 ACs, bitmap / single-AC / range layouts",
         assumptions=["self-consistent console: every group named in a bitmap or range has a name"])(lambda h: _build_model(h, g))


_register(4)
_register(5)
oset("at4.airtouch._group_status_request_loop", ["C14"], [_fn(4, "_group_status_request_loop")],
     trusted=["asyncio.timeout / Timeout.reschedule / Event.wait as modelled in pyvc/aio.py (deadline semantics)"])(_poll_loop)
