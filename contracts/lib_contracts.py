"""Assumed library contracts (DESIGN.md 2.7), cross-checked on the real library.

Every proof about a coroutine rests on statements about asyncio that pyvc *encodes* (pyvc/aio.py, pyvc/world.py)
and does not prove.  The obligation sets below run `replay/lib_validation.py` under the interpreter that runs the
package (/venv/bin/python) and oblige, per assumed contract, that every random sample agreed with the statement
the model encodes.  They are bounded stand-ins by nature (labelled so, never counted as proved): their job is to
catch a model that mis-states the library.
"""
import json
import os
import subprocess

from pyvc.vc import oset

VERIF = os.path.dirname(os.path.dirname(os.path.abspath(__file__)))
PY = "/venv/bin/python"
_CACHE = {}

USES = {
    "StreamReader.readexactly": (["C13", "C06", "C17"],
                                 "readexactly(k) returns exactly the next k bytes of the stream for every segmentation and every interleaving of "
                                 "arrival and reading; IncompleteReadError at EOF"),
    "asyncio.timeout": (["C08", "C14"],
                        "timeout(d) is armed at entry time + d, fires TimeoutError exactly at its deadline, reschedule(w) moves the deadline to w, "
                        "timeout(None) never fires"),
    "asyncio.wait_for": (["C09", "C18"], "wait_for(aw, t) returns aw's result if it completes within t, else raises TimeoutError exactly t later"),
    "as_completed / gather": (["C12", "C08", "C18", "C19"],
                              "as_completed yields every awaitable exactly once; gather(sleep(d), c) completes at max(d, duration of c)"),
    "Task.cancel": (["C15", "C08"], "task.cancel(); await task raises CancelledError, leaves the task done, and the task never runs again"),
    "asyncio.Event": (["C08", "C14", "C09"], "wait() returns at once when set, otherwise resumes when set() is called; clear() makes the next wait block"),
    "collections.deque": (["C01", "C02", "C16"],
                          "append / appendleft / popleft / del q[i] / indexing / len / truth of a deque are those of a mathematical sequence"),
    "round": (["C11", "C04"], "round(x) and round(x, 1) are correctly rounded, ties to even on the exact binary value"),
}


def _results(samples):
    key = samples
    if key not in _CACHE:
        try:
            p = subprocess.run([PY, os.path.join(VERIF, "replay", "lib_validation.py"), "20260928", str(samples)],
                               capture_output=True, text=True, timeout=900, cwd=VERIF)
            _CACHE[key] = json.loads(p.stdout) if p.returncode == 0 else {"error": (p.stdout + p.stderr)[-400:]}
        except Exception as e:  # noqa: BLE001
            _CACHE[key] = {"error": f"{type(e).__name__}: {e}"}
    return _CACHE[key]


def _make(name, samples):
    def script(h):
        if not h.symbolic:
            return
        res = _results(samples)
        h.oblige("the validation script ran on the package's interpreter", "error" not in res, detail=str(res.get("error")))
        r = res.get(name) or {}
        h.oblige(f"assumed contract agrees with the real library on every sample: {USES[name][1]}",
                 bool(r.get("ok")) and r.get("samples", 0) >= samples, detail=json.dumps(r.get("witness"))[:600])
        h.cover("library exercised")
    return script


for _name, (_props, _text) in USES.items():
    _slug = _name.replace(" / ", "-").replace(" ", "-")
    oset(f"lib.{_slug}", _props, [], kind="library-validation",
         bounded=f"40 random samples on {PY} (virtual-time loop); validates an assumption, proves nothing",
         assumptions=[f"trusted library contract (validated on samples only): {_text}"])(_make(_name, 40))
    oset(f"lib.{_slug}.thorough", _props, [], kind="library-validation", tier="thorough",
         bounded=f"3000 random samples on {PY} (virtual-time loop); validates an assumption, proves nothing",
         assumptions=[f"trusted library contract (validated on samples only): {_text}"])(_make(_name, 3000))
