"""Assumed library contracts (DESIGN.md 2.7), cross-checked on the real library.

Every proof about a coroutine rests on statements about asyncio that pyvc *encodes* (pyvc/aio.py, pyvc/world.py)
and does not prove.  The obligation sets below run `replay/lib_validation.py` under the interpreter that runs the
package (/venv/bin/python) and oblige, per assumed contract, that every random sample agreed with the statement
the model encodes.  They are bounded stand-ins by nature (labelled so, never counted as proved): their job is to
catch a model that mis-states the library.
"""
import json
import os
import subprocess

from pyvc.vc import oset

VERIF = os.path.dirname(os.path.dirname(os.path.abspath(__file__)))
PY = "/venv/bin/python"
_CACHE = {}

USES = {
    "StreamReader.readexactly": (["C13", "C06", "C17"],
                                 "readexactly(k) returns exactly the next k bytes of the stream for every segmentation and every interleaving of "
                                 "arrival and reading; IncompleteReadError at EOF"),
    "asyncio.timeout": (["C08", "C14"],
                        "timeout(d) is armed at entry time + d, fires TimeoutError exactly at its deadline, reschedule(w) moves the deadline to w, "
                        "timeout(None) never fires"),
    "asyncio.wait_for": (["C09", "C18"], "wait_for(aw, t) returns aw's result if it completes within t, else raises TimeoutError exactly t later"),
    "as_completed / gather": (["C12", "C08", "C18", "C19"],
                              "as_completed yields every awaitable exactly once; gather(sleep(d), c) completes at max(d, duration of c)"),
    "Task.cancel": (["C15", "C08"], "task.cancel(); await task raises CancelledError, leaves the task done, and the task never runs again"),
    "asyncio.Event": (["C08", "C14", "C09"], "wait() returns at once when set, otherwise resumes when set() is called; clear() makes the next wait block"),
    "collections.deque": (["C01", "C02", "C16"],
                          "append / appendleft / popleft / del q[i] / indexing / len / truth of a deque are those of a mathematical sequence"),
    "round": (["C11", "C04"], "round(x) and round(x, 1) are correctly rounded, ties to even on the exact binary value"),
}


def _results(samples):
    key = samples
    if key not in _CACHE:
        try:
            p = subprocess.run([PY, os.path.join(VERIF, "replay", "lib_validation.py"), "20260928", str(samples)],
                               capture_output=True, text=True, timeout=900, cwd=VERIF)
            _CACHE[key] = json.loads(p.stdout) if p.returncode == 0 else {"error": (p.stdout + p.stderr)[-400:]}
        except Exception as e:  # noqa: BLE001
            _CACHE[key] = {"error": f"{type(e).__name__}: {e}"}
    return _CACHE[key]


def _make(name, samples):
    def script(h):
        if not h.symbolic:
            return
        res = _results(samples)
        h.oblige("the validation script ran on the package's interpreter", "error" not in res, detail=str(res.get("error")))
        r = res.get(name) or {}
        h.oblige(f"assumed contract agrees with the real library on every sample: {USES[name][1]}",
                 bool(r.get("ok")) and r.get("samples", 0) >= samples, detail=json.dumps(r.get("witness"))[:600])
        h.cover("library exercised")
    return script


for _name, (_props, _text) in USES.items():
    _slug = _name.replace(" / ", "-").replace(" ", "-")
    oset(f"lib.{_slug}", _props, [], kind="library-validation",
         bounded=f"40 random samples on {PY} (virtual-time loop); validates an assumption, proves nothing",
         assumptions=[f"trusted library contract (validated on samples only): {_text}"])(_make(_name, 40))
    oset(f"lib.{_slug}.thorough", _props, [], kind="library-validation", tier="thorough",
         bounded=f"3000 random samples on {PY} (virtual-time loop); validates an assumption, proves nothing",
         assumptions=[f"trusted library contract (validated on samples only): {_text}"])(_make(_name, 3000))


@oset("socket.receive.every-two-cut-segmentation", ["C13"], [], kind="library-validation", tier="thorough",
      bounded="the real socket on the virtual-time loop fed a 3-frame AT4 stream cut at every pair of positions, plus 300 random "
              "3..6-cut segmentations with random gaps (end-to-end companion of the readexactly contract; proves nothing)")
def every_two_cut(h):
    if not h.symbolic:
        return
    import random
    import sys
    repo = os.environ.get("PYVC_REPO", "/repo")
    code = r'''
import sys, json, random
sys.path.insert(0, %r); sys.path.insert(0, %r)
from replay import read_scenarios as R
reg, frames = R._frames()
stream = b"".join(f for _, f in frames); want = [m for m, _ in frames]
bad = None; n = 0
L = len(stream)
for a in range(1, L):
    for b in range(a + 1, L):
        got, conns = R._deliver([stream[:a], stream[a:b], stream[b:]], reg); n += 1
        if got != want or conns != 1:
            bad = [a, b]; break
    if bad: break
rng = random.Random(5)
if not bad:
    for _ in range(300):
        cuts = sorted(rng.sample(range(1, L), rng.randint(3, 6)))
        parts = [stream[i:j] for i, j in zip([0] + cuts, cuts + [L])]
        got, conns = R._deliver(parts, reg); n += 1
        if got != want or conns != 1:
            bad = cuts; break
print(json.dumps({"runs": n, "bad": bad, "stream_len": L}))
''' % (VERIF, repo)
    p = subprocess.run([PY, "-c", code], capture_output=True, text=True, timeout=3000)
    ok = p.returncode == 0
    res = json.loads(p.stdout.strip().splitlines()[-1]) if ok and p.stdout.strip() else {}
    h.oblige("the segmentation run completed on the package's interpreter", ok and bool(res), detail=(p.stdout + p.stderr)[-400:])
    h.oblige("for every two-cut segmentation and 300 random multi-cut ones the subscriber receives exactly the three messages, once each, in order, "
             "on one connection", res.get("bad") is None and res.get("runs", 0) > 300, detail=json.dumps(res))
    h.cover("segmentations run")


def _sweep_cache(repo, runs):
    """Only for the sweep tools (PYVC_SWEEP_CACHE=<dir>): the 19 checks of one scratch tree run the same exploration 16 times;
    the result is a function of the package source, the exploration script, the seed and the number of runs.  The registered
    check commands never set the variable, so every registered run explores afresh."""
    d = os.environ.get("PYVC_SWEEP_CACHE")
    if not d:
        return None
    import hashlib
    hsh = hashlib.sha256()
    for root in (os.path.join(repo, "pyairtouch"), os.path.join(VERIF, "replay")):
        for dp, _, fs in sorted(os.walk(root)):
            for f in sorted(fs):
                if f.endswith(".py"):
                    hsh.update(f.encode())
                    hsh.update(open(os.path.join(dp, f), "rb").read())
    os.makedirs(d, exist_ok=True)
    return os.path.join(d, f"history_{runs}_{hsh.hexdigest()[:24]}.json")


def _history(runs):
    def script(h):
        if not h.symbolic:
            return
        env = dict(os.environ, PYVC_REPO=os.environ.get("PYVC_REPO", "/repo"))
        cache = _sweep_cache(env["PYVC_REPO"], runs)
        if cache and os.path.exists(cache):
            res, tail = json.load(open(cache)), "(result of the same exploration on the same source, reused within one sweep: PYVC_SWEEP_CACHE)"
        else:
            try:
                p = subprocess.run([PY, os.path.join(VERIF, "replay", "history_fuzz.py"), "20260928", str(runs)], capture_output=True, text=True,
                                   timeout=90 if runs <= 1000 else 1500, cwd=VERIF, env=env)
                lines = [l for l in p.stdout.strip().splitlines() if l.startswith("{")]
                res = json.loads(lines[-1]) if p.returncode == 0 and lines else {}
                tail = p.stdout[-300:] + p.stderr[-300:]
            except subprocess.TimeoutExpired:
                res, tail = {}, "the exploration did not finish within its wall-clock limit (the real code spins or blocks)"
            if cache and res:
                json.dump(res, open(cache, "w"))
        h.oblige("the exploration ran to the end on the package's interpreter", bool(res), detail=tail)
        if not res:
            return
        st = res.get("stats", {})
        h.oblige("the scripts exercised what they are meant to (messages reached the wire, connections were lost and replaced, writes failed)",
                 st.get("on_wire", 0) > runs and st.get("connections", 0) > runs and st.get("runs_with_write_fault", 0) > runs // 10, detail=json.dumps(st))
        h.oblige("on every explored history of sends, clock advances, refusals, latencies, back-pressure, write faults and peer closes: only submitted "
                 "messages on the wire, whole frames, acceptance order and at most once without write faults, at most 1 + retries otherwise, nothing at "
                 "or after expiry, capacity rule exact at every enqueue, one open connection, connected again after the network heals; after a close() in the "
                 "middle of it: not open, not connected, no connection left open, no attempt until open_socket()",
                 res.get("n_violating_runs", 1) == 0, detail=json.dumps(res.get("violations", [])[:2])[:1500])
        h.cover("histories explored")
    return script


oset("socket.histories.native-exploration", ["C01", "C02", "C07", "C15", "C16"], [], kind="library-validation",
     bounded="500 random fault scripts (5..40 steps each) on the real socket, virtual-time loop; end-to-end companion of the step contracts "
             "and of lemmas/Fifo.lean / Conn.lean; proves nothing")(_history(500))
oset("socket.histories.native-exploration.thorough", ["C01", "C02", "C07", "C15", "C16"], [], kind="library-validation", tier="thorough",
     bounded="20000 random fault scripts (5..40 steps each) on the real socket, virtual-time loop; proves nothing")(_history(20000))


def _client_history(runs):
    def script(h):
        if not h.symbolic:
            return
        env = dict(os.environ, PYVC_REPO=os.environ.get("PYVC_REPO", "/repo"))
        try:
            p = subprocess.run([PY, os.path.join(VERIF, "replay", "client_fuzz.py"), "20260928", str(runs)], capture_output=True, text=True,
                               timeout=120 if runs <= 1000 else 1500, cwd=VERIF, env=env)
            lines = [l for l in p.stdout.strip().splitlines() if l.startswith("{")]
            res = json.loads(lines[-1]) if p.returncode == 0 and lines else {}
            tail = p.stdout[-300:] + p.stderr[-300:]
        except subprocess.TimeoutExpired:
            res, tail = {}, "the exploration did not finish within its wall-clock limit (the real code spins or blocks)"
        h.oblige("the whole-client exploration ran to the end on the package's interpreter", bool(res), detail=tail)
        if not res:
            return
        st = res.get("stats", {})
        h.oblige("the scripts exercised what they are meant to (handshakes completed, shutdowns in the middle of a handshake, link losses, heartbeats)",
                 st.get("inits_true", 0) > runs // 2 and st.get("mid_handshake_shutdowns", 0) > runs // 4 and st.get("link_losses", 0) > runs // 4
                 and st.get("heartbeats", 0) > runs // 2, detail=json.dumps(st))
        h.oblige("on every explored history of init / shutdown at arbitrary instants (also between two turns of the loop in the middle of the "
                 "handshake), link losses, refusals, a silent console, user commands, slow subscribers and long idle periods: init returns within "
                 "5 s with the right answer and the model the console described; after shutdown nothing is open, connected, initialised, scheduled "
                 "or written, and a later init works; a heartbeat every 300 s and no reset on a healthy link; a refresh after every reconnection",
                 res.get("n_violating_runs", 1) == 0, detail=json.dumps(res.get("violations", [])[:2])[:1500])
        h.cover("client histories explored")
    return script


oset("client.histories.native-exploration", ["C15", "C09", "C08", "C14", "C07", "C13", "C10", "C12"], [], kind="library-validation",
     bounded="300 random whole-client scripts (AirTouch4 / AirTouch5 object + heartbeat + socket against a simulated console built from the package's "
             "own codecs, virtual time; also: the model follows every changed report, subscribers hear of changes and not of repetitions); "
             "end-to-end companion of the step contracts; proves nothing")(_client_history(300))
oset("client.histories.native-exploration.thorough", ["C15", "C09", "C08", "C14", "C07", "C13", "C10", "C12"], [], kind="library-validation", tier="thorough",
     bounded="20000 random whole-client scripts; proves nothing")(_client_history(20000))
