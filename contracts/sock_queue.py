"""socket.py, sequential part: the pending-message queue (C16, and the queue clauses of C01 / C02).

`_enqueue_message(entry)`:   queue' = [e in queue | now < e.expiry] ++ [entry]      (order preserved)
                             or QueueOverflowError with queue' = [e in queue | now < e.expiry] when that
                             already holds MAX_MESSAGE_QUEUE_SIZE (10) entries.
`send_with_header`:          not open => NotOpenError and nothing changes; else the entry holds *these*
                             header / message objects, retries = policy.max_retries, expiry = now + lifetime.
The queue length is enumerated 0..11 (11 = one more than the capacity, reachable through the re-queue
path of the drain); each entry is fully symbolic.  Labelled bounded: the loop runs over the concrete
length.
"""
from pyvc.values import unmodelled as _unmodelled  # noqa: E402
from pyvc.sym import And, Or, Not, Implies, ite
from pyvc.vc import oset
from contracts.sockworld import make_world, SOCK

ENQ = SOCK + ":AirTouchSocket._enqueue_message"
SWH = SOCK + ":AirTouchSocket.send_with_header"


def same_objects(a, b):
    return len(a) == len(b) and all(x is y for x, y in zip(a, b))


def _enqueue(h, n, pinned=0):
    """n queued entries with arbitrary expiry; the first `pinned` of them assumed unexpired."""
    W = make_world(h)
    old = [W.entry(f"e{i}") for i in range(n)]
    new = W.entry("new")
    sock = W.make_socket(queue=list(old), connected=False)
    now = W.clock()
    for e in old[:pinned]:
        h.assume(now < h.attr(e, "expiry"), "first entries unexpired (path-count reduction of the quick tier)")
    r = h.method(sock, "_enqueue_message", new)
    kept = [e for e in old if not h.branch(now >= h.attr(e, "expiry"))]
    after = W.queue_items()
    cap = h.get(SOCK + ":MAX_MESSAGE_QUEUE_SIZE")
    h.oblige("capacity constant is ten", cap == 10)
    if len(kept) >= 10:
        h.oblige("an eleventh unexpired message raises QueueOverflowError", r.raised("QueueOverflowError"))
        h.oblige("on overflow the held messages are exactly the unexpired old ones, in order", same_objects(after, kept))
    else:
        h.oblige("accepted without error", r.ok)
        h.oblige("queue = unexpired old entries in order, then the new entry itself", same_objects(after, kept + [new]))
        h.oblige("at most ten entries are held afterwards", len(after) <= 10)
    h.cover("enqueue explored")


_ENQ_ASSUME = ["loop.time() is the loop clock; it does not advance inside a synchronous function"]


@oset("socket._enqueue_message.len0-6", ["C16", "C01", "C02"], [ENQ], bounded="queue length 0..6, every expiry pattern",
      assumptions=_ENQ_ASSUME)
def enqueue_small(h):
    _enqueue(h, h.choice("queue_len", list(range(0, 7))))


@oset("socket._enqueue_message.len9-11", ["C16", "C01", "C02"], [ENQ], assumptions=_ENQ_ASSUME,
      bounded="queue length 9..11 with the first six entries unexpired, every expiry pattern of the others")
def enqueue_near_capacity(h):
    _enqueue(h, h.choice("queue_len", [9, 10, 11]), pinned=6)


@oset("socket._enqueue_message.len7-11-all-patterns", ["C16", "C01", "C02"], [ENQ], assumptions=_ENQ_ASSUME, tier="thorough",
      bounded="queue length 7..11, every expiry pattern")
def enqueue_all(h):
    _enqueue(h, h.choice("queue_len", [7, 8, 9, 10, 11]))


@oset("socket.send_with_header.not-open", ["C16", "C15"], [SWH])
def send_not_open(h):
    if not h.symbolic and not getattr(h, "concrete", False):
        # besides the direct call below, the history "open, link never comes up, close(), send()" on the real socket
        from replay import more_scenarios as MS
        MS.oblige_from(h, [MS.close_scenarios], {"sending on a socket that is not open raises NotOpenError", "nothing is held"},
                       prefix="history open / never connected / close / send: ")
    n = h.choice("queue_len", [0, 1, 3])
    W = make_world(h)
    old = [W.entry(f"e{i}") for i in range(n)]
    sock = W.make_socket(queue=list(old), connected=False, is_open=False)
    pol = h.new(SOCK + ":RetryPolicy", max_retries=h.int("max_retries", 0, 5), max_lifetime=h.real("lifetime", 0, 100))
    r = h.method(sock, "send_with_header", W.header("hdr"), W.message("msg"), pol)
    h.oblige("sending on a socket that is not open raises NotOpenError", r.raised("NotOpenError"))
    h.oblige("nothing is held", same_objects(W.queue_items(), old))


@oset("socket.send_with_header.disconnected", ["C01", "C02", "C16"], [SWH, ENQ, SOCK + ":AirTouchSocket._drain_message_queue"])
def send_disconnected(h):
    """Open but not connected: the message is queued with the policy's retry count and lifetime; nothing is written."""
    n = h.choice("queue_len", [0, 1, 2])
    W = make_world(h)
    old = [W.entry(f"e{i}") for i in range(n)]
    sock = W.make_socket(queue=list(old), connected=False, is_open=True)
    now = W.clock()
    mr = h.int("max_retries", 0, 5)
    lt = h.real("lifetime", 0, 100)
    pol = h.new(SOCK + ":RetryPolicy", max_retries=mr, max_lifetime=lt)
    hdr, msg = W.header("hdr"), W.message("msg")
    r = h.method(sock, "send_with_header", hdr, msg, pol)
    h.oblige("accepted", r.ok)
    if not r.ok:
        return
    kept = [e for e in old if not h.branch(now >= h.attr(e, "expiry"))]
    after = W.queue_items()
    h.oblige("one entry appended behind the unexpired ones", And(len(after) == len(kept) + 1, same_objects(after[:-1], kept)))
    if len(after) == len(kept) + 1:
        e = after[-1]
        h.oblige("the entry carries this very header and message", And(h.attr(e, "header") is hdr, h.attr(e, "message") is msg))
        h.oblige("retries_remaining = policy.max_retries", h.attr(e, "retries_remaining") == mr)
        h.oblige("expiry = now + policy.max_lifetime", h.attr(e, "expiry") == now + lt)


# ------------------------------------------------------------------------------------------------
# The unbounded route: queue of *arbitrary* length as an SMT sequence of entry ids, the real purge
# loop verified with a loop contract (discharged by cvc5; z3's sequence solver does not decide it).

import ast as _ast  # noqa: E402

import z3 as _z3  # noqa: E402

from pyvc import sym as _sym  # noqa: E402
from pyvc.sym import SInt as _SInt, SReal as _SReal  # noqa: E402
from pyvc.values import Builtin as _Builtin, Opaque as _Opaque, Unsupported as _Unsupported, Instance as _Instance  # noqa: E402
from pyvc.interp import PathEnd as _PathEnd  # noqa: E402

_SEQ = _z3.SeqSort(_z3.IntSort())
_EXPIRY = _z3.Function("expiry_of", _z3.IntSort(), _z3.RealSort())
_PURGE = _z3.Function("purge", _SEQ, _SEQ)


def _purge_axiom(now_t):
    """purge(s): the entries of s whose expiry lies in the future, in order (recursive definition)."""
    s = _z3.Const("s", _SEQ)
    head = s[0]
    keep = _z3.If(now_t < _EXPIRY(head), _z3.Unit(head), _z3.Empty(_SEQ))
    body = _z3.If(_z3.Length(s) == 0, _PURGE(s) == _z3.Empty(_SEQ),
                  _PURGE(s) == _z3.Concat(keep, _PURGE(_z3.SubSeq(s, 1, _z3.Length(s) - 1))))
    return _z3.ForAll([s], body, patterns=[_PURGE(s)])


class _EntryRef:
    """An element of the abstract queue, identified by its id term."""

    def __init__(self, idt):
        self.idt = idt

    def py_getattr(self, it, name):
        if name == "expiry":
            return _SReal(_EXPIRY(self.idt))
        if name in ("header", "message", "retries_remaining"):
            return _Opaque(name + "-of-queued-entry")
        raise _unmodelled(self, name)


class SeqDeque:
    """collections.deque of queue entries of arbitrary length: an SMT sequence of entry ids."""

    def __init__(self, it, t):
        self.it = it
        self.t = t
        self.new_ids = {}

    def py_len(self, it):
        return _sym.mkint(_z3.Length(self.t))

    def py_truth(self, it):
        return _sym.mkbool(_z3.Length(self.t) > 0)

    def _in_range(self, it, i, what):
        # An obligation, not a branch: it goes through the whole solver chain (sequence constraints make the primary
        # solver time out on feasibility queries, and a branch explored only because of a timeout would end undecided).
        n = self.py_len(it)
        it.path.oblige(f"the queue is only {what} at an index inside its bounds (no IndexError can escape the purge)",
                       _sym.And(i >= 0, i < n), kind="site")
        it.path.assume(_sym.And(i >= 0, i < n))

    def py_getitem(self, it, i):
        self._in_range(it, i, "read")
        return _EntryRef(self.t[_sym.int_t(i)])

    def py_delitem(self, it, i):
        self._in_range(it, i, "deleted from")
        it_ = _sym.int_t(i)
        n = _z3.Length(self.t)
        self.t = _z3.Concat(_z3.SubSeq(self.t, 0, it_), _z3.SubSeq(self.t, it_ + 1, n - it_ - 1))

    def id_of(self, it, entry):
        from pyvc.loops import HavocValue
        if isinstance(entry, _EntryRef):
            return entry.idt
        if isinstance(entry, HavocValue):
            return _z3.Int(_sym.fresh_name("arbitrary_entry_id"))
        if id(entry) not in self.new_ids:
            idt = _z3.Int(_sym.fresh_name("entry_id"))
            it.path.assume(_sym.mkbool(_EXPIRY(idt) == _sym.real_t(entry.attrs["expiry"])))
            self.new_ids[id(entry)] = idt
        return self.new_ids[id(entry)]

    def py_getattr(self, it, name):
        if name == "append":
            def append(x):
                self.t = _z3.Concat(self.t, _z3.Unit(self.id_of(it, x)))
            return _Builtin("deque.append", append)
        if name == "appendleft":
            def appendleft(x):
                self.t = _z3.Concat(_z3.Unit(self.id_of(it, x)), self.t)
            return _Builtin("deque.appendleft", appendleft)
        raise _unmodelled(self, name)


def _seq_eq(a, b):
    return _sym.mkbool(a == b)


@oset("socket._enqueue_message.any-length", ["C16", "C01", "C02"], [ENQ], timeout_ms=300,
      assumptions=_ENQ_ASSUME + ["queue entries are identified by ids; deque indexing / del / append as sequence operations",
                                 "`for i in reversed(range(n))` visits n-1, ..., 0 (Python semantics of the loop header)"])
def enqueue_unbounded(h):
    """For a queue of ANY length:  queue' = purge(queue) ++ [entry]  or QueueOverflowError with queue' = purge(queue)
    when purge(queue) already holds ten entries.  Loop invariant of the real purge loop (descending index i):
        queue == old[0..i] ++ purge(old[i+1..])."""
    if not h.symbolic:
        return _enqueue(h, h.choice("queue_len", list(range(0, 12))))
    if getattr(h, "concrete", False):
        from pyvc.harness import SkipConformance
        raise SkipConformance("abstract-sequence proof script has no concrete reading")
    from contracts.sockworld import SockWorld
    from pyvc import aio
    W = SockWorld(h)
    it = h.it
    sock = W.make_socket(queue=[], connected=False)
    now = aio.now(it)
    h.assume(_sym.mkbool(_purge_axiom(_sym.real_t(now))), "definition of purge (recursive, as a quantified axiom)")
    old = _z3.Const(_sym.fresh_name("old_queue"), _SEQ)
    q = SeqDeque(it, old)
    sock.attrs["_message_queue"] = q
    new = W.entry("new")
    n0 = _z3.Length(old)

    def hook(it2, node, env):
        if not isinstance(node, _ast.For):
            raise _Unsupported("the purge loop is no longer a `for` loop: this loop contract does not apply")
        itn = node.iter
        ok_shape = (isinstance(itn, _ast.Call) and isinstance(itn.func, _ast.Name) and itn.func.id == "reversed" and len(itn.args) == 1
                    and isinstance(itn.args[0], _ast.Call) and isinstance(itn.args[0].func, _ast.Name) and itn.args[0].func.id == "range"
                    and len(itn.args[0].args) == 1)
        if not ok_shape:
            raise _Unsupported("purge loop header is not `for i in reversed(range(<bound>))`")
        bound = it2.eval(itn.args[0].args[0], env)
        h.oblige("purge-loop/the loop visits every index of the queue (bound == len(queue))", _sym.eq(bound, _sym.mkint(n0)), kind="loop-init")
        cur = sock.attrs["_message_queue"].t
        h.oblige("purge-loop/init: queue == old ++ purge(<empty suffix>)",
                 _seq_eq(cur, _z3.Concat(_z3.SubSeq(old, 0, n0), _PURGE(_z3.SubSeq(old, n0, 0)))), kind="loop-init")
        which = it2.path.choose(2, "purge loop")
        if which == 0:
            i = _z3.Int(_sym.fresh_name("i"))
            it2.path.assume(_sym.mkbool(_z3.And(i >= 0, i < n0)))
            it2.path.inputs["purge-loop:i"] = _SInt(i)
            q.t = _z3.Concat(_z3.SubSeq(old, 0, i + 1), _PURGE(_z3.SubSeq(old, i + 1, n0 - i - 1)))
            it2.assign(node.target, _SInt(i), env)
            from pyvc.interp import _Continue
            try:
                it2.exec_block(node.body, env)
            except _Continue:
                pass
            h.oblige("purge-loop/preserve: after visiting index i the queue is old[0..i-1] ++ purge(old[i..])",
                     _seq_eq(q.t, _z3.Concat(_z3.SubSeq(old, 0, i), _PURGE(_z3.SubSeq(old, i, n0 - i)))), kind="loop-preserve")
            raise _PathEnd()
        q.t = _PURGE(old)
        from pyvc.loops import havoc_assigned
        havoc_assigned(it2, node, env)  # every local the loop assigns is arbitrary afterwards
        return None

    it.loop_hooks[(ENQ, 0)] = hook
    r = h.method(sock, "_enqueue_message", new)
    kept = _PURGE(old)
    new_id = q.id_of(it, new)
    full = _sym.mkbool(_z3.Length(kept) >= 10)
    if r.raised("QueueOverflowError"):
        h.oblige("overflow only when ten unexpired entries are already held", full)
        h.oblige("on overflow the held entries are exactly the unexpired old ones, in order", _seq_eq(q.t, kept))
        h.cover("overflow path")
    else:
        h.oblige("accepted without error", r.ok)
        h.oblige("accepted only when fewer than ten unexpired entries are held", _sym.Not(full))
        h.oblige("queue = unexpired old entries in order, then the new entry", _seq_eq(q.t, _z3.Concat(kept, _z3.Unit(new_id))))
        h.cover("accept path")


@oset("socket.retry-policies", ["C02", "C01"], [])
def retry_policies(h):
    """The three policies every command of the API uses (the API contracts prove *which* one; this set what they are)."""
    idem, non, conn = (h.get(SOCK + ":" + n) for n in ("RETRY_IDEMPOTENT", "RETRY_NON_IDEMPOTENT", "RETRY_CONNECTED"))
    h.oblige("a non-idempotent command is never retried: RETRY_NON_IDEMPOTENT.max_retries == 0", h.attr(non, "max_retries") == 0)
    h.oblige("requests that only make sense on the current connection are never retried and live one second: RETRY_CONNECTED == (0, 1.0)",
             And(h.attr(conn, "max_retries") == 0, h.eq(h.attr(conn, "max_lifetime"), 1.0)))
    h.oblige("idempotent commands survive a transient write failure: RETRY_IDEMPOTENT.max_retries >= 1 (2), lifetime 30 s",
             And(h.attr(idem, "max_retries") == 2, h.eq(h.attr(idem, "max_lifetime"), 30.0)))
    h.oblige("non-idempotent commands live 30 s", h.eq(h.attr(non, "max_lifetime"), 30.0))
    h.oblige("the three policies are distinct objects (the API contracts identify them by identity)",
             And(idem is not non, idem is not conn, non is not conn))
    r, l = h.int("r", 0, 9), h.real("l", 0, 100)
    p = h.new(SOCK + ":RetryPolicy", max_retries=r, max_lifetime=l)
    h.oblige("a policy carries exactly the retry count and lifetime it is constructed with", And(h.eq(h.attr(p, "max_retries"), r), h.eq(h.attr(p, "max_lifetime"), l)))
