"""socket.py, sequential part: the pending-message queue (C16, and the queue clauses of C01 / C02).

`_enqueue_message(entry)`:   queue' = [e in queue | now < e.expiry] ++ [entry]      (order preserved)
                             or QueueOverflowError with queue' = [e in queue | now < e.expiry] when that
                             already holds MAX_MESSAGE_QUEUE_SIZE (10) entries.
`send_with_header`:          not open => NotOpenError and nothing changes; else the entry holds *these*
                             header / message objects, retries = policy.max_retries, expiry = now + lifetime.
The queue length is enumerated 0..11 (11 = one more than the capacity, reachable through the re-queue
path of the drain); each entry is fully symbolic.  Labelled bounded: the loop runs over the concrete
length.
"""
from pyvc.sym import And, Or, Not, Implies, ite
from pyvc.vc import oset
from contracts.sockworld import make_world, SOCK

ENQ = SOCK + ":AirTouchSocket._enqueue_message"
SWH = SOCK + ":AirTouchSocket.send_with_header"


def same_objects(a, b):
    return len(a) == len(b) and all(x is y for x, y in zip(a, b))


def _enqueue(h, n, pinned=0):
    """n queued entries with arbitrary expiry; the first `pinned` of them assumed unexpired."""
    W = make_world(h)
    old = [W.entry(f"e{i}") for i in range(n)]
    new = W.entry("new")
    sock = W.make_socket(queue=list(old), connected=False)
    now = W.clock()
    for e in old[:pinned]:
        h.assume(now < h.attr(e, "expiry"), "first entries unexpired (path-count reduction of the quick tier)")
    r = h.method(sock, "_enqueue_message", new)
    kept = [e for e in old if not h.branch(now >= h.attr(e, "expiry"))]
    after = W.queue_items()
    cap = h.get(SOCK + ":MAX_MESSAGE_QUEUE_SIZE")
    h.oblige("capacity constant is ten", cap == 10)
    if len(kept) >= 10:
        h.oblige("an eleventh unexpired message raises QueueOverflowError", r.raised("QueueOverflowError"))
        h.oblige("on overflow the held messages are exactly the unexpired old ones, in order", same_objects(after, kept))
    else:
        h.oblige("accepted without error", r.ok)
        h.oblige("queue = unexpired old entries in order, then the new entry itself", same_objects(after, kept + [new]))
        h.oblige("at most ten entries are held afterwards", len(after) <= 10)
    h.cover("enqueue explored")


_ENQ_ASSUME = ["loop.time() is the loop clock; it does not advance inside a synchronous function"]


@oset("socket._enqueue_message.len0-6", ["C16", "C01", "C02"], [ENQ], bounded="queue length 0..6, every expiry pattern",
      assumptions=_ENQ_ASSUME)
def enqueue_small(h):
    _enqueue(h, h.choice("queue_len", list(range(0, 7))))


@oset("socket._enqueue_message.len9-11", ["C16", "C01", "C02"], [ENQ], assumptions=_ENQ_ASSUME,
      bounded="queue length 9..11 with the first six entries unexpired, every expiry pattern of the others")
def enqueue_near_capacity(h):
    _enqueue(h, h.choice("queue_len", [9, 10, 11]), pinned=6)


@oset("socket._enqueue_message.len7-11-all-patterns", ["C16", "C01", "C02"], [ENQ], assumptions=_ENQ_ASSUME, tier="thorough",
      bounded="queue length 7..11, every expiry pattern")
def enqueue_all(h):
    _enqueue(h, h.choice("queue_len", [7, 8, 9, 10, 11]))


@oset("socket.send_with_header.not-open", ["C16", "C15"], [SWH])
def send_not_open(h):
    n = h.choice("queue_len", [0, 1, 3])
    W = make_world(h)
    old = [W.entry(f"e{i}") for i in range(n)]
    sock = W.make_socket(queue=list(old), connected=False, is_open=False)
    pol = h.new(SOCK + ":RetryPolicy", max_retries=h.int("max_retries", 0, 5), max_lifetime=h.real("lifetime", 0, 100))
    r = h.method(sock, "send_with_header", W.header("hdr"), W.message("msg"), pol)
    h.oblige("sending on a socket that is not open raises NotOpenError", r.raised("NotOpenError"))
    h.oblige("nothing is held", same_objects(W.queue_items(), old))


@oset("socket.send_with_header.disconnected", ["C01", "C02", "C16"], [SWH, ENQ, SOCK + ":AirTouchSocket._drain_message_queue"])
def send_disconnected(h):
    """Open but not connected: the message is queued with the policy's retry count and lifetime; nothing is written."""
    n = h.choice("queue_len", [0, 1, 2])
    W = make_world(h)
    old = [W.entry(f"e{i}") for i in range(n)]
    sock = W.make_socket(queue=list(old), connected=False, is_open=True)
    now = W.clock()
    mr = h.int("max_retries", 0, 5)
    lt = h.real("lifetime", 0, 100)
    pol = h.new(SOCK + ":RetryPolicy", max_retries=mr, max_lifetime=lt)
    hdr, msg = W.header("hdr"), W.message("msg")
    r = h.method(sock, "send_with_header", hdr, msg, pol)
    h.oblige("accepted", r.ok)
    if not r.ok:
        return
    kept = [e for e in old if not h.branch(now >= h.attr(e, "expiry"))]
    after = W.queue_items()
    h.oblige("one entry appended behind the unexpired ones", And(len(after) == len(kept) + 1, same_objects(after[:-1], kept)))
    if len(after) == len(kept) + 1:
        e = after[-1]
        h.oblige("the entry carries this very header and message", And(h.attr(e, "header") is hdr, h.attr(e, "message") is msg))
        h.oblige("retries_remaining = policy.max_retries", h.attr(e, "retries_remaining") == mr)
        h.oblige("expiry = now + policy.max_lifetime", h.attr(e, "expiry") == now + lt)
