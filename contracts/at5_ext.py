"""AirTouch 5 extended (0x1F) codecs: the 0x1F wrapper and its sub-messages 0xFF10 AC error
information, 0xFF11 AC ability, 0xFF13 zone names, 0xFF30 console version, 0xFF49 quick timer.

Oracle: Polyaire "AirTouch 5 Communication Protocol" v1.2, section 3 b (pages 12-15; text in
spec/vendor/airtouch5_protocol_v1.2.txt).  The layouts below are transcribed from it.  The quick
timer (0xFF49) is not in the vendor document: its oracle is the module docstring / comments of
pyairtouch/at5/comms/x1FFF49_quick_timer.py and the vectors of tests/at5/comms/test_x1FFF49_quick_timer.py
(repo-derived, flagged in that set's `assumptions`).

Properties: C03 (round trip, length agreement), C04 (what a command means on the wire), C05 (what a
status / ability / name / version / error payload means), C17 (unknown sub-types, oversized records,
malformed input: tolerated or rejected, never misread).

Wire domain notes
* a str is modelled by its UTF-8 bytes (h.string / h.utf8): "all names incl. multi-byte UTF-8".
* the receive path (comms/socket.py _read_one_message -> ExtendedMessageDecoder.decode) hands a
  sub-decoder exactly `header.message_length` bytes and calls assert_complete() on the result; the
  decode-reading sets therefore take len(payload) == sub-header.message_length.
"""
from pyvc.values import unmodelled as _unmodelled  # noqa: E402
from pyvc.sym import And, Or, Not, Implies, ite
from pyvc.vc import oset
from contracts.codec import AT5, REJECT, at5_header, at5_ext_subheader, roundtrip_plain, only_rejects

X1F = AT5 + "x1F_ext"
XERR = AT5 + "x1FFF10_err_info"
XABL = AT5 + "x1FFF11_ac_ability"
XZN = AT5 + "x1FFF13_zone_names"
XVER = AT5 + "x1FFF30_console_ver"
XQT = AT5 + "x1FFF49_quick_timer"
XC022 = AT5 + "xC022_ac_ctrl"
COMMS = "pyairtouch.comms"

# ---- vendor layouts (doc page 12-15).  Offsets below are relative to the sub-message payload,
# i.e. vendor "Byte3" (the first byte after 0xFF 0x1X) is offset 0.
ID_ERR, ID_ABILITY, ID_ZONE_NAMES, ID_VERSION, ID_QUICK_TIMER = 0xFF10, 0xFF11, 0xFF13, 0xFF30, 0xFF49
# AC ability (page 12): Byte3 AC index, Byte4 following data length (24 at this moment), Byte5-20 name
# (16 bytes, "if less than 16 bytes, end with 0"), Byte21 start zone, Byte22 zone count, Byte23 mode bits,
# Byte24 fan speed bits, Byte25 min cool, Byte26 max cool, Byte27 min heat, Byte28 max heat set point.
ABILITY_KNOWN_FOLLOWING = 24
ABILITY_RECORD = 2 + ABILITY_KNOWN_FOLLOWING
# Byte23: Bit1 auto, Bit2 heat, Bit3 dry, Bit4 fan, Bit5 cool (Bit8-6 not used); value = bit index from 0
ABILITY_MODE_BIT = {"AUTO": 0, "HEAT": 1, "DRY": 2, "FAN": 3, "COOL": 4}
# Byte24: Bit1 auto, Bit2 quiet, Bit3 low, Bit4 medium, Bit5 high, Bit6 powerful, Bit7 turbo, Bit8 intelligent auto
ABILITY_FAN_BIT = {"AUTO": 0, "QUIET": 1, "LOW": 2, "MEDIUM": 3, "HIGH": 4, "POWERFUL": 5, "TURBO": 6,
                   "INTELLIGENT_AUTO": 7}
# Console version (page 15): Byte3 update sign (0 latest, other: new version available), Byte4 version
# string length, Byte5.. versions, "two consoles separated by ,"
VERSION_SEPARATOR = 0x2C


# ---- small helpers that read buffers in both readings (symbolic: BytesVal / ABytes; native: bytes) ----

def _byte_at(h, buf, i):
    if h.symbolic:
        from pyvc.values import ABytes
        return buf.at(i) if isinstance(buf, ABytes) else buf.items[i]
    return buf[i]


def _is_view(h, data, buf, lo, n):
    """`data` is exactly the n bytes buf[lo:lo+n] (and they exist)."""
    if h.symbolic:
        from pyvc.values import ABytes, BytesVal
        from pyvc import sym as S
        if isinstance(data, ABytes):
            if not isinstance(buf, ABytes):
                return False
            return And(data.same_base(buf), S.eq(data.off, buf.off + lo), S.eq(data.ln, n), lo + n <= buf.ln, n >= 0)
        if isinstance(data, (bytes, bytearray)):
            data = BytesVal.of(data)
        if isinstance(data, BytesVal):
            k = len(data.items)
            return And(S.eq(n, k), lo + k <= h.length(buf), *[S.eq(data.items[i], _byte_at(h, buf, lo + i)) for i in range(k)])
        return False
    return len(data) == n and bytes(data) == bytes(buf[lo:lo + n]) and lo + n <= len(buf)


def _payload(h, name="payload", min_len=0, max_len=65533, native_fix=None):
    """An arbitrary payload of arbitrary (symbolic) length and its length, which is also the announced
    message_length: the receive path reads exactly message_length payload bytes."""
    buf = h.abytes(name, min_len=min_len, max_len=max_len, native_fix=native_fix)
    return buf, h.length(buf)


def _str_bytes(h, s):
    """UTF-8 bytes of a decoded str: a list (concrete length) or, for a symbolic-length str, its view."""
    if h.symbolic:
        from pyvc.pybuiltins import SStrA
        if isinstance(s, SStrA):
            return s.view
        from pyvc.values import BytesVal
        return BytesVal(h.utf8(s))
    return s.encode("utf-8")


def _concrete(h, x, lo, hi):
    """Complete case split of an integer over lo..hi: its value on this path, or None if outside."""
    for v in range(lo, hi + 1):
        if h.branch(x == v):
            return v
    return None


# ================================ 0xFF10 AC error information ==================================

ERR_INFO_MAX = 24


def gen_error_info(h):
    """AC index: the wire has one byte (vendor: 0-15; every byte value is taken).  Error info: None
    ("if no error, [length] will be 0") or a non-empty string; the empty string and None are the
    same wire value and decode as None, so the equality domain is None-or-non-empty."""
    n = h.choice("error_info_bytes", [None] + list(range(1, ERR_INFO_MAX + 1)))
    info = None if n is None else h.string("error_info", n, no_nul=False)
    return h.new(XERR + ":AcErrorInformationMessage", ac_number=h.int("ac_number", 0, 255), error_info=info)


@oset("at5.xFF10.roundtrip.request", ["C03"], [XERR + ":AcErrorInformationEncoder.size", XERR + ":AcErrorInformationEncoder.encode",
                                                XERR + ":AcErrorInformationDecoder.decode"])
def xff10_roundtrip_request(h):
    msg = h.new(XERR + ":AcErrorInformationRequest", ac_number=h.int("ac_number", 0, 255))
    roundtrip_plain(h, XERR + ":AcErrorInformationEncoder", XERR + ":AcErrorInformationDecoder", msg, at5_ext_subheader, ID_ERR)


@oset("at5.xFF10.roundtrip", ["C03"], [XERR + ":AcErrorInformationEncoder.size", XERR + ":AcErrorInformationEncoder.encode",
                                        XERR + ":AcErrorInformationDecoder.decode"],
      bounded=f"error info <= {ERR_INFO_MAX} UTF-8 bytes (every length, every byte value incl. multi-byte sequences)")
def xff10_roundtrip(h):
    msg = gen_error_info(h)
    out = roundtrip_plain(h, XERR + ":AcErrorInformationEncoder", XERR + ":AcErrorInformationDecoder", msg, at5_ext_subheader, ID_ERR)
    if out is None:
        return
    # C04/C05-style cross-check of the produced bytes against the vendor layout (a mask that is wrong
    # the same way on both sides is invisible to the round trip alone)
    info = h.attr(msg, "error_info")
    exp = [] if h.is_none(info) else h.utf8(info)
    items = h.items(out)
    h.oblige("wire: Byte3 AC index, Byte4 error info length, Byte5.. the UTF-8 error string",
             And(len(items) == 2 + len(exp), items[0] == h.attr(msg, "ac_number"), items[1] == len(exp),
                 *[a == b for a, b in zip(items[2:], exp)]) if len(items) == 2 + len(exp) else False)


@oset("at5.xFF10.roundtrip.any-length", ["C03", "C04"], [XERR + ":AcErrorInformationEncoder.size", XERR + ":AcErrorInformationEncoder.encode",
                                                         XERR + ":AcErrorInformationDecoder.decode"],
      assumptions=["str modelled by its UTF-8 bytes (a symbolic-length buffer); bytes.decode raises exactly on invalid UTF-8"])
def xff10_roundtrip_any(h):
    from contracts.codec import roundtrip_err_info_any_length
    roundtrip_err_info_any_length(h, XERR, at5_ext_subheader, ID_ERR)


@oset("at5.xFF10.decode-vendor-reading", ["C05", "C17"], [XERR + ":AcErrorInformationDecoder.decode"],
      assumptions=["len(payload) == sub-header.message_length (what the receive path hands to a sub-decoder)"])
def xff10_decode(h):
    """Arbitrary payload of arbitrary length (unbounded: symbolic-length buffer)."""
    buf, mlen = _payload(h)
    dec = h.new(XERR + ":AcErrorInformationDecoder")
    r = h.method(dec, "decode", buf, at5_ext_subheader(h, ID_ERR, mlen))
    h.oblige("returns or rejects", only_rejects(h, r))
    if not r.ok:
        # legitimate rejections: no AC index at all, a string that is not UTF-8, or (C17) a length byte that
        # announces more error text than the payload carries (DecodeError)
        too_long = And(mlen >= 2, 2 + _byte_at(h, buf, 1) > mlen) if (h.symbolic or len(buf) >= 2) else False
        h.oblige("only an empty payload, invalid UTF-8 or an announced length that exceeds the payload is rejected here",
                 Or(mlen == 0, r.raised("UnicodeDecodeError"), And(r.raised("DecodeError"), too_long)))
        return
    m = h.attr(r.value, "message")
    rem = h.attr(r.value, "remaining")
    h.oblige("AC index = Byte3", h.attr(m, "ac_number") == _byte_at(h, buf, 0))
    if h.isinstance(m, XERR + ":AcErrorInformationRequest"):
        h.oblige("request <=> the data is the AC index only", mlen == 1)
        h.oblige("request: nothing left over", h.length(rem) == 0)
        return
    h.oblige("message => at least AC index and length byte", mlen >= 2)
    n = _byte_at(h, buf, 1)
    info = h.attr(m, "error_info")
    if h.is_none(info):
        h.oblige("no error info <=> Byte4 (error info length) is 0", n == 0)
        h.oblige("remaining = what follows the length byte", h.length(rem) == mlen - 2)
    else:
        h.oblige("error info present => Byte4 != 0", n != 0)
        # the announced length must be available: a payload that ends before the announced end of the
        # string has no vendor reading and must be rejected, not delivered as a shorter string (C17)
        h.oblige("announced error info length fits in the payload (a truncated string is rejected)", 2 + n <= mlen)
        h.oblige("error info = the Byte4 bytes that follow, as UTF-8", _is_view(h, _str_bytes(h, info), buf, 2, n))
        h.oblige("remaining = what follows the error string", h.length(rem) == mlen - 2 - n)
    h.cover("xFF10 decode returns a message")


# ================================ 0xFF30 console version =======================================

VERSION_MAX = 6


def gen_console_version(h):
    """1..2 version strings ("two consoles separated by ,"), each 0..6 UTF-8 bytes without the separator
    (a ',' inside a version cannot be told from the separator on the wire) - held in a list: the decoder
    builds a list and Python compares list != tuple."""
    count = h.choice("versions", [1, 2])
    vs = []
    for i in range(count):
        n = h.choice(f"version{i}_bytes", list(range(0, VERSION_MAX + 1)))
        vs.append(h.string(f"version{i}", n, no_nul=False, exclude_bytes=(VERSION_SEPARATOR,)))
    return h.new(XVER + ":ConsoleVersionMessage", update_available=h.bool("update_available"), versions=vs), vs


@oset("at5.xFF30.roundtrip.request", ["C03"], [XVER + ":ConsoleVersionEncoder.size", XVER + ":ConsoleVersionEncoder.encode",
                                                XVER + ":ConsoleVersionDecoder.decode"])
def xff30_roundtrip_request(h):
    roundtrip_plain(h, XVER + ":ConsoleVersionEncoder", XVER + ":ConsoleVersionDecoder", h.new(XVER + ":ConsoleVersionRequest"),
                    at5_ext_subheader, ID_VERSION)


@oset("at5.xFF30.roundtrip", ["C03"], [XVER + ":ConsoleVersionEncoder.size", XVER + ":ConsoleVersionEncoder.encode",
                                        XVER + ":ConsoleVersionDecoder.decode"],
      bounded=f"1..2 version strings of 0..{VERSION_MAX} UTF-8 bytes each, no ',' (0x2C) inside a version")
def xff30_roundtrip(h):
    msg, vs = gen_console_version(h)
    out = roundtrip_plain(h, XVER + ":ConsoleVersionEncoder", XVER + ":ConsoleVersionDecoder", msg, at5_ext_subheader, ID_VERSION)
    if out is None:
        return
    exp = []
    for i, v in enumerate(vs):
        if i:
            exp.append(VERSION_SEPARATOR)
        exp.extend(h.utf8(v))
    items = h.items(out)
    h.oblige("wire: Byte3 update sign (0 latest / other update), Byte4 string length, Byte5.. versions joined by ','",
             And(h.eq(items[0] != 0, h.attr(msg, "update_available")), items[1] == len(exp),
                 *[a == b for a, b in zip(items[2:], exp)]) if len(items) == 2 + len(exp) else False)


VERSION_PAYLOAD_MAX = 9


@oset("at5.xFF30.decode-vendor-reading", ["C05", "C17"], [XVER + ":ConsoleVersionDecoder.decode"],
      bounded=f"payload length <= {VERSION_PAYLOAD_MAX} bytes (every length, all byte values)",
      assumptions=["len(payload) == sub-header.message_length (what the receive path hands to a sub-decoder)"])
def xff30_decode(h):
    L = h.choice("payload_length", list(range(0, VERSION_PAYLOAD_MAX + 1)))
    buf = h.bytes("payload", L)
    dec = h.new(XVER + ":ConsoleVersionDecoder")
    r = h.method(dec, "decode", buf, at5_ext_subheader(h, ID_VERSION, L))
    h.oblige("returns or rejects", only_rejects(h, r))
    if not r.ok:
        # legitimate rejections: no length byte, a string that is not UTF-8, or (C17) a length byte that
        # announces more version text than the payload carries (DecodeError)
        too_long = 2 + h.items(buf)[1] > L if L >= 2 else False
        h.oblige("only a 1-byte payload, invalid UTF-8 or an announced length that exceeds the payload is rejected here",
                 Or(L == 1, r.raised("UnicodeDecodeError"), And(r.raised("DecodeError"), too_long)))
        return
    m = h.attr(r.value, "message")
    rem = h.attr(r.value, "remaining")
    if h.isinstance(m, XVER + ":ConsoleVersionRequest"):
        h.oblige("request <=> no data", L == 0)
        return
    h.oblige("message => update sign and length byte present", L >= 2)
    items = h.items(buf)
    h.oblige("update available <=> Byte3 (update sign) != 0", h.eq(h.attr(m, "update_available"), items[0] != 0))
    n = items[1]
    joined = []
    vs = h.elems(h.attr(m, "versions"))
    for i, v in enumerate(vs):
        if i:
            joined.append(VERSION_SEPARATOR)
        b = h.utf8(v)
        h.oblige("no decoded version contains the separator", And(*[x != VERSION_SEPARATOR for x in b]))
        joined.extend(b)
    h.oblige("at least one version (the console we talk to)", len(vs) >= 1)
    h.oblige("announced version string length fits in the payload (a truncated string is rejected)", 2 + n <= L)
    k = len(joined)
    h.oblige("versions, joined by ',', are the Byte4 bytes that follow",
             And(Or(n == k, And(n > L - 2, k == L - 2)), *[a == b for a, b in zip(joined, items[2:2 + k])]) if 2 + k <= L else False)
    h.oblige("remaining = what follows the version string", h.length(rem) == L - 2 - k)
    h.cover("xFF30 decode returns a message")


def version_decode_any_length(h, mod, mk_subheader, sub_id, sep=","):
    """Unbounded companion of decode-vendor-reading for the console-version decoder (same code shape in both
    generations): any payload length, any text length.  The list of versions is `text.split(",")` of exactly the
    announced text - kept abstract (pyvc SplitList: the pieces of that very view at that separator)."""
    from pyvc.pybuiltins import SplitList
    buf, mlen = _payload(h, min_len=2)
    r = h.method(h.new(mod + ":ConsoleVersionDecoder"), "decode", buf, mk_subheader(h, sub_id, mlen))
    h.oblige("returns or rejects", only_rejects(h, r))
    n = _byte_at(h, buf, 1)
    if not r.ok:
        h.oblige("with two or more bytes of data only invalid UTF-8 or an announced length beyond the data is rejected",
                 Or(r.raised("UnicodeDecodeError"), And(r.raised("DecodeError"), 2 + n > mlen)))
        return
    m = h.attr(r.value, "message")
    ok = h.isinstance(m, mod + ":ConsoleVersionMessage")
    h.oblige("two or more bytes of data decode to a version message", ok)
    if not ok:
        return
    h.oblige("update available <=> Byte3 (update sign) != 0", h.eq(h.attr(m, "update_available"), _byte_at(h, buf, 0) != 0))
    h.oblige("an announced text longer than the data is rejected, never truncated", 2 + n <= mlen)
    vs = h.attr(m, "versions")
    if h.branch(n == 0):
        h.oblige("no text: the single empty version (what ''.split(sep) is)", h.eq(vs, [""]) if not isinstance(vs, SplitList) else h.length(vs.view) == 0)
    else:
        h.oblige("versions = the announced text - exactly the Byte4 bytes after the length byte - split at the generation's separator (AT5 ',', AT4 '|')",
                 And(_is_view(h, vs.view, buf, 2, n), vs.sep == sep, vs.maxsplit == -1) if isinstance(vs, SplitList) else False)
    h.oblige("remaining = what follows the announced text", _is_view(h, h.attr(r.value, "remaining"), buf, 2 + n, mlen - 2 - n))
    h.cover("version message decoded")


@oset("at5.xFF30.decode-any-length", ["C05", "C17"], [XVER + ":ConsoleVersionDecoder.decode"],
      assumptions=["len(payload) == sub-header.message_length (what the receive path hands to a sub-decoder)",
                   "str.split is kept abstract: the obligation is that it is applied to exactly the announced text with ','"])
def xff30_decode_any(h):
    if not h.symbolic:
        return
    version_decode_any_length(h, XVER, at5_ext_subheader, ID_VERSION)


# ================================ 0xFF11 AC ability ==============================================

ABILITY_MODES = ["AUTO", "HEAT", "DRY", "FAN", "COOL"]
ABILITY_FANS = ["AUTO", "QUIET", "LOW", "MEDIUM", "HIGH", "POWERFUL", "TURBO", "INTELLIGENT_AUTO"]
SET_POINT_FIELDS = ["min_cool_set_point", "max_cool_set_point", "min_heat_set_point", "max_heat_set_point"]


def _support_map(h, cls, names, prefix):
    """Mapping as the decoder builds it: every mode / speed of the vendor table -> bool, plus the
    pseudo member UNCHANGED -> True (not on the wire: 'keep' is always possible)."""
    d = {h.member(cls, n): h.bool(f"{prefix}_{n.lower()}") for n in names}
    d[h.member(cls, "UNCHANGED")] = True
    return d


def gen_ac_ability(h, i, name_bytes):
    """One AcAbility: every field a byte (vendor: AC index 0-15, zone index from 0 - the wire takes any
    byte value), the name any str of <= 16 UTF-8 bytes without NUL (fixed 16-byte field, "if less than 16
    bytes, end with 0"; longer names are truncated by struct, a NUL ends the name: not representable)."""
    return h.new(XABL + ":AcAbility",
                 ac_number=h.int(f"a{i}_number", 0, 255),
                 ac_name=h.string(f"a{i}_name", name_bytes),
                 start_zone=h.int(f"a{i}_start_zone", 0, 255),
                 zone_count=h.int(f"a{i}_zone_count", 0, 255),
                 ac_mode_support=_support_map(h, XC022 + ":AcModeControl", ABILITY_MODES, f"a{i}_mode"),
                 fan_speed_support=_support_map(h, XC022 + ":AcFanSpeedControl", ABILITY_FANS, f"a{i}_fan"),
                 **{f: h.int(f"a{i}_{f}", 0, 255) for f in SET_POINT_FIELDS})


ABILITY_FNS = [XABL + ":AcAbilityEncoder.size", XABL + ":AcAbilityEncoder.encode", XABL + ":AcAbilityDecoder.decode",
               "pyairtouch.comms.encoding:decode_c_string", "pyairtouch.comms.encoding:bool_to_bit",
               "pyairtouch.comms.encoding:bit_to_bool"]


@oset("at5.xFF11.roundtrip.request", ["C03"], ABILITY_FNS[:3])
def xff11_roundtrip_request(h):
    which = h.choice("request", ["ALL", "one"])
    msg = h.new(XABL + ":AcAbilityRequest", ac_number="ALL" if which == "ALL" else h.int("ac_number", 0, 255))
    roundtrip_plain(h, XABL + ":AcAbilityEncoder", XABL + ":AcAbilityDecoder", msg, at5_ext_subheader, ID_ABILITY)


def ability_wire_meaning(h, ab, b, tag=""):
    """The 26 bytes `b` of one record, read with the vendor table (page 12), say what `ab` says."""
    h.oblige(tag + "Byte3 = AC index", b[0] == h.attr(ab, "ac_number"))
    name = h.utf8(h.attr(ab, "ac_name"))
    h.oblige(tag + "Byte5-20 = the AC name, 16 bytes, ended with 0 if shorter",
             And(*[b[2 + i] == (name[i] if i < len(name) else 0) for i in range(16)]) if len(name) <= 16 else False)
    h.oblige(tag + "Byte21 = start zone, Byte22 = zone count",
             And(b[18] == h.attr(ab, "start_zone"), b[19] == h.attr(ab, "zone_count")))
    modes = h.attr(ab, "ac_mode_support")
    for n, bit in ABILITY_MODE_BIT.items():
        h.oblige(tag + f"Byte23 bit{bit + 1} = {n.lower()} mode supported",
                 h.eq(modes[h.member(XC022 + ":AcModeControl", n)], (b[20] // (1 << bit)) % 2 == 1))
    fans = h.attr(ab, "fan_speed_support")
    for n, bit in ABILITY_FAN_BIT.items():
        h.oblige(tag + f"Byte24 bit{bit + 1} = fan speed {n.lower()} supported",
                 h.eq(fans[h.member(XC022 + ":AcFanSpeedControl", n)], (b[21] // (1 << bit)) % 2 == 1))
    h.oblige(tag + "Byte25-28 = min cool, max cool, min heat, max heat set point",
             And(*[b[22 + j] == h.attr(ab, f) for j, f in enumerate(SET_POINT_FIELDS)]))


@oset("at5.xFF11.roundtrip.one-record", ["C03"], ABILITY_FNS)
def xff11_roundtrip_one(h):
    """Every field value of one record; AC names of every UTF-8 length 0..16."""
    n = h.choice("name_bytes", list(range(0, 17)))
    ab = gen_ac_ability(h, 0, n)
    msg = h.new(XABL + ":AcAbilityMessage", [ab])
    out = roundtrip_plain(h, XABL + ":AcAbilityEncoder", XABL + ":AcAbilityDecoder", msg, at5_ext_subheader, ID_ABILITY)
    if out is None:
        return
    b = h.items(out)
    h.oblige("one record is 26 bytes", len(b) == ABILITY_RECORD)
    if len(b) == ABILITY_RECORD:
        h.oblige("Byte4 = following data length 24", b[1] == ABILITY_KNOWN_FOLLOWING)
        h.oblige("Byte23 bit8-6 not used: 0", b[20] // 32 == 0)
        ability_wire_meaning(h, ab, b, "wire: ")


_COUNT_NAME_BYTES = [16, 0, 5, 9, 1, 12, 3, 7, 2, 15, 4, 8, 6, 10, 11, 13]


def _ability_counts(h, counts):
    n = h.choice("count", counts)
    msg = h.new(XABL + ":AcAbilityMessage", [gen_ac_ability(h, i, _COUNT_NAME_BYTES[i]) for i in range(n)])
    # an empty ability message is, on the wire, the request for all ACs (no data): same message id
    roundtrip_plain(h, XABL + ":AcAbilityEncoder", XABL + ":AcAbilityDecoder", msg, at5_ext_subheader, ID_ABILITY,
                    expect=h.new(XABL + ":AcAbilityRequest", ac_number="ALL") if n == 0 else None)


@oset("at5.xFF11.roundtrip.counts-0-8", ["C03"], ABILITY_FNS)
def xff11_roundtrip_counts(h):
    """Repeat counts 0..8 (an AirTouch 5 has at most 8 ACs), every record fully symbolic; the name of record
    i has a fixed UTF-8 length (16, 0, 5, 9, 1, 12, ... bytes: records are encoded / decoded independently,
    every name length is covered by the one-record set)."""
    _ability_counts(h, list(range(0, 9)))


@oset("at5.xFF11.roundtrip.counts-9-12", ["C03"], ABILITY_FNS)
def xff11_roundtrip_counts_mid(h):
    """Repeat counts 9..12 (the AC index byte is documented as 0-15; C03 asks for all repeat counts 0..16).
    Split from counts-0-8 only to keep each set short."""
    _ability_counts(h, list(range(9, 13)))


@oset("at5.xFF11.roundtrip.counts-13-16", ["C03"], ABILITY_FNS)
def xff11_roundtrip_counts_hi(h):
    """Repeat counts 13..16."""
    _ability_counts(h, list(range(13, 17)))


def check_ability_record(h, rec, b, tag=""):
    """Vendor reading (page 12) of the 26 known bytes `b` of one record against the decoded `rec`."""
    name = h.utf8(h.attr(rec, "ac_name"))
    L = len(name)
    h.oblige(tag + "AC name = Byte5-20 up to the first 0 (at most 16 bytes)",
             And(*[name[i] == b[2 + i] for i in range(L)], *[name[i] != 0 for i in range(L)],
                 True if L == 16 else b[2 + L] == 0) if L <= 16 else False)
    h.oblige(tag + "AC index = Byte3", h.attr(rec, "ac_number") == b[0])
    h.oblige(tag + "start zone = Byte21, zone count = Byte22",
             And(h.attr(rec, "start_zone") == b[18], h.attr(rec, "zone_count") == b[19]))
    modes = h.attr(rec, "ac_mode_support")
    for n, bit in ABILITY_MODE_BIT.items():
        h.oblige(tag + f"{n.lower()} mode supported = Byte23 bit{bit + 1}",
                 h.eq(modes[h.member(XC022 + ":AcModeControl", n)], (b[20] // (1 << bit)) % 2 == 1))
    fans = h.attr(rec, "fan_speed_support")
    for n, bit in ABILITY_FAN_BIT.items():
        h.oblige(tag + f"fan speed {n.lower()} supported = Byte24 bit{bit + 1}",
                 h.eq(fans[h.member(XC022 + ":AcFanSpeedControl", n)], (b[21] // (1 << bit)) % 2 == 1))
    h.oblige(tag + "min cool / max cool / min heat / max heat set point = Byte25-28",
             And(*[h.attr(rec, f) == b[22 + j] for j, f in enumerate(SET_POINT_FIELDS)]))


def check_ability_stride(h, b, advanced, tag=""):
    """C05 "record strides announced by the console are honoured", C17 "records longer than the known
    layout are decoded from their known prefix": Byte4 "shows the count of following bytes belong to the
    ability of this AC (24 at this moment)", so the next record starts 2 + Byte4 bytes further."""
    h.oblige(tag + "announced following data length >= 24 (a shorter record is not read past its announced end)",
             b[1] >= ABILITY_KNOWN_FOLLOWING)
    h.oblige(tag + "next record starts 2 + Byte4 bytes further (announced following data length honoured)",
             advanced == 2 + b[1])


class _AbilityWalk:
    """Ghost definitions of the vendor walk over a payload (page 12: "following data length ... the count of
    following bytes belong to the ability of this AC"): record k starts at OFF(k),
        OFF(0) = 0,   OFF(k+1) = OFF(k) + 2 + Byte4 of the record at OFF(k),
    and N = the first k with OFF(k) >= message_length (it exists: every step is >= 2).  OFF is an
    uninterpreted function, N a constant; only ground instances of these definitions are assumed."""

    def __init__(self, h, buf, mlen):
        import z3
        from pyvc import sym as S
        self.h, self.buf, self.mlen = h, buf, mlen
        self.f = z3.Function(S.fresh_name("OFF"), z3.IntSort(), z3.IntSort())
        self.N = S.SInt(z3.Int(S.fresh_name("N")))
        h.path.inputs["xFF11-walk:N"] = self.N

    def off(self, k):
        from pyvc import sym as S
        return S.mkint(self.f(S.int_t(k)))

    def instance(self, k, why):
        """The definitions at index k."""
        h = self.h
        o = self.off(k)
        h.assume(And(o >= 0, self.off(k + 1) == o + 2 + self.buf.at(o + 1),
                     Implies(k < self.N, o < self.mlen), Implies(k >= self.N, o >= self.mlen)), why)


def _install_ability_loop(h, buf, mlen, check_record, tag="xFF11"):
    """Loop contract (unbounded record count, variable stride) for the decode loop
         offset = 0
         while offset < message_length: unpack_from(buffer, offset); [reject Byte4 < 24]; offset += 2 + Byte4; list.append(rec)
    State at iteration k (constructed): offset = OFF(k) of the vendor walk, list = the k specified records.
    The real body runs once for an arbitrary k < N and must (a) append exactly one record, (b) leave the
    cursor at OFF(k+1) = OFF(k) + 2 + Byte4, (c) have the 26 known bytes inside the payload, (d) pass
    check_record(record, the 26 bytes at the cursor, bytes the cursor moved, k).  StateLoop also obliges that
    the loop test agrees with k < N at the head of iteration k and at exit."""
    from pyvc.loops import StateLoop, SpecList
    from pyvc import sym as S
    walk = _AbilityWalk(h, buf, mlen)
    inside = lambda k: walk.off(k) + ABILITY_RECORD <= mlen  # noqa: E731

    def n_of(it, iterable, entry, env):
        return walk.N

    def define(it, k, entry):
        why = "definition of the vendor walk OFF / N (ground instance)"
        if k == "init":
            h.assume(walk.off(0) == 0, why)
            walk.instance(0, why)
            walk.instance(1, why)
        elif k is None:
            walk.instance(walk.N, why)
            # loop invariant "every completed iteration had its 26 known bytes inside the payload" (obliged for
            # an arbitrary iteration below), used at exit for the first record
            h.assume(Implies(walk.N >= 1, inside(0)), "invariant: obliged per iteration as 'the 26 known bytes of the record lie inside the payload'")
        else:
            walk.instance(k, why)

    def at(it, k, entry):
        if entry["ac_abilities"] != [] or not (isinstance(entry["offset"], int) and entry["offset"] == 0):
            raise Exception("loop entry state does not match the contract pattern")
        return {"offset": walk.off(k), "ac_abilities": SpecList(tag, k)}

    def check(it, k, entry, after):
        lst = after["ac_abilities"]
        ok_shape = isinstance(lst, SpecList) and len(lst.appended) == 1
        h.oblige(f"{tag}-loop/exactly one record appended", ok_shape, kind="loop-preserve")
        if not ok_shape:
            return
        cur = walk.off(k)
        h.oblige(f"{tag}-loop/the cursor moves to the start of the next record of the vendor walk",
                 S.eq(after["offset"], walk.off(k + 1)), kind="loop-preserve")
        h.oblige(f"{tag}-loop/the 26 known bytes of the record lie inside the payload", inside(k), kind="loop-preserve")
        check_record(lst.appended[0], [buf.at(cur + i) for i in range(ABILITY_RECORD)], after["offset"] - cur, k)

    h.it.loop_hooks[(XABL + ":AcAbilityDecoder.decode", 0)] = StateLoop(f"{tag}-loop", ["offset", "ac_abilities"], n_of, at, check, define=define)
    return walk


def _native_ability_walk(buf):
    """Vendor walk on concrete bytes: list of record offsets and the offset where the walk ends."""
    offs, off = [], 0
    while off < len(buf):
        offs.append(off)
        off += 2 + (buf[off + 1] if off + 1 < len(buf) else 0)
    return offs, off


@oset("at5.xFF11.decode-vendor-reading", ["C05", "C17"], ABILITY_FNS[2:],
      assumptions=["len(payload) == sub-header.message_length (what the receive path hands to a sub-decoder)"])
def xff11_decode(h):
    """Arbitrary payload, unbounded in length and record count: loop contract on the real decode loop.
    The vendor reading walks the payload by the announced following data length (record stride 2 + Byte4);
    every record the decoder delivers must sit at the walk's offset, announce >= 24 following bytes, be read
    from its 26 known bytes, and the walk must end exactly at the end of the payload."""
    buf, mlen = _payload(h)
    dec = h.new(XABL + ":AcAbilityDecoder")

    def per_record(rec, b, advanced, k):
        check_ability_stride(h, b, advanced, "record k: ")
        check_ability_record(h, rec, b, "record k: ")

    walk = _install_ability_loop(h, buf, mlen, per_record) if h.symbolic else None
    r = h.method(dec, "decode", buf, at5_ext_subheader(h, ID_ABILITY, mlen))
    h.oblige("returns or rejects", only_rejects(h, r))
    if not r.ok:
        return
    m = h.attr(r.value, "message")
    rem = h.attr(r.value, "remaining")
    if h.isinstance(m, XABL + ":AcAbilityRequest"):
        n = h.attr(m, "ac_number")
        if isinstance(n, str):
            h.oblige("request for all ACs <=> no data", And(mlen == 0, n == "ALL"))
        else:
            h.oblige("request for one AC <=> the data is one byte, the AC index", And(mlen == 1, n == _byte_at(h, buf, 0)))
        h.oblige("request: nothing left over", h.length(rem) == 0)
        return
    h.oblige("an ability message has at least one 26-byte record", mlen >= ABILITY_RECORD)
    if h.symbolic:
        from pyvc.loops import SpecList
        g = h.attr(m, "ac_abilities")
        h.oblige("decoded list is exactly the records of the vendor walk (one per announced stride)",
                 And(isinstance(g, SpecList), g.n == walk.N if isinstance(g, SpecList) else False))
        h.oblige("the records tile the payload: the walk ends exactly at its end", walk.off(walk.N) == mlen)
        h.oblige("nothing left over", h.length(rem) == 0)
    else:
        g = h.elems(h.attr(m, "ac_abilities"))
        offs, end = _native_ability_walk(buf)
        h.oblige("decoded list is exactly the records of the vendor walk (one per announced stride)", len(g) == len(offs))
        h.oblige("the records tile the payload: the walk ends exactly at its end", end == mlen)
        h.oblige("nothing left over", h.length(rem) == 0)
        for k, (rec, off) in enumerate(zip(g, offs)):
            b = list(buf[off:off + ABILITY_RECORD])
            ok = len(b) == ABILITY_RECORD
            h.oblige("xFF11-loop/the 26 known bytes of the record lie inside the payload", ok)
            if ok:
                per_record(rec, b, 2 + b[1], k)
    h.cover("xFF11 decode returns a message")


@oset("at5.xFF11.decode-longer-record", ["C17", "C05"], ABILITY_FNS[2:],
      assumptions=["len(payload) == sub-header.message_length (what the receive path hands to a sub-decoder)"])
def xff11_decode_longer(h):
    """C17: "status records longer than the known layout are decoded from their known prefix".  One AC
    whose record announces E >= 1 more following bytes than the 24 known today (a newer console); every E
    the length byte can express (unbounded: symbolic E, loop contract on the decode loop)."""
    buf, mlen = _payload(h, min_len=ABILITY_RECORD + 1, max_len=2 + 255,
                         native_fix=lambda raw: raw.__setitem__(1, ABILITY_KNOWN_FOLLOWING + len(raw) - ABILITY_RECORD))
    extra = mlen - ABILITY_RECORD
    h.assume(_byte_at(h, buf, 1) == ABILITY_KNOWN_FOLLOWING + extra, "the one record announces its real length")
    dec = h.new(XABL + ":AcAbilityDecoder")

    def per_record(rec, b, advanced, k):
        # the vendor walk has one record, at offset 0 ("exactly one record" below)
        h.assume(k == 0, "the vendor reading has one record: at offset 0")
        check_ability_record(h, rec, b, "known prefix: ")

    walk = _install_ability_loop(h, buf, mlen, per_record) if h.symbolic else None
    r = h.method(dec, "decode", buf, at5_ext_subheader(h, ID_ABILITY, mlen))
    h.oblige("returns or rejects", only_rejects(h, r))
    h.oblige("a record longer than the known layout is not rejected for its length",
             Or(r.ok, r.raised("UnicodeDecodeError")))
    if not r.ok:
        return
    m = h.attr(r.value, "message")
    ok = h.isinstance(m, XABL + ":AcAbilityMessage")
    h.oblige("decoded as an ability message", ok)
    if not ok:
        return
    g = h.attr(m, "ac_abilities")
    if h.symbolic:
        from pyvc.loops import SpecList
        count = g.n if isinstance(g, SpecList) else len(g)
    else:
        g = h.elems(g)
        count = len(g)
        if g:
            per_record(g[0], list(buf[:ABILITY_RECORD]), 2 + buf[1], 0)
    h.oblige("exactly the one announced record is decoded (the extra bytes are skipped, not read as another AC)", count == 1)
    h.oblige("nothing left over", h.length(h.attr(r.value, "remaining")) == 0)


# ================================ 0xFF13 zone names ==============================================

ZONE_NAME_MAX = 12
ZN_FNS = [XZN + ":ZoneNamesEncoder.size", XZN + ":ZoneNamesEncoder.encode", XZN + ":ZoneNamesDecoder.decode"]


def gen_zone_names(h, name_bytes):
    """A ZoneNamesMessage with len(name_bytes) zones: pairwise distinct zone numbers 0..15 (vendor: zone
    index 0-15; the message holds a dict, so its keys are distinct) and names of the given UTF-8 lengths
    (name length is a byte on the wire; any byte value incl. NUL may occur inside a name)."""
    zs = [h.int(f"zone{i}_number", 0, 15) for i in range(len(name_bytes))]
    for i in range(len(zs)):
        for j in range(i):
            h.assume(zs[i] != zs[j], "zone numbers are dict keys: pairwise distinct")
    names = [h.string(f"zone{i}_name", n, no_nul=False) for i, n in enumerate(name_bytes)]
    return h.new(XZN + ":ZoneNamesMessage", zone_names=dict(zip(zs, names))), zs, names


def zone_names_wire(h, zs, names):
    """Vendor layout (page 14): per zone Byte3 zone index, Byte4 name length, Byte5..n name; repeated."""
    exp = []
    for z, nm in zip(zs, names):
        b = h.utf8(nm)
        exp.extend([z, len(b)] + b)
    return exp


@oset("at5.xFF13.roundtrip.request", ["C03"], ZN_FNS)
def xff13_roundtrip_request(h):
    which = h.choice("request", ["ALL", "one"])
    msg = h.new(XZN + ":ZoneNamesRequest", zone_number="ALL" if which == "ALL" else h.int("zone_number", 0, 255))
    roundtrip_plain(h, XZN + ":ZoneNamesEncoder", XZN + ":ZoneNamesDecoder", msg, at5_ext_subheader, ID_ZONE_NAMES)


def _zone_names_roundtrip(h, name_bytes):
    msg, zs, names = gen_zone_names(h, name_bytes)
    exp = zone_names_wire(h, zs, names)
    # (1) encode / decode against the vendor layout, independent of size(): the header handed to decode
    #     announces the length the layout has (2 + name length per zone)
    enc = h.new(XZN + ":ZoneNamesEncoder")
    e = h.method(enc, "encode", at5_ext_subheader(h, ID_ZONE_NAMES, len(exp)), msg)
    h.oblige("encode() does not raise on a valid message", e.ok)
    if not e.ok:
        return
    items = h.items(e.value)
    h.oblige("wire: per zone Byte3 zone index, Byte4 name length, Byte5.. the UTF-8 name",
             And(*[a == b for a, b in zip(items, exp)]) if len(items) == len(exp) else False)
    if name_bytes:
        d = h.method(h.new(XZN + ":ZoneNamesDecoder"), "decode", e.value, at5_ext_subheader(h, ID_ZONE_NAMES, len(exp)))
        h.oblige("decode(encode(m)) with the true payload length accepts", d.ok)
        if d.ok:
            h.oblige("decode(encode(m)) with the true payload length returns m, nothing left over",
                     And(h.eq(h.attr(d.value, "message"), msg), h.length(h.attr(d.value, "remaining")) == 0))
    # (2) the C03 round trip with the length size() announces.  An empty names message is, on the wire, the
    #     request for all zones (no data): same message id
    roundtrip_plain(h, XZN + ":ZoneNamesEncoder", XZN + ":ZoneNamesDecoder", msg, at5_ext_subheader, ID_ZONE_NAMES,
                    expect=h.new(XZN + ":ZoneNamesRequest", zone_number="ALL") if not name_bytes else None)


@oset("at5.xFF13.roundtrip.one-zone", ["C03"], ZN_FNS,
      bounded=f"name length <= {ZONE_NAME_MAX} bytes (every length 0..{ZONE_NAME_MAX}, every byte value incl. multi-byte UTF-8)")
def xff13_roundtrip_one(h):
    _zone_names_roundtrip(h, [h.choice("name_bytes", list(range(0, ZONE_NAME_MAX + 1)))])


@oset("at5.xFF13.roundtrip.one-zone-any-length", ["C03", "C04"], ZN_FNS,
      assumptions=["str modelled by its UTF-8 bytes (a symbolic-length buffer); bytes.decode raises exactly on invalid UTF-8"])
def xff13_roundtrip_one_any(h):
    """One zone whose name has *any* length (unbounded): 0..255 bytes round-trip exactly in the vendor layout,
    a longer name cannot be announced by the length byte and is refused (ValueError), never truncated."""
    name = h.string_any("zone_name")
    nb = h.length(h.utf8_view(name))
    z = h.int("zone_number", 0, 255)
    msg = h.new(XZN + ":ZoneNamesMessage", zone_names={z: name})
    enc, dec = h.new(XZN + ":ZoneNamesEncoder"), h.new(XZN + ":ZoneNamesDecoder")
    s = h.method(enc, "size", msg)
    h.oblige("size() does not raise", s.ok)
    if not s.ok:
        return
    h.oblige("announced size = zone index + length byte + name bytes", h.eq(s.value, 2 + nb))
    hdr = at5_ext_subheader(h, ID_ZONE_NAMES, s.value)
    e = h.method(enc, "encode", hdr, msg)
    if h.branch(nb > 255):
        h.oblige("a name longer than the length byte can announce is refused (ValueError), never truncated or wrapped", e.raised("ValueError"))
        return
    h.oblige("encode() does not raise for a name of 0..255 bytes", e.ok)
    if not e.ok:
        return
    out = h.frozen(e.value)
    h.oblige("announced size == number of payload bytes produced", h.eq(h.length(out), s.value))
    head, tail = h.split_at(out, 2)
    h.oblige("wire: zone index, name length, then exactly the UTF-8 bytes of the name",
             And(head[0] == z, head[1] == nb, h.eq(tail, h.utf8_view(name))))
    d = h.method(dec, "decode", out, hdr)
    h.oblige("decode() accepts the encoder's output", d.ok)
    if not d.ok:
        return
    h.oblige("decoded message equals the original", h.eq(h.attr(d.value, "message"), msg))
    h.oblige("nothing left over", h.eq(h.length(h.attr(d.value, "remaining")), 0))
    h.cover("roundtrip completes")


_ZONE_COUNT_NAME_BYTES = [6, 7, 7, 0, 12, 1, 3, 9, 2, 5, 11, 4, 8, 10, 6, 1]


@oset("at5.xFF13.roundtrip.counts-0-16", ["C03"], ZN_FNS,
      bounded=f"name length <= {ZONE_NAME_MAX} bytes; in this set the name length of zone i is fixed ({_ZONE_COUNT_NAME_BYTES})")
def xff13_roundtrip_counts(h):
    """All zone counts 0..16, pairwise distinct symbolic zone numbers, fully symbolic names."""
    n = h.choice("count", list(range(0, 17)))
    _zone_names_roundtrip(h, _ZONE_COUNT_NAME_BYTES[:n])


def _install_zone_names_loop(h, buf, mlen):
    """Loop contract for the record loop of ZoneNamesDecoder.decode (`while offset < message_length`), for any
    number of records of any lengths.  Spec (vendor page 14): the records tile the payload - record k starts at
    pos(k), pos(0) = 0, pos(k+1) = pos(k) + 2 + payload[pos(k) + 1]; n = the first k with pos(k) >= length.
    `pos` is an uninterpreted function; the facts used are its definition at the indices touched.  At an
    arbitrary iteration k (cursor pos(k), mapping = the first k stores) the real body must perform exactly one
    store - zone payload[pos(k)] -> text of the payload[pos(k)+1] bytes that follow - and move the cursor to
    pos(k+1), or reject."""
    import z3
    from pyvc.loops import StateLoop, SpecDict
    from pyvc.pybuiltins import SStrA
    from pyvc.values import ABytes, BytesVal
    from pyvc import sym as S
    pos_f = z3.Function(S.fresh_name("pos"), z3.IntSort(), z3.IntSort())
    n = S.SInt(z3.Int(S.fresh_name("n_records")))
    pos = lambda k: S.SInt(pos_f(S.int_t(k)))  # noqa: E731
    P = h.it.path

    def n_of(it, iterable, entry, env):
        return n

    def define(it, k, entry):
        if k == "init":
            P.assume(And(n >= 0, pos(0) == 0), "spec: pos(0) = 0")
        elif k is None:
            # loop invariant at exit: 0 <= pos(n) <= length (established by init and by the preservation obligation
            # "a record that would end beyond the announced length is rejected"), and n is the first index not inside
            P.assume(And(pos(n) >= mlen, pos(n) <= mlen), "spec: n is the first record index whose start is not inside the payload; invariant pos(k) <= length")
        else:
            P.assume(And(pos(k) >= 0, pos(k) < mlen), "spec: records before n start inside the payload (n is the first that does not)")

    def at(it, k, entry):
        if not (entry["offset"] == 0 and entry["zone_names"] == {}):
            raise Exception("loop entry state does not match the contract pattern")
        return {"offset": pos(k), "zone_names": SpecDict("xFF13", k)}

    def check(it, k, entry, after):
        d, off = after["zone_names"], after["offset"]
        ok = isinstance(d, SpecDict) and len(d.stores) == 1
        h.oblige("xFF13-loop/exactly one store per record", ok, kind="loop-preserve")
        ln = buf.at(pos(k) + 1)
        h.oblige("xFF13-loop/the cursor moves to the next record: pos(k+1) = pos(k) + 2 + name length byte",
                 S.eq(off, pos(k) + 2 + ln), kind="loop-preserve")
        h.oblige("xFF13-loop/a record that would end beyond the announced length is rejected, not read", off <= mlen, kind="loop-preserve")
        if not ok:
            return
        key, val = d.stores[0]
        h.oblige("record k: zone index = first byte of the record", S.eq(key, buf.at(pos(k))))
        if isinstance(val, SStrA) and isinstance(val.view, ABytes):
            v = val.view
            h.oblige("record k: name = exactly the announced number of bytes that follow the length byte (UTF-8)",
                     And(v.same_base(buf), S.eq(v.off, buf.off + pos(k) + 2), S.eq(v.ln, ln)))
        else:
            data = val.data if hasattr(val, "data") else BytesVal.of(val.encode("utf-8")) if isinstance(val, str) else None
            h.oblige("record k: name = exactly the announced number of bytes that follow the length byte (UTF-8)",
                     data is not None and And(S.eq(ln, len(data.items)), *[S.eq(x, buf.at(pos(k) + 2 + i)) for i, x in enumerate(data.items)]))

    h.it.loop_hooks[(XZN + ":ZoneNamesDecoder.decode", 0)] = StateLoop("xFF13-loop", ["offset", "zone_names"], n_of, at, check, define=define)
    return n, pos


@oset("at5.xFF13.decode-any-length", ["C05", "C17"], ZN_FNS[2:],
      assumptions=["len(payload) == sub-header.message_length (what the receive path hands to a sub-decoder)",
                   "the vendor document is silent about a zone index that occurs twice: the last name wins (accepted)",
                   "spec function pos(k) (start of record k) is uninterpreted; its recursive definition is used at the indices touched"])
def xff13_decode_any(h):
    """Unbounded companion of decode-vendor-reading: any payload length, any number of records, any name lengths."""
    if not h.symbolic:
        return
    buf, mlen = _payload(h, min_len=2)
    n, pos = _install_zone_names_loop(h, buf, mlen)
    r = h.method(h.new(XZN + ":ZoneNamesDecoder"), "decode", buf, at5_ext_subheader(h, ID_ZONE_NAMES, mlen))
    h.oblige("returns or rejects", only_rejects(h, r))
    if not r.ok:
        h.oblige("rejects only with IndexError (record cut after the zone index), DecodeError (records do not tile the payload) "
                 "or UnicodeDecodeError (name is not UTF-8)", r.raised("IndexError", "DecodeError", "UnicodeDecodeError"))
        return
    from pyvc.loops import SpecDict
    m = h.attr(r.value, "message")
    names = h.attr(m, "zone_names") if h.isinstance(m, XZN + ":ZoneNamesMessage") else None
    h.oblige("two or more bytes of data decode to a names message", names is not None)
    h.oblige("the decoded mapping is exactly the stores of the n records that tile the payload, nothing else",
             isinstance(names, SpecDict) and len(names.stores) == 0 and h.eq(names.n, n) is not False and bool(h.it.path.branch(h.eq(names.n, n)) if isinstance(names, SpecDict) else False))
    h.oblige("accepted only if the records end exactly at the announced length", h.eq(pos(n), mlen))
    h.oblige("nothing left over", h.eq(h.length(h.attr(r.value, "remaining")), 0))
    h.cover("names decoded")


ZN_PAYLOAD_MAX = 8


@oset("at5.xFF13.decode-vendor-reading", ["C05", "C17"], ZN_FNS[2:],
      bounded=f"payload length <= {ZN_PAYLOAD_MAX} bytes (every length, all byte values, every way the records tile it)",
      assumptions=["len(payload) == sub-header.message_length (what the receive path hands to a sub-decoder)",
                   "the vendor document is silent about a zone index that occurs twice: the last name wins (accepted)"])
def xff13_decode(h):
    L = h.choice("payload_length", list(range(0, ZN_PAYLOAD_MAX + 1)))
    buf = h.bytes("payload", L)
    items = h.items(buf)
    dec = h.new(XZN + ":ZoneNamesDecoder")
    r = h.method(dec, "decode", buf, at5_ext_subheader(h, ID_ZONE_NAMES, L))
    h.oblige("returns or rejects", only_rejects(h, r))
    # vendor reading of the payload: records (zone index, name length n, n name bytes) back to back
    recs = []
    off = 0
    tiled = True
    while off < L:
        if off + 1 >= L:
            tiled = False
            break
        n = _concrete(h, items[off + 1], 0, L - off - 2)
        if n is None:
            tiled = False
            break
        recs.append((items[off], items[off + 2:off + 2 + n]))
        off += 2 + n
    if not r.ok:
        h.oblige("a payload whose records tile it exactly is rejected only for invalid UTF-8",
                 Or(not tiled, r.raised("UnicodeDecodeError")))
        return
    m = h.attr(r.value, "message")
    if h.isinstance(m, XZN + ":ZoneNamesRequest"):
        z = h.attr(m, "zone_number")
        if isinstance(z, str):
            h.oblige("request for all zones <=> no data", And(L == 0, z == "ALL"))
        else:
            h.oblige("request for one zone <=> the data is one byte, the zone index", And(L == 1, z == items[0]) if L == 1 else False)
        h.oblige("request: nothing left over", h.length(h.attr(r.value, "remaining")) == 0)
        return
    h.oblige("a names message is accepted only if its records tile the payload exactly", tiled)
    if not tiled:
        return
    got = [(k, h.utf8(v)) for k, v in h.attr(m, "zone_names").items()]
    for i, (z, name) in enumerate(recs):
        later = Or(*[zj == z for zj, _ in recs[i + 1:]])
        here = Or(*[And(k == z, And(*[a == b for a, b in zip(v, name)])) for k, v in got if len(v) == len(name)])
        h.oblige("every record's name is the decoded name of its zone index (unless the index occurs again later)", Or(later, here))
    for k, _ in got:
        h.oblige("every decoded zone index is the zone index of a record", Or(*[k == z for z, _ in recs]))
    for i in range(len(got)):
        for j in range(i):
            h.oblige("decoded zone indices are pairwise distinct", got[i][0] != got[j][0])
    h.oblige("nothing left over", h.length(h.attr(r.value, "remaining")) == 0)
    h.cover("xFF13 decode returns a message")


# ================================ 0xFF49 quick timer (undocumented) ==============================
# Repo-derived oracle (the vendor document does not list 0xFF49): x1FFF49_quick_timer.py says the payload is
# four bytes "!BBBB" = AC number, timer type (TimerType.OFF_TIMER = 0, ON_TIMER = 1), hours, minutes; "the
# message supports a quick timer setting of up to 255 hours [...] however the resulting timer will be modulo
# 24 hours. To provide intuitive behaviour [...] we replicate the modulo 24 behaviour here"; duration
# "resolution is to the nearest minute".  tests/at5/comms/test_x1FFF49_quick_timer.py: AC 1, off timer,
# 2 h 3 min -> 01 00 02 03; on timer -> 01 01 02 03; AC 9 -> 09 01 02 03; 248 h 59 min -> 01 01 08 3b.
TIMER_TYPE_CODE = {"OFF_TIMER": 0, "ON_TIMER": 1}
QT_FNS = [XQT + ":QuickTimerEncoder.size", XQT + ":QuickTimerEncoder.encode", XQT + ":QuickTimerDecoder.decode"]
QT_ASSUME = ["oracle is repo-derived: 0xFF49 is not in the vendor document (module docstring/comments and test vectors)",
             "datetime.timedelta is modelled as an integer number of microseconds, float seconds as exact reals"]


@oset("at5.xFF49.roundtrip", ["C03"], QT_FNS, assumptions=QT_ASSUME)
def xff49_roundtrip(h):
    """Domain: what the wire can carry and the console keeps - whole minutes, less than 24 h."""
    msg = h.new(XQT + ":QuickTimerMessage", ac_number=h.int("ac_number", 0, 255),
                timer_type=h.enum("timer_type", XQT + ":TimerType"),
                duration=h.new("datetime:timedelta", hours=h.int("hours", 0, 23), minutes=h.int("minutes", 0, 59)))
    roundtrip_plain(h, XQT + ":QuickTimerEncoder", XQT + ":QuickTimerDecoder", msg, at5_ext_subheader, ID_QUICK_TIMER)


@oset("at5.xFF49.encode-meaning", ["C04"], QT_FNS[:2], assumptions=QT_ASSUME)
def xff49_encode(h):
    """Every non-negative duration up to 10000 h, with seconds: the four bytes say AC, on/off, h mod 24, min."""
    H = h.int("hours", 0, 10000)
    M = h.int("minutes", 0, 59)
    S = h.int("seconds", 0, 59)
    msg = h.new(XQT + ":QuickTimerMessage", ac_number=h.int("ac_number", 0, 255),
                timer_type=h.enum("timer_type", XQT + ":TimerType"),
                duration=h.new("datetime:timedelta", hours=H, minutes=M, seconds=S))
    enc = h.new(XQT + ":QuickTimerEncoder")
    s = h.method(enc, "size", msg)
    h.oblige("size() is 4", And(s.ok, h.eq(s.value, 4) if s.ok else False))
    r = h.method(enc, "encode", at5_ext_subheader(h, ID_QUICK_TIMER, 4), msg)
    h.oblige("encode does not raise", r.ok)
    if not r.ok:
        return
    b = h.items(r.value)
    h.oblige("4 bytes data", len(b) == 4)
    if len(b) != 4:
        return
    h.oblige("byte1 = AC number", b[0] == h.attr(msg, "ac_number"))
    h.oblige("byte2 = timer type (0 off timer, 1 on timer)",
             b[1] == h.enum_code(h.attr(msg, "timer_type"), XQT + ":TimerType", TIMER_TYPE_CODE))
    h.oblige("byte3 = whole hours of the duration modulo 24", b[2] == H % 24)
    # "resolution is to the nearest minute" names no rounding rule: truncation and rounding to nearest are accepted
    h.oblige("byte4 = minutes of the duration (seconds truncated or rounded to the nearest minute)",
             Or(b[3] == M, And(S >= 30, M < 59, b[3] == M + 1)))
    h.oblige("whole-minute durations: byte4 = minutes exactly", Implies(S == 0, b[3] == M))
    h.cover("xFF49 encode")


@oset("at5.xFF49.decode-reading", ["C05", "C17"], QT_FNS[2:], assumptions=QT_ASSUME)
def xff49_decode(h):
    L = h.choice("payload_length", [0, 1, 2, 3, 4, 5])
    buf = h.bytes("payload", L)
    dec = h.new(XQT + ":QuickTimerDecoder")
    r = h.method(dec, "decode", buf, at5_ext_subheader(h, ID_QUICK_TIMER, L))
    h.oblige("returns or rejects", only_rejects(h, r))
    b = h.items(buf)
    if not r.ok:
        h.oblige("rejected only if shorter than 4 bytes or the timer type is neither 0 nor 1", Or(L < 4, b[1] > 1) if L >= 2 else True)
        return
    h.oblige("accepted => 4 bytes present", L >= 4)
    if L < 4:
        return
    m = h.attr(r.value, "message")
    h.oblige("AC number = byte1", h.attr(m, "ac_number") == b[0])
    h.oblige("timer type = byte2 (0 off timer, 1 on timer)",
             h.enum_code(h.attr(m, "timer_type"), XQT + ":TimerType", TIMER_TYPE_CODE) == b[1])
    h.oblige("duration = byte3 hours + byte4 minutes",
             h.eq(h.attr(m, "duration"), h.new("datetime:timedelta", hours=b[2], minutes=b[3])))
    h.oblige("remaining = what follows the 4 bytes", h.length(h.attr(r.value, "remaining")) == L - 4)


# ================================ 0x1F extended message wrapper ==================================
# Vendor (page 12): "The first two bytes of the data are used to specify the specific command" (0xFF 0x11 ...).
# Verified parametrically in the sub-codec: the sub-encoder / sub-decoder registered for a sub-message id is a
# stub whose behaviour is only given by the contract that the at5.xFFnn.roundtrip sets establish for every
# real sub-codec (size() = s, encode(sub_header(id, s), m) = exactly s bytes, decode(those bytes,
# sub_header(id, s)) = (m, nothing left)).  Wrapper obligations + that contract give C03 for the nested
# message: outer size = 2 + s = bytes produced, and decode(encode(m)) = m.

WRAP_FNS = [X1F + ":ExtendedMessageEncoder.size", X1F + ":ExtendedMessageEncoder.encode",
            X1F + ":ExtendedMessageEncoder._sub_message_encoder", X1F + ":ExtendedMessageDecoder.decode",
            X1F + ":ExtendedMessageDecoder._sub_message_decoder", X1F + ":UnsupportedExtendedDecoder.decode"]


class _Stub:
    """An object with the given methods, callable from the interpreted code (symbolic reading) and from
    CPython (native reading)."""

    def __init__(self, **methods):
        self._methods = methods
        self.__dict__.update(methods)

    def py_getattr(self, it, name):
        from pyvc.values import Builtin
        if name in self._methods:
            return Builtin("stub." + name, self._methods[name])
        raise _unmodelled(self, name)


def _first_bytes(h, out, n):
    """The first n bytes of an encoder result that may be a concatenation with a symbolic-length part."""
    if h.symbolic:
        from pyvc.pybuiltins import Rope
        from pyvc.values import BytesVal
        head = out.parts[0] if isinstance(out, Rope) else out
        if not isinstance(head, BytesVal) or len(head.items) < n:
            return None
        return head.items[:n]
    return list(out[:n])


def _tail_is(h, out, n, tail):
    """`out` is n bytes followed by exactly the buffer `tail`."""
    if h.symbolic:
        from pyvc.pybuiltins import Rope
        from pyvc.values import BytesVal
        if isinstance(out, Rope):
            return len(out.parts) == 2 and isinstance(out.parts[0], BytesVal) and len(out.parts[0].items) == n and out.parts[1] is tail
        if isinstance(out, BytesVal):  # the sub-payload was empty / concrete
            return h.eq(BytesVal(out.items[n:]), tail) if len(out.items) >= n else False
        return False
    return bytes(out[n:]) == bytes(tail)


def _sub_message(h, sub_id):
    """Any message object whose message_id is sub_id (UnsupportedMessage.message_id returns its unsupported_id)."""
    return h.new(COMMS + ":UnsupportedMessage", unsupported_id=sub_id, raw_data=h.mkbytes([]))


@oset("at5.x1F.encode-registered", ["C03"], WRAP_FNS[:3],
      assumptions=["sub-encoder contract: size(m) = s >= 0, encode(sub_header, m) = exactly s bytes (established per sub-codec "
                   "by the at5.xFFnn.roundtrip sets)"])
def x1f_encode_registered(h):
    sid = h.int("sub_message_id", 0, 0xFFFF)
    s = h.int("sub_size", 0, 0xFFFF - 2)
    sub = _sub_message(h, sid)
    payload = h.abytes("sub_payload", ln=s)
    if not h.symbolic:
        h.assume(len(payload) == s, "stub contract: encode returns exactly size() bytes")
    calls = []

    def size(m):
        calls.append(("size", m))
        return s

    def encode(hdr, m):
        calls.append(("encode", hdr, m))
        return payload

    enc = h.new(X1F + ":ExtendedMessageEncoder", {sid: _Stub(size=size, encode=encode)})
    msg = h.new(X1F + ":ExtendedMessage", sub_message=sub)
    rs = h.method(enc, "size", msg)
    h.oblige("size() does not raise for a registered sub-message", rs.ok)
    if not rs.ok:
        return
    h.oblige("announced size = 2 (sub-message id) + size of the sub-message", h.eq(rs.value, 2 + s))
    del calls[:]
    r = h.method(enc, "encode", at5_header(h, 0x1F, rs.value, to=0x90), msg)
    h.oblige("encode() does not raise for a registered sub-message", r.ok)
    if not r.ok:
        return
    out = r.value
    h.oblige("announced size == number of payload bytes produced", h.eq(h.length(out), rs.value))
    head = _first_bytes(h, out, 2)
    h.oblige("the first two bytes are the sub-message id, high byte first",
             And(head[0] == sid // 256, head[1] == sid % 256) if head is not None else False)
    h.oblige("the rest is exactly what the sub-encoder produced", _tail_is(h, out, 2, payload))
    encs = [c for c in calls if c[0] == "encode"]
    h.oblige("the sub-encoder is asked to encode exactly once, the sub-message itself",
             len(encs) == 1 and encs[0][2] is sub)
    if len(encs) == 1:
        sh = encs[0][1]
        h.oblige("its sub-header carries the sub-message id and the announced sub-message length",
                 And(h.attr(sh, "message_id") == sid, h.attr(sh, "message_length") == s))
    h.oblige("every size() question is about the sub-message itself", all(c[1] is sub for c in calls if c[0] == "size"))
    h.cover("x1F encode")


@oset("at5.x1F.encode-unregistered", ["C03", "C17"], WRAP_FNS[:3])
def x1f_encode_unregistered(h):
    """A sub-message without a registered encoder: NotImplementedError from size() and encode() (the send
    path reports it as an encoding error; nothing is written)."""
    sid = h.int("sub_message_id", 0, 0xFFFF)
    rid = h.int("registered_id", 0, 0xFFFF)
    h.assume(sid != rid, "the message's id is not the registered one")
    empty = h.choice("encoder_map", ["empty", "other id registered"]) == "empty"

    def unreachable(*a):
        h.fail("the encoder registered for another id is never called")
        return 0

    enc = h.new(X1F + ":ExtendedMessageEncoder", {} if empty else {rid: _Stub(size=unreachable, encode=unreachable)})
    msg = h.new(X1F + ":ExtendedMessage", sub_message=_sub_message(h, sid))
    h.oblige("size() raises NotImplementedError", h.method(enc, "size", msg).raised("NotImplementedError"))
    h.oblige("encode() raises NotImplementedError",
             h.method(enc, "encode", at5_header(h, 0x1F, 2, to=0x90), msg).raised("NotImplementedError"))


@oset("at5.x1F.decode", ["C03", "C05", "C17"], WRAP_FNS[3:],
      assumptions=["len(payload) == header.message_length (the receive path reads exactly message_length payload bytes)",
                   "sub-decoder contract: returns MessageDecodeResult(message, remaining) (established per sub-codec by the "
                   "at5.xFFnn sets)"])
def x1f_decode(h):
    """Arbitrary payload of arbitrary length; one id registered (symbolic), so both the registered and the
    unregistered case are covered for every wire id."""
    buf, mlen = _payload(h, max_len=0xFFFF)
    rid = h.int("registered_id", 0, 0xFFFF)
    sub = _sub_message(h, h.int("decoded_sub_id", 0, 0xFFFF))
    left = h.bytes("sub_remaining", h.choice("sub_remaining_length", [0, 1]))
    calls = []

    def decode(b, sh):
        calls.append((b, sh))
        return h.new(COMMS + ":MessageDecodeResult", message=sub, remaining=left)

    dec = h.new(X1F + ":ExtendedMessageDecoder", {rid: _Stub(decode=decode)})
    r = h.method(dec, "decode", buf, at5_header(h, 0x1F, mlen, to=0xB0, frm=0x90))
    h.oblige("returns or rejects", only_rejects(h, r))
    if not r.ok:
        h.oblige("rejected only when the two id bytes are missing", mlen < 2)
        return
    h.oblige("accepted => the two id bytes are present", mlen >= 2)
    wire_id = _byte_at(h, buf, 0) * 256 + _byte_at(h, buf, 1)
    m = h.attr(r.value, "message")
    h.oblige("result is an ExtendedMessage", h.isinstance(m, X1F + ":ExtendedMessage"))
    inner = h.attr(m, "sub_message")
    if calls:
        h.oblige("the registered sub-decoder is used only for its own id, once", And(wire_id == rid, len(calls) == 1))
        b, sh = calls[0]
        h.oblige("it is handed the payload after the two id bytes", _is_view(h, b, buf, 2, mlen - 2))
        h.oblige("its sub-header: message_id = wire id, message_length = header.message_length - 2",
                 And(h.attr(sh, "message_id") == wire_id, h.attr(sh, "message_length") == mlen - 2))
        h.oblige("the sub-decoder's message is wrapped unchanged", inner is sub)
        h.oblige("the sub-decoder's remaining bytes are passed on unchanged", h.attr(r.value, "remaining") is left)
        h.cover("x1F decode registered")
    else:
        h.oblige("an id without a registered decoder (and only such an id) goes to the unsupported decoder", wire_id != rid)
        ok = h.isinstance(inner, COMMS + ":UnsupportedMessage")
        h.oblige("unknown sub-type => UnsupportedMessage", ok)
        if ok:
            h.oblige("unsupported_id = the wire id", h.attr(inner, "unsupported_id") == wire_id)
            h.oblige("raw_data = the payload after the id bytes, unchanged", _is_view(h, h.attr(inner, "raw_data"), buf, 2, mlen - 2))
            h.oblige("nothing left over", h.length(h.attr(r.value, "remaining")) == 0)
        h.cover("x1F decode unsupported")


@oset("at5.x1F.unsupported-decoder", ["C17"], WRAP_FNS[5:])
def x1f_unsupported(h):
    """UnsupportedExtendedDecoder on its own: any buffer at least as long as the announced length."""
    buf = h.abytes("payload")
    mlen = h.int("message_length", 0, 0xFFFF)
    h.assume(h.length(buf) >= mlen, "the buffer holds at least the announced sub-message")
    sid = h.int("sub_message_id", 0, 0xFFFF)
    dec = h.new(X1F + ":UnsupportedExtendedDecoder")
    r = h.method(dec, "decode", buf, at5_ext_subheader(h, sid, mlen))
    h.oblige("never raises", r.ok)
    if not r.ok:
        return
    m = h.attr(r.value, "message")
    ok = h.isinstance(m, COMMS + ":UnsupportedMessage")
    h.oblige("result is an UnsupportedMessage", ok)
    if not ok:
        return
    h.oblige("unsupported_id = header.message_id (also its message_id)",
             And(h.attr(m, "unsupported_id") == sid, h.prop(m, "message_id").value == sid))
    h.oblige("raw_data = the first message_length bytes, unchanged", _is_view(h, h.attr(m, "raw_data"), buf, 0, mlen))
    h.oblige("remaining = what follows", _is_view(h, h.attr(r.value, "remaining"), buf, mlen, h.length(buf) - mlen))


# ---- glue: the registry wires each sub-codec under the id its messages carry ----------------------

REGISTRY = AT5 + "registry"
SUB_CODECS = {
    ID_ERR: (XERR, "AcErrorInformationEncoder", "AcErrorInformationDecoder"),
    ID_ABILITY: (XABL, "AcAbilityEncoder", "AcAbilityDecoder"),
    ID_ZONE_NAMES: (XZN, "ZoneNamesEncoder", "ZoneNamesDecoder"),
    ID_VERSION: (XVER, "ConsoleVersionEncoder", "ConsoleVersionDecoder"),
    ID_QUICK_TIMER: (XQT, "QuickTimerEncoder", "QuickTimerDecoder"),
}


def _sample_messages(h):
    """One instance of every message / request class of the five sub-codecs (only message_id is used)."""
    td = h.new("datetime:timedelta", hours=1, minutes=2)
    return {
        ID_ERR: [h.new(XERR + ":AcErrorInformationMessage", ac_number=0, error_info=None),
                 h.new(XERR + ":AcErrorInformationRequest", ac_number=0)],
        ID_ABILITY: [h.new(XABL + ":AcAbilityMessage", ac_abilities=[]), h.new(XABL + ":AcAbilityRequest", ac_number="ALL")],
        ID_ZONE_NAMES: [h.new(XZN + ":ZoneNamesMessage", zone_names={}), h.new(XZN + ":ZoneNamesRequest", zone_number="ALL")],
        ID_VERSION: [h.new(XVER + ":ConsoleVersionMessage", update_available=False, versions=["1.0.3"]),
                     h.new(XVER + ":ConsoleVersionRequest")],
        ID_QUICK_TIMER: [h.new(XQT + ":QuickTimerMessage", ac_number=0, timer_type=h.member(XQT + ":TimerType", "ON_TIMER"), duration=td)],
    }


@oset("at5.x1F.registry-wiring", ["C03", "C17"],
      [COMMS + ":MessageRegistry.register", COMMS + ":MessageRegistry.get_encoder", COMMS + ":MessageRegistry.get_decoder",
       X1F + ":ExtendedMessage.message_id"] + [m + ":" + c + ".message_id" for m, c in (
           (XERR, "AcErrorInformationMessage"), (XERR, "AcErrorInformationRequest"), (XABL, "AcAbilityMessage"),
           (XABL, "AcAbilityRequest"), (XZN, "ZoneNamesMessage"), (XZN, "ZoneNamesRequest"), (XVER, "ConsoleVersionMessage"),
           (XVER, "ConsoleVersionRequest"), (XQT, "QuickTimerMessage"))], kind="frame")
def x1f_registry_wiring(h):
    """The parametric wrapper proof composes with the per-codec sets only if the registry registers every
    sub-codec under exactly the id its messages report (and the vendor document assigns)."""
    emap = h.attr(h.get(REGISTRY + ":_extended_encoder"), "_encoder_map")
    dmap = h.attr(h.get(REGISTRY + ":_extended_decoder"), "_decoder_map")
    h.oblige("encoders are registered for exactly 0xFF10, 0xFF11, 0xFF13, 0xFF30, 0xFF49", sorted(emap.keys()) == sorted(SUB_CODECS))
    h.oblige("decoders are registered for exactly 0xFF10, 0xFF11, 0xFF13, 0xFF30, 0xFF49", sorted(dmap.keys()) == sorted(SUB_CODECS))
    msgs = _sample_messages(h)
    for sid, (mod, enc, dec) in SUB_CODECS.items():
        h.oblige(f"0x{sid:04X}: the registered encoder / decoder are this sub-message's",
                 sid in emap and sid in dmap and h.isinstance(emap[sid], mod + ":" + enc) and h.isinstance(dmap[sid], mod + ":" + dec))
        for m in msgs[sid]:
            p = h.prop(m, "message_id")
            h.oblige(f"0x{sid:04X}: every message / request class reports this id", p.ok and h.eq(p.value, sid) is True)
    reg = h.get(REGISTRY + ":INSTANCE")
    e = h.method(reg, "get_encoder", 0x1F)
    d = h.method(reg, "get_decoder", 0x1F)
    h.oblige("message id 0x1F is served by the extended encoder / decoder",
             e.ok and d.ok and e.value is h.get(REGISTRY + ":_extended_encoder") and d.value is h.get(REGISTRY + ":_extended_decoder"))
    ext = h.new(X1F + ":ExtendedMessage", sub_message=msgs[ID_ERR][0])
    p = h.prop(ext, "message_id")
    h.oblige("an ExtendedMessage reports message id 0x1F", p.ok and h.eq(p.value, 0x1F) is True)


@oset("at5.x1F.roundtrip.quick-timer-nested", ["C03"], WRAP_FNS[:5] + QT_FNS, assumptions=QT_ASSUME)
def x1f_roundtrip_nested(h):
    """The composition, executed once on real parts: a quick timer inside the 0x1F wrapper through the
    registry's encoder / decoder (all field values symbolic)."""
    sub = h.new(XQT + ":QuickTimerMessage", ac_number=h.int("ac_number", 0, 255),
                timer_type=h.enum("timer_type", XQT + ":TimerType"),
                duration=h.new("datetime:timedelta", hours=h.int("hours", 0, 23), minutes=h.int("minutes", 0, 59)))
    msg = h.new(X1F + ":ExtendedMessage", sub_message=sub)
    enc = h.get(REGISTRY + ":_extended_encoder")
    dec = h.get(REGISTRY + ":_extended_decoder")
    s = h.method(enc, "size", msg)
    h.oblige("size() does not raise", s.ok)
    if not s.ok:
        return
    h.oblige("announced size = 2 + 4", h.eq(s.value, 6))
    hdr = at5_header(h, 0x1F, s.value, to=0x90)
    e = h.method(enc, "encode", hdr, msg)
    h.oblige("encode() does not raise", e.ok)
    if not e.ok:
        return
    b = h.items(e.value)
    h.oblige("announced size == number of payload bytes produced", len(b) == 6)
    h.oblige("data starts with 0xFF 0x49", And(b[0] == 0xFF, b[1] == 0x49) if len(b) >= 2 else False)
    d = h.method(dec, "decode", e.value, hdr)
    h.oblige("decode() accepts the encoder's output", d.ok)
    if not d.ok:
        return
    h.oblige("decoded message equals the original", h.eq(h.attr(d.value, "message"), msg))
    h.oblige("nothing left over", h.length(h.attr(d.value, "remaining")) == 0)
    h.cover("nested roundtrip completes")
