"""AirTouch 5 control / status codecs: the 0xC0 wrapper and its sub-messages 0x20 zone control,
0x21 zone status, 0x22 AC control, 0x23 AC status, 0x32 / 0x33 AC timer control / status, the AT5
header codec and the AT5 registry.

Oracle: Polyaire "AirTouch 5 Communication Protocol" v1.2, sections 3 (package format) and 4.a
(text in spec/vendor/airtouch5_protocol_v1.2.txt).  The tables below are transcribed from it;
bits are numbered Bit8 (MSB) .. Bit1 (LSB) there.  Two parts of the code have no vendor text
(outer frame header, AC timer messages); the sets that cover them say so (`assumptions=`).

Properties: C03 (round trip, length agreement), C04 (what a control payload means), C05 (what a
status payload means, announced strides are honoured), C17 (unknown / malformed input is
rejected or carried through unchanged, never misread).
"""
import z3

from pyvc import sym as S
from pyvc.sym import And, Or, Not, Implies, ite
from pyvc.vc import oset
from contracts.codec import AT5, REJECT, at5_header, at5_c0_subheader, roundtrip_c0, only_rejects

C0 = AT5 + "xC0_ctrl_status"
X20 = AT5 + "xC020_zone_ctrl"
X21 = AT5 + "xC021_zone_status"
X22 = AT5 + "xC022_ac_ctrl"
X23 = AT5 + "xC023_ac_status"
X32 = AT5 + "xC032_ac_timer_ctrl"
X33 = AT5 + "xC033_ac_timer_status"
HDR = AT5 + "hdr"
REG = AT5 + "registry"
COMMS = "pyairtouch.comms"

# ---- vendor tables ----------------------------------------------------------------------------
# 4.a.i Zone control (0x20), repeat data 4 bytes
#   Byte1 bit8-7 keep 0, bit6-1 zone index 0-15
#   Byte2 bit8-6 zone setting value: 010 decrease, 011 increase, 100 set open percentage,
#               101 set target setpoint, other: keep setting value
#         bit5-4 control type: 01 change, 10 percentage, 11 temperature, 00 keep
#         bit3-1 power: 001 change on/off, 010 off, 011 on, 101 turbo, other: keep
#   Byte3 value: percentage 0-100 / temperature 0-250 setpoint=(value+100)/10 / other: keep
#         (the example "turn off the second zone" 0x01 0x02 0xFF 0x00 uses 0xFF for keep)
#   Byte4 keep 0
ZONE_POWER_CODE = {"TOGGLE": 1, "TURN_OFF": 2, "TURN_ON": 3, "TURBO": 5, "UNCHANGED": 0}
ZONE_SETTING_KEEP, ZONE_SETTING_DEC, ZONE_SETTING_INC, ZONE_SETTING_PCT, ZONE_SETTING_SP = 0, 2, 3, 4, 5
ZONE_INCDEC_CODE = {"DECREASE": 2, "INCREASE": 3}
ZONE_VALUE_KEEP = 0xFF
# 4.a.iii AC control (0x22), repeat data 4 bytes
#   Byte1 bit8-5 power: 0001 change on/off, 0010 off, 0011 on, 0100 away, 0101 sleep, other keep
#         (examples 0x00 0x4F 0x00 0xFF / 0x01 0xFF 0x40 0xA0 use 0000 for keep); bit4-1 AC index 0-15
#   Byte2 bit8-5 mode: 0 auto 1 heat 2 dry 3 fan 4 cool, other keep (examples use 1111)
#         bit4-1 fan: 0 auto 1 quiet 2 low 3 medium 4 high 5 powerful 6 turbo 8 intelligent auto,
#         other keep (examples use 1111)
#   Byte3 setpoint control: 0x40 change, 0x00 keep, other: invalidate data
#   Byte4 setpoint value, available when byte3 is 0x40: (setpoint*10)-100; examples use 0xFF with keep
AC_POWER_CODE = {"TOGGLE": 1, "TURN_OFF": 2, "TURN_ON": 3, "SET_TO_AWAY": 4, "SET_TO_SLEEP": 5, "UNCHANGED": 0}
AC_MODE_CODE = {"AUTO": 0, "HEAT": 1, "DRY": 2, "FAN": 3, "COOL": 4, "UNCHANGED": 15}
AC_FAN_CODE = {"AUTO": 0, "QUIET": 1, "LOW": 2, "MEDIUM": 3, "HIGH": 4, "POWERFUL": 5, "TURBO": 6,
               "INTELLIGENT_AUTO": 8, "UNCHANGED": 15}
AC_SP_CHANGE, AC_SP_KEEP, AC_SP_VALUE_KEEP = 0x40, 0x00, 0xFF
# 4.a.ii Zone status (0x21), repeat data 8 bytes (stride announced in sub-header byte5-6)
#   Byte1 bit8-7 power state 00 off 01 on 11 turbo; bit6-1 zone index
#   Byte2 bit8 control method 1 temperature 0 percentage; bit7-1 open percentage
#   Byte3 setpoint=(value+100)/10, 0xFF invalid
#   Byte4 bit8 sensor; Byte5 bit3-1 + Byte6: temperature VALUE 0-2000: (VALUE-500)/10, other: not available
#   Byte7 bit2 spill, bit1 low battery
ZONE_STATE_CODE = {"OFF": 0, "ON": 1, "TURBO": 3}
ZONE_METHOD_CODE = {"DAMPER": 0, "TEMPERATURE": 1}
BATTERY_CODE = {"NORMAL": 0, "LOW": 1}
# 4.a.iv AC status (0x23), repeat data 8 or 10 bytes (stride announced in sub-header byte5-6)
#   Byte1 bit8-5 power state 0 off 1 on 2 away(off) 3 away(on) 5 sleep, other: not available; bit4-1 AC index
#   Byte2 bit8-5 mode 0..4, 8 auto heat, 9 auto cool, other n/a; bit4-1 fan 0..6, 9-14 intelligent auto, other n/a
#   Byte3 setpoint 0-250: (VALUE+100)/10, other: not available
#   Byte4 bit4 turbo, bit3 bypass, bit2 spill, bit1 timer
#   Byte5 bit3-1 + Byte6 temperature VALUE 0-2000: (VALUE-500)/10, other: not available
#   Byte7-8 error code; Byte9-10 not used (some versions do not have them)
AC_STATE_CODE = {"OFF": 0, "ON": 1, "OFF_AWAY": 2, "ON_AWAY": 3, "SLEEP": 5}
AC_STATUS_MODE_CODE = {"AUTO": 0, "HEAT": 1, "DRY": 2, "FAN": 3, "COOL": 4, "AUTO_HEAT": 8, "AUTO_COOL": 9}
AC_STATUS_FAN_CODE = {"AUTO": 0, "QUIET": 1, "LOW": 2, "MEDIUM": 3, "HIGH": 4, "POWERFUL": 5, "TURBO": 6,
                      "INTELLIGENT_AUTO_QUIET": 9, "INTELLIGENT_AUTO_LOW": 10, "INTELLIGENT_AUTO_MEDIUM": 11,
                      "INTELLIGENT_AUTO_HIGH": 12, "INTELLIGENT_AUTO_POWERFUL": 13, "INTELLIGENT_AUTO_TURBO": 14}

# Set-points on the wire: raw = 10*t - 100, one byte, 0xFF = invalid (zone status) -> t in 10.0 .. 35.4
SP_LO_K, SP_HI_K = 100, 354
# Temperatures on the wire: VALUE = 10*t + 500 in 0..2000 (11 bits) -> t in -50.0 .. 150.0; 0.0 is inside
T_LO_K, T_HI_K = -500, 1500


def set_point(h, name):
    return h.tenths(name, SP_LO_K, SP_HI_K)


# ================================ 0x20 zone control ============================================

def gen_zone_control_data(h, i, kind):
    if kind == "none":
        setting = None
    elif kind == "incdec":
        setting = h.enum(f"z{i}_incdec", X20 + ":ZoneIncreaseDecrease")
    elif kind == "damper":
        setting = h.new(X20 + ":ZoneDamperControl", h.int(f"z{i}_open_percentage", 0, 100))
    else:
        setting = h.new(X20 + ":ZoneSetPointControl", set_point(h, f"z{i}_set_point"))
    rec = h.new(X20 + ":ZoneControlData",
                zone_number=h.int(f"z{i}_number", 0, 15),
                zone_power=h.enum(f"z{i}_power", X20 + ":ZonePowerControl"),
                zone_setting=setting)
    return rec, setting


ZONE_KINDS = ["none", "incdec", "damper", "setpoint"]
_X20_FUNCS = [X20 + ":ZoneControlEncoder.non_repeat_size", X20 + ":ZoneControlEncoder.repeat_count",
              X20 + ":ZoneControlEncoder.repeat_size", X20 + ":ZoneControlEncoder.encode",
              X20 + ":ZoneControlDecoder.decode", AT5 + "utils:encode_set_point", AT5 + "utils:decode_set_point"]


@oset("at5.xC020.roundtrip.one-record", ["C03"], _X20_FUNCS)
def x20_roundtrip_one(h):
    """Every field value of one record, every shape of the zone setting."""
    kind = h.choice("setting_kind", ZONE_KINDS)
    rec, _ = gen_zone_control_data(h, 0, kind)
    roundtrip_c0(h, X20 + ":ZoneControlEncoder", X20 + ":ZoneControlDecoder",
                 h.new(X20 + ":ZoneControlMessage", [rec]), 0x20)


@oset("at5.xC020.roundtrip.counts-0-16", ["C03"], _X20_FUNCS)
def x20_roundtrip_counts(h):
    """Repeat counts 0..16, every record fully symbolic; the setting shape cycles with the index
    (every shape is covered with all values by the one-record set)."""
    n = h.choice("count", list(range(17)))
    recs = [gen_zone_control_data(h, i, ZONE_KINDS[i % 4])[0] for i in range(n)]
    roundtrip_c0(h, X20 + ":ZoneControlEncoder", X20 + ":ZoneControlDecoder",
                 h.new(X20 + ":ZoneControlMessage", recs), 0x20)


def zone_control_wire_meaning(h, rec, kind, setting, items, tag=""):
    b1, b2, b3, b4 = items
    h.oblige(tag + "byte1 = zone index (bit8-7 keep 0)", b1 == h.attr(rec, "zone_number"))
    h.oblige(tag + "byte2 bit3-1 = vendor power code (000 keep)",
             (b2 % 8) == h.enum_code(h.attr(rec, "zone_power"), X20 + ":ZonePowerControl", ZONE_POWER_CODE))
    h.oblige(tag + "byte2 bit5-4 = 00 keep control type", (b2 // 8) % 4 == 0)
    sc = b2 // 32
    if kind == "none":
        h.oblige(tag + "byte2 bit8-6 = 000 keep setting value, byte3 = 0xFF keep", And(sc == ZONE_SETTING_KEEP, b3 == ZONE_VALUE_KEEP))
    elif kind == "incdec":
        h.oblige(tag + "byte2 bit8-6 = 010 decrease / 011 increase",
                 sc == h.enum_code(setting, X20 + ":ZoneIncreaseDecrease", ZONE_INCDEC_CODE))
    elif kind == "damper":
        h.oblige(tag + "byte2 bit8-6 = 100 set open percentage, byte3 = percentage",
                 And(sc == ZONE_SETTING_PCT, b3 == h.attr(setting, "open_percentage")))
    else:
        h.oblige(tag + "byte2 bit8-6 = 101 set target setpoint", sc == ZONE_SETTING_SP)
        h.oblige(tag + "byte3: setpoint = (value + 100) / 10", h.attr(setting, "set_point") == (b3 + 100) / 10)
    h.oblige(tag + "byte4 keep 0", b4 == 0)


@oset("at5.xC020.encode-vendor-meaning", ["C04"], [X20 + ":ZoneControlEncoder.encode", AT5 + "utils:encode_set_point"])
def x20_vendor(h):
    """Two records (to see that records do not bleed into each other), all setting shapes."""
    k0 = h.choice("setting_kind_0", ZONE_KINDS)
    k1 = h.choice("setting_kind_1", ZONE_KINDS)
    r0, s0 = gen_zone_control_data(h, 0, k0)
    r1, s1 = gen_zone_control_data(h, 1, k1)
    msg = h.new(X20 + ":ZoneControlMessage", [r0, r1])
    enc = h.new(X20 + ":ZoneControlEncoder")
    r = h.method(enc, "encode", at5_c0_subheader(h, 0x20, 0, 4, 2), msg)
    h.oblige("encode does not raise", r.ok)
    if not r.ok:
        return
    items = h.items(r.value)
    h.oblige("4 bytes per zone", len(items) == 8)
    if len(items) == 8:
        zone_control_wire_meaning(h, r0, k0, s0, items[0:4], "record 0: ")
        zone_control_wire_meaning(h, r1, k1, s1, items[4:8], "record 1: ")
        h.cover("x20 encode")
    for nm, want in (("non_repeat_size", 0), ("repeat_size", 4), ("repeat_count", 2)):
        q = h.method(enc, nm, msg)
        h.oblige(f"{nm} per the document (no normal data, repeat length 4, count = zones)", And(q.ok, h.eq(q.value, want) if q.ok else False))


def check_zone_control_record(h, rec, b, tag=""):
    """Vendor reading of a 4-byte zone control record."""
    b1, b2, b3, b4 = b
    h.oblige(tag + "zone number = byte1", h.attr(rec, "zone_number") == b1)
    pc = b2 % 8
    h.oblige(tag + "power: defined code -> that action, other -> keep",
             h.enum_code(h.attr(rec, "zone_power"), X20 + ":ZonePowerControl", ZONE_POWER_CODE)
             == ite(Or(pc == 1, pc == 2, pc == 3, pc == 5), pc, 0))
    sc = b2 // 32
    s = h.attr(rec, "zone_setting")
    if h.is_none(s):
        h.oblige(tag + "setting None only for 'other: keep' codes", And(sc != 2, sc != 3, sc != 4, sc != 5))
    elif h.isinstance(s, X20 + ":ZoneDamperControl"):
        h.oblige(tag + "damper <=> 100, value = byte3", And(sc == 4, h.attr(s, "open_percentage") == b3))
    elif h.isinstance(s, X20 + ":ZoneSetPointControl"):
        h.oblige(tag + "setpoint <=> 101, value = (byte3 + 100) / 10", And(sc == 5, h.attr(s, "set_point") == (b3 + 100) / 10))
    else:
        h.oblige(tag + "inc/dec <=> 010/011", sc == h.enum_code(s, X20 + ":ZoneIncreaseDecrease", ZONE_INCDEC_CODE))


# ---- loop contract for "for _ in range(repeat_count): read record at cursor; append; cursor += stride" ----
_POS = z3.Function("at5_cursor_pos", z3.IntSort(), z3.IntSort(), z3.IntSort())


class RecordLoop:
    """Loop contract (pyvc.loops.StateLoop) for the record loops of the AT5 sub-decoders

        for _ in range(header.repeat_count):
            <read one record from the head of `buffer`>; <list>.append(record); buffer = buffer[stride:]

    for *any* number of iterations and - when `stride` is symbolic - *any* stride.  The state at
    the head of iteration k is constructed:  <list> = the k records of the specification (SpecList),
    buffer = the view of the payload that starts at  min(POS(k), len(payload))  where POS(k) is the
    cursor position k * stride.  (Python's slice `buffer[stride:]` of a buffer shorter than the
    stride yields the empty buffer, hence the min.)

    To keep the verification conditions linear, k * stride is not written as a product when the
    stride is symbolic: POS is an uninterpreted function and the two ground instances of its
    recursive definition that the induction step needs, POS(0) = 0 and POS(k+1) = POS(k) + stride,
    are supplied through StateLoop's `define` callback, together with the lemma POS(k) >= 0
    (induction on that definition with stride >= 0).

    Obligations per arbitrary iteration k (the real loop body is executed once on the state at k):
      * exactly one record appended, the cursor is again a view of the same payload
      * the cursor moved to min(POS(k+1), len)
      * the bytes the record was read from lie inside the payload: 0 <= POS(k), POS(k) + rec_size <= len
      * check_record(record, [payload[POS(k) + i] for i < rec_size], k): the vendor reading
    An exception raised by the body at iteration k leaves decode() with that exception (a rejection).
    """

    def __init__(self, h, fn, listvar, rec_size, stride, count, check_record, tag, bufvar="buffer", ordinal=0):
        from pyvc.loops import StateLoop
        self.h, self.listvar, self.bufvar, self.rec_size, self.stride, self.count = h, listvar, bufvar, rec_size, stride, count
        self.check_record, self.tag = check_record, tag
        h.it.loop_hooks[(fn, ordinal)] = StateLoop(f"{tag}-loop", [bufvar, listvar], self._n, self._at, self._check,
                                                   define=self._define)

    def pos(self, k):
        if isinstance(self.stride, int):
            return self.stride * k
        return S.SInt(_POS(S.int_t(self.stride), S.int_t(k)))

    def cursor(self, b0, k):
        from pyvc.values import ABytes
        p = self.pos(k)
        adv = ite(p <= b0.ln, p, b0.ln)
        return ABytes(b0.arr, b0.off + adv, b0.ln - adv, b0.name)

    def _n(self, it, iterable, entry, env):
        return self.count

    def _define(self, it, k, entry):
        if isinstance(self.stride, int):
            return
        if k == "init":
            it.path.assume(self.pos(0) == 0, "definition: cursor position POS(0) = 0")
        elif k is None:
            it.path.assume(self.pos(self.count) >= 0, "lemma: POS(n) >= 0 (induction on POS(k+1) = POS(k) + stride, stride >= 0)")
        else:
            it.path.assume(self.pos(k + 1) == self.pos(k) + self.stride, "definition: cursor position POS(k+1) = POS(k) + stride")
            it.path.assume(self.pos(k) >= 0, "lemma: POS(k) >= 0 (induction on POS(k+1) = POS(k) + stride, stride >= 0)")

    def _at(self, it, k, entry):
        from pyvc.loops import SpecList
        from pyvc.values import ABytes
        b0 = entry[self.bufvar]
        if not isinstance(b0, ABytes) or entry[self.listvar] != []:
            raise Exception("loop entry state does not match the contract pattern")
        return {self.bufvar: self.cursor(b0, k), self.listvar: SpecList(self.tag, k)}

    def _check(self, it, k, entry, after):
        from pyvc.loops import SpecList
        from pyvc.values import ABytes, BytesVal
        h, tag = self.h, self.tag
        b0, nb, lst = entry[self.bufvar], after[self.bufvar], after[self.listvar]
        # the interpreter materialises a slice of known length 0 (stride beyond the end) as b""
        empty = isinstance(nb, BytesVal) and len(nb.items) == 0
        ok_shape = (empty or (isinstance(nb, ABytes) and nb.same_base(b0))) and isinstance(lst, SpecList) and len(lst.appended) == 1
        h.oblige(f"{tag}-loop/exactly one record appended and the cursor is a view of the same buffer", ok_shape, kind="loop-preserve")
        if not ok_shape:
            return
        want = self.cursor(b0, k + 1)
        moved = S.eq(want.ln, 0) if empty else And(S.eq(nb.off, want.off), S.eq(nb.ln, want.ln))
        h.oblige(f"{tag}-loop/cursor advances by the announced stride (clamped to the end of the buffer)",
                 And(moved, S.eq(lst.n, k)), kind="loop-preserve")
        p = self.pos(k)
        h.oblige(f"{tag}-loop/the record is read from inside the buffer", And(p >= 0, p + self.rec_size <= b0.ln), kind="loop-preserve")
        rec_bytes = [S.SInt(z3.Select(b0.arr, S.int_t(b0.off + p + i))) for i in range(self.rec_size)]
        self.check_record(lst.appended[0], rec_bytes, k)
        h.cover(f"{tag}-loop body completes")


def check_decoded_records(h, loop, res, buf, listattr, rec_size, stride, count, check_record, tag):
    """After decode() returned `res`: the list is exactly `count` specification records and
    `remaining` is the payload from min(count * stride, len) on.  Native reading: every record."""
    m = h.attr(res, "message")
    rem = h.attr(res, "remaining")
    if h.symbolic:
        from pyvc.loops import SpecList
        from pyvc.values import ABytes
        g = h.attr(m, listattr)
        ok = isinstance(g, SpecList) and not g.appended
        h.oblige(tag + "decoded list is exactly one specification record per announced repeat", And(ok, S.eq(g.n, count) if ok else False))
        want = loop.cursor(buf, count)
        okr = isinstance(rem, ABytes) and rem.same_base(buf)
        h.oblige(tag + "remaining = payload[min(count * stride, len):]",
                 And(okr, S.eq(rem.off, want.off) if okr else False, S.eq(rem.ln, want.ln) if okr else False))
    else:
        g = h.elems(h.attr(m, listattr))
        h.oblige(tag + "decoded list is exactly one specification record per announced repeat", len(g) == count)
        h.oblige(tag + "remaining = payload[min(count * stride, len):]", bytes(rem) == bytes(buf[count * stride:]))
        for k, rec in enumerate(g):
            h.oblige(f"{tag.rstrip(': ')}-loop/the record is read from inside the buffer", k * stride + rec_size <= len(buf))
            check_record(rec, list(buf[k * stride:k * stride + rec_size]), k)


@oset("at5.xC020.decode-vendor-reading", ["C05", "C17"], [X20 + ":ZoneControlDecoder.decode", AT5 + "utils:decode_set_point"])
def x20_decode(h):
    """Arbitrary payload, unbounded record count (loop contract, stride 4 as documented)."""
    buf = h.abytes("payload")
    rc = h.int("repeat_count", 0, 65535)
    dec = h.new(X20 + ":ZoneControlDecoder")
    chk = lambda rec, b, k: check_zone_control_record(h, rec, b, "record k: ")
    loop = RecordLoop(h, X20 + ":ZoneControlDecoder.decode", "zone_control", 4, 4, rc, chk, "x20") if h.symbolic else None
    r = h.method(dec, "decode", buf, at5_c0_subheader(h, 0x20, 0, 4, rc))
    h.oblige("returns or rejects", only_rejects(h, r))
    if not r.ok:
        return
    h.oblige("result is a ZoneControlMessage", h.isinstance(h.attr(r.value, "message"), X20 + ":ZoneControlMessage"))
    check_decoded_records(h, loop, r.value, buf, "zone_control", 4, 4, rc, chk, "x20: ")
    h.cover("x20 decode returns")


# ================================ 0x22 AC control ===============================================

def gen_ac_control_data(h, i, with_set_point):
    return h.new(X22 + ":AcControlData",
                 ac_number=h.int(f"a{i}_number", 0, 15),     # 4 bits on the wire: "Bit4-1 AC index, valid value 0 - 15"
                 power=h.enum(f"a{i}_power", X22 + ":AcPowerControl"),
                 mode=h.enum(f"a{i}_mode", X22 + ":AcModeControl"),
                 fan_speed=h.enum(f"a{i}_fan", X22 + ":AcFanSpeedControl"),
                 set_point=set_point(h, f"a{i}_set_point") if with_set_point else None)


_X22_FUNCS = [X22 + ":AcControlEncoder.non_repeat_size", X22 + ":AcControlEncoder.repeat_count",
              X22 + ":AcControlEncoder.repeat_size", X22 + ":AcControlEncoder.encode",
              X22 + ":AcControlDecoder.decode", AT5 + "utils:encode_set_point", AT5 + "utils:decode_set_point"]


@oset("at5.xC022.roundtrip.one-record", ["C03"], _X22_FUNCS)
def x22_roundtrip_one(h):
    rec = gen_ac_control_data(h, 0, h.choice("with_set_point", [False, True]))
    roundtrip_c0(h, X22 + ":AcControlEncoder", X22 + ":AcControlDecoder", h.new(X22 + ":AcControlMessage", [rec]), 0x22)


@oset("at5.xC022.roundtrip.counts-0-16", ["C03"], _X22_FUNCS)
def x22_roundtrip_counts(h):
    """Repeat counts 0..16, all records fully symbolic; records with and without a set-point alternate."""
    n = h.choice("count", list(range(17)))
    recs = [gen_ac_control_data(h, i, i % 2 == 0) for i in range(n)]
    roundtrip_c0(h, X22 + ":AcControlEncoder", X22 + ":AcControlDecoder", h.new(X22 + ":AcControlMessage", recs), 0x22)


def ac_control_wire_meaning(h, rec, with_sp, items, tag=""):
    b1, b2, b3, b4 = items
    h.oblige(tag + "byte1 bit4-1 = AC index", (b1 % 16) == h.attr(rec, "ac_number"))
    h.oblige(tag + "byte1 bit8-5 = vendor power code (0000 keep)",
             (b1 // 16) == h.enum_code(h.attr(rec, "power"), X22 + ":AcPowerControl", AC_POWER_CODE))
    h.oblige(tag + "byte2 bit8-5 = vendor mode code (1111 keep)",
             (b2 // 16) == h.enum_code(h.attr(rec, "mode"), X22 + ":AcModeControl", AC_MODE_CODE))
    h.oblige(tag + "byte2 bit4-1 = vendor fan speed code (1111 keep)",
             (b2 % 16) == h.enum_code(h.attr(rec, "fan_speed"), X22 + ":AcFanSpeedControl", AC_FAN_CODE))
    if with_sp:
        h.oblige(tag + "byte3 = 0x40 change setpoint", b3 == AC_SP_CHANGE)
        h.oblige(tag + "byte4 = setpoint * 10 - 100", b4 == h.attr(rec, "set_point") * 10 - 100)
    else:
        h.oblige(tag + "byte3 = 0x00 keep setpoint value", b3 == AC_SP_KEEP)
        h.oblige(tag + "byte4 = 0xFF with keep (vendor examples)", b4 == AC_SP_VALUE_KEEP)


@oset("at5.xC022.encode-vendor-meaning", ["C04"], [X22 + ":AcControlEncoder.encode", AT5 + "utils:encode_set_point"])
def x22_vendor(h):
    w0 = h.choice("with_set_point_0", [False, True])
    w1 = h.choice("with_set_point_1", [False, True])
    r0 = gen_ac_control_data(h, 0, w0)
    r1 = gen_ac_control_data(h, 1, w1)
    msg = h.new(X22 + ":AcControlMessage", [r0, r1])
    enc = h.new(X22 + ":AcControlEncoder")
    r = h.method(enc, "encode", at5_c0_subheader(h, 0x22, 0, 4, 2), msg)
    h.oblige("encode does not raise", r.ok)
    if not r.ok:
        return
    items = h.items(r.value)
    h.oblige("4 bytes per AC", len(items) == 8)
    if len(items) == 8:
        ac_control_wire_meaning(h, r0, w0, items[0:4], "record 0: ")
        ac_control_wire_meaning(h, r1, w1, items[4:8], "record 1: ")
        h.cover("x22 encode")
    for nm, want in (("non_repeat_size", 0), ("repeat_size", 4), ("repeat_count", 2)):
        q = h.method(enc, nm, msg)
        h.oblige(f"{nm} per the document (no normal data, repeat length 4, count = ACs)", And(q.ok, h.eq(q.value, want) if q.ok else False))


def check_ac_control_record(h, rec, b, tag=""):
    b1, b2, b3, b4 = b
    h.oblige(tag + "AC number = byte1 bit4-1", h.attr(rec, "ac_number") == b1 % 16)
    pc, mc, fc = b1 // 16, b2 // 16, b2 % 16
    h.oblige(tag + "power: defined code -> that action, other -> keep",
             h.enum_code(h.attr(rec, "power"), X22 + ":AcPowerControl", AC_POWER_CODE) == ite(And(pc >= 1, pc <= 5), pc, 0))
    h.oblige(tag + "mode: defined code -> that mode, other -> keep",
             h.enum_code(h.attr(rec, "mode"), X22 + ":AcModeControl", AC_MODE_CODE) == ite(mc <= 4, mc, 15))
    h.oblige(tag + "fan: defined code -> that speed, other -> keep",
             h.enum_code(h.attr(rec, "fan_speed"), X22 + ":AcFanSpeedControl", AC_FAN_CODE) == ite(Or(fc <= 6, fc == 8), fc, 15))
    sp = h.attr(rec, "set_point")
    if h.is_none(sp):
        h.oblige(tag + "set-point None <=> byte3 = 0x00 keep", b3 == 0x00)
    else:
        h.oblige(tag + "set-point value <=> byte3 = 0x40, value = (byte4 + 100) / 10", And(b3 == 0x40, sp == (b4 + 100) / 10))


@oset("at5.xC022.decode-vendor-reading", ["C05", "C17"], [X22 + ":AcControlDecoder.decode", AT5 + "utils:decode_set_point"])
def x22_decode(h):
    """Arbitrary payload, unbounded record count.  Byte3 other than 0x40 / 0x00 ("invalidate data") must reject."""
    buf = h.abytes("payload")
    rc = h.int("repeat_count", 0, 65535)
    dec = h.new(X22 + ":AcControlDecoder")
    chk = lambda rec, b, k: check_ac_control_record(h, rec, b, "record k: ")
    loop = RecordLoop(h, X22 + ":AcControlDecoder.decode", "ac_control", 4, 4, rc, chk, "x22") if h.symbolic else None
    r = h.method(dec, "decode", buf, at5_c0_subheader(h, 0x22, 0, 4, rc))
    h.oblige("returns or rejects", only_rejects(h, r))
    if not r.ok:
        return
    h.oblige("result is an AcControlMessage", h.isinstance(h.attr(r.value, "message"), X22 + ":AcControlMessage"))
    check_decoded_records(h, loop, r.value, buf, "ac_control", 4, 4, rc, chk, "x22: ")
    h.cover("x22 decode returns")


# ================================ 0x21 zone status ==============================================

def gen_zone_status_data(h, i, has_sensor, with_temperature, with_set_point, nonzero_temperature=False):
    """A valid zone status record.  A temperature can only be reported by a zone with a sensor
    (the decoder returns None without one; the document's no-sensor example carries the invalid value)."""
    t = None
    if with_temperature:
        t = h.tenths(f"z{i}_temperature", T_LO_K, T_HI_K)
        if nonzero_temperature:
            h.assume(t != 0, "0.0 degC is covered by the one-record set")
    return h.new(X21 + ":ZoneStatusData",
                 zone_number=h.int(f"z{i}_number", 0, 15),
                 power_state=h.enum(f"z{i}_power", X21 + ":ZonePowerState"),
                 spill_active=h.bool(f"z{i}_spill"),
                 control_method=h.enum(f"z{i}_method", X21 + ":ZoneControlMethod"),
                 has_sensor=has_sensor,
                 battery_status=h.enum(f"z{i}_battery", X21 + ":SensorBatteryStatus"),
                 temperature=t,
                 damper_percentage=h.int(f"z{i}_damper", 0, 100),
                 set_point=set_point(h, f"z{i}_set_point") if with_set_point else None)


_X21_FUNCS = [X21 + ":ZoneStatusEncoder.non_repeat_size", X21 + ":ZoneStatusEncoder.repeat_count",
              X21 + ":ZoneStatusEncoder.repeat_size", X21 + ":ZoneStatusEncoder.encode",
              X21 + ":ZoneStatusDecoder.decode", AT5 + "utils:encode_set_point", AT5 + "utils:decode_set_point",
              AT5 + "utils:encode_temperature", AT5 + "utils:decode_temperature"]
# (has_sensor, with_temperature, with_set_point)
ZONE_STATUS_SHAPES = [(True, True, True), (True, False, True), (False, False, False), (True, True, False), (False, False, True)]


@oset("at5.xC021.roundtrip.request", ["C03"], _X21_FUNCS)
def x21_roundtrip_request(h):
    roundtrip_c0(h, X21 + ":ZoneStatusEncoder", X21 + ":ZoneStatusDecoder", h.new(X21 + ":ZoneStatusRequest"), 0x21)


@oset("at5.xC021.roundtrip.one-record", ["C03"], _X21_FUNCS)
def x21_roundtrip_one(h):
    """Every field value of one record, every optional-field shape.  0.0 degC is inside the domain."""
    shape = h.choice("shape", ZONE_STATUS_SHAPES)
    msg = h.new(X21 + ":ZoneStatusMessage", [gen_zone_status_data(h, 0, *shape)])
    roundtrip_c0(h, X21 + ":ZoneStatusEncoder", X21 + ":ZoneStatusDecoder", msg, 0x21)


@oset("at5.xC021.roundtrip.counts-0-16", ["C03"], _X21_FUNCS)
def x21_roundtrip_counts(h):
    """Repeat counts 0..16, all records fully symbolic, shapes cycle with the index.  The single
    value 0.0 degC is left to the one-record set (it forks the encoder's `if temperature:` per record)."""
    n = h.choice("count", list(range(17)))
    recs = [gen_zone_status_data(h, i, *ZONE_STATUS_SHAPES[i % len(ZONE_STATUS_SHAPES)], nonzero_temperature=True) for i in range(n)]
    roundtrip_c0(h, X21 + ":ZoneStatusEncoder", X21 + ":ZoneStatusDecoder", h.new(X21 + ":ZoneStatusMessage", recs), 0x21)


def check_zone_status_record(h, rec, b, tag=""):
    """Vendor reading (4.a.ii) of one zone status record: the first 8 bytes at the cursor."""
    b1, b2, b3, b4, b5, b6, b7, b8 = b
    T = X21
    h.oblige(tag + "zone number = byte1 bit6-1", h.attr(rec, "zone_number") == b1 % 64)
    h.oblige(tag + "power state = byte1 bit8-7 (00 off, 01 on, 11 turbo)",
             h.enum_code(h.attr(rec, "power_state"), T + ":ZonePowerState", ZONE_STATE_CODE) == b1 // 64)
    h.oblige(tag + "control method = byte2 bit8 (1 temperature, 0 percentage)",
             h.enum_code(h.attr(rec, "control_method"), T + ":ZoneControlMethod", ZONE_METHOD_CODE) == b2 // 128)
    h.oblige(tag + "open percentage = byte2 bit7-1", h.attr(rec, "damper_percentage") == b2 % 128)
    sp = h.attr(rec, "set_point")
    if h.is_none(sp):
        h.oblige(tag + "set point absent only for byte3 = 0xFF invalid", b3 == 0xFF)
    else:
        h.oblige(tag + "set point = (byte3 + 100) / 10", sp == (b3 + 100) / 10)
        h.oblige(tag + "byte3 = 0xFF (invalid) decodes to absent", b3 != 0xFF)
    sensor = b4 // 128 == 1
    h.oblige(tag + "has sensor = byte4 bit8", h.eq(h.attr(rec, "has_sensor"), sensor))
    value = (b5 % 8) * 256 + b6
    t = h.attr(rec, "temperature")
    if h.is_none(t):
        # the document is silent about the temperature field of a zone without sensor: absent is accepted there
        h.oblige(tag + "temperature absent only if VALUE > 2000 (not available) or no sensor", Or(value > 2000, Not(sensor)))
    else:
        h.oblige(tag + "temperature = (VALUE - 500) / 10, VALUE = byte5 bit3-1, byte6", t == (value - 500) / 10)
        h.oblige(tag + "VALUE > 2000 (not available) decodes to absent", value <= 2000)
    h.oblige(tag + "spill = byte7 bit2", h.eq(h.attr(rec, "spill_active"), (b7 // 2) % 2 == 1))
    h.oblige(tag + "low battery = byte7 bit1",
             h.enum_code(h.attr(rec, "battery_status"), T + ":SensorBatteryStatus", BATTERY_CODE) == b7 % 2)


def status_decode_contract(h, mod, dec_cls, msg_cls, req_cls, listvar, listattr, rec_size, min_stride, check, tag, sub_id,
                           strides=None, mk_dec=None, loop_fn=None, request_rejected=False):
    """C05 / C17 for a status decoder with announced stride: arbitrary payload, arbitrary repeat
    count, arbitrary announced stride (symbolic unless `strides` lists the cases), arbitrary
    decoder state.  `rec_size` = number of bytes the record is read from, `min_stride` = the
    smallest stride the decoder must accept (the documented record size)."""
    buf = h.abytes("payload")
    rc = h.int("repeat_count", 0, 65535)
    rs = h.int("repeat_length", 0, 65535) if strides is None else h.choice("repeat_length", strides)
    dec = mk_dec(h) if mk_dec else h.raw(mod + ":" + dec_cls, _mismatch_logged=h.bool("mismatch_logged"))
    chk = lambda rec, b, k: check(h, rec, b, "record k: ")
    loop = RecordLoop(h, loop_fn or f"{mod}:{dec_cls}.decode", listvar, rec_size, rs, rc, chk, tag) if h.symbolic else None
    r = h.method(dec, "decode", buf, at5_c0_subheader(h, sub_id, 0, rs, rc))
    h.oblige("returns or rejects", only_rejects(h, r))
    is_req = And(rc == 0, rs == 0)
    if not r.ok:
        if not request_rejected:
            h.oblige("the request (repeat count 0, repeat length 0) is never rejected", Not(is_req))
        h.oblige("a stride too short for one record is rejected with DecodeError", Implies(rs < min_stride, r.raised("DecodeError")))
        return
    m = h.attr(r.value, "message")
    if req_cls and h.isinstance(m, req_cls):
        h.oblige("a request is not a message of this kind", not request_rejected)
        h.oblige("request <=> repeat count 0 and repeat length 0", is_req)
        h.oblige("request: the whole payload remains", h.eq(h.attr(r.value, "remaining"), buf))
        h.cover(tag + " decode returns a request")
        return
    h.oblige("result is the status message", h.isinstance(m, mod + ":" + msg_cls))
    h.oblige("a status message is returned only for an announced stride >= the record size (and not for the request)",
             And(Not(is_req), rs >= min_stride))
    check_decoded_records(h, loop, r.value, buf, listattr, rec_size, rs, rc, chk, tag + ": ")
    h.cover(tag + " decode returns a message")


@oset("at5.xC021.decode-vendor-reading", ["C05", "C17"], [X21 + ":ZoneStatusDecoder.decode", AT5 + "utils:decode_set_point", AT5 + "utils:decode_temperature"],
      assumptions=["normal data length 0 (as documented for protocol v1.2; see at5.xC021.decode-normal-data-length)"])
def x21_decode(h):
    """Unbounded in the record count and for every announced stride 0..65535 (symbolic stride loop contract)."""
    status_decode_contract(h, X21, "ZoneStatusDecoder", "ZoneStatusMessage", X21 + ":ZoneStatusRequest", "zones", "zones", 8, 8,
                           check_zone_status_record, "x21", 0x21)


def normal_data_length_contract(h, mod, dec_cls, listattr, stride, sub_id):
    """4.a.ii / 4.a.iv: "No normal data (byte3 byte4: 0). If the protocol is upgraded, this value may
    change. Use this specific value for data parsing."  One record behind `nr` bytes of normal data:
    the decoder must read the record behind the normal data - i.e. return what it returns for the
    payload without the normal data, whose vendor reading is the subject of decode-vendor-reading -
    or reject; it must not read the normal data as a record."""
    nr = h.int("non_repeat_length", 1, 65535)
    buf = h.abytes("payload")
    h.assume(h.length(buf) >= nr + stride, "the payload carries the announced normal data and one record")
    r = h.method(h.new(mod + ":" + dec_cls), "decode", buf, at5_c0_subheader(h, sub_id, nr, stride, 1))
    h.oblige("returns or rejects", only_rejects(h, r))
    if not r.ok:
        return
    r0 = h.method(h.new(mod + ":" + dec_cls), "decode", h.slice(buf, nr), at5_c0_subheader(h, sub_id, 0, stride, 1))
    same = h.eq(h.elems(h.attr(h.attr(r.value, "message"), listattr)), h.elems(h.attr(h.attr(r0.value, "message"), listattr))) if r0.ok else False
    h.oblige("the record is read behind the announced normal data (or the payload is rejected)", same)


@oset("at5.xC021.decode-normal-data-length", ["C05", "C17"], [X21 + ":ZoneStatusDecoder.decode"],
      assumptions=["one record behind the normal data (the record loop itself is the subject of decode-vendor-reading); every normal data length 1..65535"])
def x21_normal_data(h):
    normal_data_length_contract(h, X21, "ZoneStatusDecoder", "zones", 8, 0x21)


# ================================ 0x23 AC status =================================================

def gen_ac_status_data(h, i):
    return h.new(X23 + ":AcStatusData",
                 ac_number=h.int(f"a{i}_number", 0, 15),
                 power_state=h.enum(f"a{i}_power", X23 + ":AcPowerState"),
                 mode=h.enum(f"a{i}_mode", X23 + ":AcMode"),
                 fan_speed=h.enum(f"a{i}_fan", X23 + ":AcFanSpeed"),
                 turbo_active=h.bool(f"a{i}_turbo"), bypass_active=h.bool(f"a{i}_bypass"),
                 spill_active=h.bool(f"a{i}_spill"), timer_set=h.bool(f"a{i}_timer"),
                 set_point=set_point(h, f"a{i}_set_point"),
                 temperature=h.tenths(f"a{i}_temperature", T_LO_K, T_HI_K),
                 error_code=h.int(f"a{i}_error", 0, 65535))


_X23_FUNCS = [X23 + ":AcStatusEncoder.non_repeat_size", X23 + ":AcStatusEncoder.repeat_count",
              X23 + ":AcStatusEncoder.repeat_size", X23 + ":AcStatusEncoder.encode",
              X23 + ":AcStatusDecoder.decode", AT5 + "utils:encode_set_point", AT5 + "utils:decode_set_point",
              AT5 + "utils:encode_temperature", AT5 + "utils:decode_temperature"]


@oset("at5.xC023.roundtrip.request", ["C03"], _X23_FUNCS)
def x23_roundtrip_request(h):
    roundtrip_c0(h, X23 + ":AcStatusEncoder", X23 + ":AcStatusDecoder", h.new(X23 + ":AcStatusRequest"), 0x23)


@oset("at5.xC023.roundtrip.counts-0-16", ["C03"], _X23_FUNCS)
def x23_roundtrip_counts(h):
    """Repeat counts 0..16, every record fully symbolic (the record has no optional field: one shape)."""
    n = h.choice("count", list(range(17)))
    msg = h.new(X23 + ":AcStatusMessage", [gen_ac_status_data(h, i) for i in range(n)])
    out = roundtrip_c0(h, X23 + ":AcStatusEncoder", X23 + ":AcStatusDecoder", msg, 0x23)
    if out is not None:
        h.oblige("10 bytes per AC (the documented layout with the two unused bytes)", h.eq(h.length(out), 10 * n))


def check_ac_status_record(h, rec, b, tag=""):
    """Vendor reading (4.a.iv) of one AC status record: the first 8 bytes at the cursor."""
    b1, b2, b3, b4, b5, b6, b7, b8 = b
    T = X23
    h.oblige(tag + "AC number = byte1 bit4-1", h.attr(rec, "ac_number") == b1 % 16)
    h.oblige(tag + "power state = byte1 bit8-5 (0 off, 1 on, 2 away off, 3 away on, 5 sleep)",
             h.enum_code(h.attr(rec, "power_state"), T + ":AcPowerState", AC_STATE_CODE) == b1 // 16)
    h.oblige(tag + "mode = byte2 bit8-5", h.enum_code(h.attr(rec, "mode"), T + ":AcMode", AC_STATUS_MODE_CODE) == b2 // 16)
    h.oblige(tag + "fan speed = byte2 bit4-1", h.enum_code(h.attr(rec, "fan_speed"), T + ":AcFanSpeed", AC_STATUS_FAN_CODE) == b2 % 16)
    sp = h.attr(rec, "set_point")
    if h.is_none(sp):
        h.oblige(tag + "setpoint absent only for VALUE > 250 (not available)", b3 > 250)
    else:
        h.oblige(tag + "setpoint = (byte3 + 100) / 10", sp == (b3 + 100) / 10)
        h.oblige(tag + "setpoint VALUE > 250 (not available) decodes to absent", b3 <= 250)
    h.oblige(tag + "turbo = byte4 bit4", h.eq(h.attr(rec, "turbo_active"), (b4 // 8) % 2 == 1))
    h.oblige(tag + "bypass = byte4 bit3", h.eq(h.attr(rec, "bypass_active"), (b4 // 4) % 2 == 1))
    h.oblige(tag + "spill = byte4 bit2", h.eq(h.attr(rec, "spill_active"), (b4 // 2) % 2 == 1))
    h.oblige(tag + "timer = byte4 bit1", h.eq(h.attr(rec, "timer_set"), b4 % 2 == 1))
    value = (b5 % 8) * 256 + b6
    t = h.attr(rec, "temperature")
    if h.is_none(t):
        h.oblige(tag + "temperature absent only for VALUE > 2000 (not available)", value > 2000)
    else:
        h.oblige(tag + "temperature = (VALUE - 500) / 10, VALUE = byte5 bit3-1, byte6", t == (value - 500) / 10)
        h.oblige(tag + "temperature VALUE > 2000 (not available) decodes to absent", value <= 2000)
    h.oblige(tag + "error code = byte7-8", h.attr(rec, "error_code") == b7 * 256 + b8)


@oset("at5.xC023.decode-vendor-reading", ["C05", "C17"], [X23 + ":AcStatusDecoder.decode", AT5 + "utils:decode_set_point", AT5 + "utils:decode_temperature"],
      assumptions=["normal data length 0 (as documented for protocol v1.2; see at5.xC023.decode-normal-data-length)"])
def x23_decode(h):
    """Unbounded in the record count and for every announced stride 0..65535 (symbolic stride loop
    contract).  The document allows 8 and 10 byte records; the reading uses the first 8 bytes."""
    status_decode_contract(h, X23, "AcStatusDecoder", "AcStatusMessage", X23 + ":AcStatusRequest", "acs", "ac_status", 8, 8,
                           check_ac_status_record, "x23", 0x23)


@oset("at5.xC023.decode-normal-data-length", ["C05", "C17"], [X23 + ":AcStatusDecoder.decode"],
      assumptions=["one record behind the normal data (the record loop itself is the subject of decode-vendor-reading); every normal data length 1..65535"])
def x23_normal_data(h):
    normal_data_length_contract(h, X23, "AcStatusDecoder", "ac_status", 10, 0x23)


# ================================ 0x33 AC timer status / 0x32 AC timer control ===================
# NOT in the vendor document.  Repo-derived oracle: module docstrings of xC033_ac_timer_status.py /
# xC032_ac_timer_ctrl.py ("reverse engineered") and the vectors of tests/at5/comms/test_xC033_ac_timer_status.py,
# test_xC032_ac_timer_ctrl.py, e.g.  AC 1, on-timer disabled 02:03, off-timer disabled 04:05  ==  01 82 03 84 05 00 00 00 00:
#   Byte1 AC number; Byte2 bit8 on-timer disabled, bit5-1 hour; Byte3 bit6-1 minute;
#   Byte4 / Byte5 the same for the off-timer; Byte6-9 zero padding.  Repeat length 9.
TIMER_ORACLE = ["oracle is repo-derived (module docstring + test vectors of tests/at5/comms): the vendor document v1.2 "
                "does not describe sub-messages 0x32 / 0x33"]
TIMER_DECODE_ASSUMPTIONS = TIMER_ORACLE + ["normal data length 0 (the layout the repo documents has no normal data)"]


def gen_timer_state(h, name):
    return h.new(X33 + ":AcTimerState", disabled=h.bool(name + "_disabled"),
                 hour=h.int(name + "_hour", 0, 23), minute=h.int(name + "_minute", 0, 59))


def gen_timer_data(h, i):
    return h.new(X33 + ":AcTimerStatusData", ac_number=h.int(f"t{i}_ac_number", 0, 15),
                 on_timer=gen_timer_state(h, f"t{i}_on"), off_timer=gen_timer_state(h, f"t{i}_off"))


_X33_FUNCS = [X33 + ":AcTimerStatusEncoder.non_repeat_size", X33 + ":AcTimerStatusEncoder.repeat_count",
              X33 + ":AcTimerStatusEncoder.repeat_size", X33 + ":AcTimerStatusEncoder.encode",
              X33 + ":AcTimerStatusDecoder.decode"]
_X32_FUNCS = _X33_FUNCS + [X32 + ":AcTimerControlDecoder.decode"]


@oset("at5.xC033.roundtrip.request", ["C03"], _X33_FUNCS, assumptions=TIMER_ORACLE)
def x33_roundtrip_request(h):
    roundtrip_c0(h, X33 + ":AcTimerStatusEncoder", X33 + ":AcTimerStatusDecoder", h.new(X33 + ":AcTimerStatusRequest"), 0x33)


@oset("at5.xC033.roundtrip.counts-0-16", ["C03"], _X33_FUNCS, assumptions=TIMER_ORACLE)
def x33_roundtrip_counts(h):
    """Repeat counts 0..16, every record fully symbolic (hours 0..23, minutes 0..59, AC 0..15)."""
    n = h.choice("count", list(range(17)))
    msg = h.new(X33 + ":AcTimerStatusMessage", [gen_timer_data(h, i) for i in range(n)])
    out = roundtrip_c0(h, X33 + ":AcTimerStatusEncoder", X33 + ":AcTimerStatusDecoder", msg, 0x33)
    if out is not None:
        h.oblige("9 bytes per AC", h.eq(h.length(out), 9 * n))


@oset("at5.xC032.roundtrip.counts-0-16", ["C03"], _X32_FUNCS, assumptions=TIMER_ORACLE)
def x32_roundtrip_counts(h):
    """The control message shares the encoder; its decoder must hand back an AcTimerControlMessage (id 0x32)."""
    n = h.choice("count", list(range(17)))
    msg = h.new(X32 + ":AcTimerControlMessage", [gen_timer_data(h, i) for i in range(n)])
    roundtrip_c0(h, X32 + ":AcTimerControlEncoder", X32 + ":AcTimerControlDecoder", msg, 0x32)
    mid = h.prop(msg, "message_id")
    h.oblige("the control message announces sub type 0x32", And(mid.ok, h.eq(mid.value, 0x32) if mid.ok else False))


def timer_wire_meaning(h, st, hi, lo, tag):
    h.oblige(tag + "bit8 = disabled", h.eq(h.attr(st, "disabled"), hi // 128 == 1))
    h.oblige(tag + "bit7-6 zero, bit5-1 = hour", And((hi // 32) % 4 == 0, hi % 32 == h.attr(st, "hour")))
    h.oblige(tag + "minute byte: bit8-7 zero, bit6-1 = minute", lo == h.attr(st, "minute"))


@oset("at5.xC032.encode-wire-meaning", ["C04"], [X33 + ":AcTimerStatusEncoder.encode"], assumptions=TIMER_ORACLE)
def x32_vendor(h):
    """What a quick-timer command puts on the wire (two ACs)."""
    recs = [gen_timer_data(h, 0), gen_timer_data(h, 1)]
    msg = h.new(X32 + ":AcTimerControlMessage", recs)
    enc = h.new(X32 + ":AcTimerControlEncoder")
    r = h.method(enc, "encode", at5_c0_subheader(h, 0x32, 0, 9, 2), msg)
    h.oblige("encode does not raise", r.ok)
    if not r.ok:
        return
    items = h.items(r.value)
    h.oblige("9 bytes per AC", len(items) == 18)
    if len(items) != 18:
        return
    for i, rec in enumerate(recs):
        b = items[9 * i:9 * i + 9]
        tag = f"record {i}: "
        h.oblige(tag + "byte1 = AC number", b[0] == h.attr(rec, "ac_number"))
        timer_wire_meaning(h, h.attr(rec, "on_timer"), b[1], b[2], tag + "on-timer ")
        timer_wire_meaning(h, h.attr(rec, "off_timer"), b[3], b[4], tag + "off-timer ")
        h.oblige(tag + "byte6-9 zero padding", And(b[5] == 0, b[6] == 0, b[7] == 0, b[8] == 0))


def check_timer_record(h, rec, b, tag=""):
    """Repo-derived reading of the first 5 bytes of an AC timer record."""
    b1, b2, b3, b4, b5 = b
    h.oblige(tag + "AC number = byte1", h.attr(rec, "ac_number") == b1)
    for nm, hi, lo in (("on_timer", b2, b3), ("off_timer", b4, b5)):
        st = h.attr(rec, nm)
        h.oblige(tag + nm + " disabled = bit8", h.eq(h.attr(st, "disabled"), hi // 128 == 1))
        h.oblige(tag + nm + " hour = bit5-1", h.attr(st, "hour") == hi % 32)
        h.oblige(tag + nm + " minute = bit6-1 of the next byte", h.attr(st, "minute") == lo % 64)


@oset("at5.xC033.decode-reading", ["C05", "C17"], [X33 + ":AcTimerStatusDecoder.decode"], assumptions=TIMER_DECODE_ASSUMPTIONS)
def x33_decode(h):
    """Unbounded in the record count, every announced stride (symbolic stride loop contract).  The
    decoder reads 5 bytes per record; a stride below the 9-byte layout is rejected."""
    status_decode_contract(h, X33, "AcTimerStatusDecoder", "AcTimerStatusMessage", X33 + ":AcTimerStatusRequest", "acs",
                           "ac_timer_status", 5, 9, check_timer_record, "x33", 0x33)


@oset("at5.xC032.decode-reading", ["C05", "C17"], [X32 + ":AcTimerControlDecoder.decode", X33 + ":AcTimerStatusDecoder.decode"],
      assumptions=TIMER_DECODE_ASSUMPTIONS)
def x32_decode(h):
    """Same layout through the control decoder; an empty sub-message (which the status decoder reads
    as a request) is not a control message and must be rejected."""
    mk = lambda h: h.raw(X32 + ":AcTimerControlDecoder",
                         _ac_timer_status_decoder=h.raw(X33 + ":AcTimerStatusDecoder", _mismatch_logged=h.bool("mismatch_logged")))
    status_decode_contract(h, X32, "AcTimerControlDecoder", "AcTimerControlMessage", X33 + ":AcTimerStatusRequest", "acs",
                           "ac_timer_status", 5, 9, check_timer_record, "x32", 0x32, mk_dec=mk,
                           loop_fn=X33 + ":AcTimerStatusDecoder.decode", request_rejected=True)


# ================================ 0xC0 wrapper ====================================================
# 4.a: "First 8 bytes are the sub message type and data length details.  Byte1 sub message type,
# Byte2 keep 0, Byte3-4 normal data length, Byte5-6 each repeat data length, Byte7-8 repeat data
# count.  Data length = 8 + normal data length + repeat data length * repeat data count."
#
# The wrapper is verified *parametrically*: the sub-encoder / sub-decoder is a stub specified by a
# contract (h.stub), for an arbitrary registered id and an arbitrary sub type.
# The product  repeat count * repeat length  of two symbolic 16-bit numbers is non-linear.  Three
# shapes are explored: "both symbolic" (the general case: both factors range over 0..65535; z3
# discharges these VCs because the product only ever occurs as one and the same term on both sides
# of an equation or as one summand of a slice bound - seeded mutants of the wrapper still produce
# counter-models in this shape), and, as a net that stays inside linear arithmetic whatever the
# solver does with products, a complete case split of one factor with the other one symbolic:
# lengths 0, 1, 4, 8, 9, 10, 65535 x any count and counts 0, 1, 2, 16, 65535 x any length.
_W_LENGTHS = [0, 1, 4, 8, 9, 10, 65535]
_W_COUNTS = [0, 1, 2, 16, 65535]


def gen_lengths(h):
    nr = h.int("non_repeat_length", 0, 65535)
    shape = h.choice("product_shape", ["constant length", "constant count", "both symbolic"])
    if shape == "both symbolic":
        rs = h.int("repeat_length", 0, 65535)
        rc = h.int("repeat_count", 0, 65535)
    elif shape == "constant length":
        rs = h.choice("repeat_length", _W_LENGTHS)
        rc = h.int("repeat_count", 0, 65535)
    else:
        rc = h.choice("repeat_count", _W_COUNTS)
        rs = h.int("repeat_length", 0, 65535)
    return nr, rs, rc


def exact_bytes(h, name, n):
    """A symbolic buffer of exactly n bytes (n symbolic)."""
    if not h.symbolic and n > 4096:
        h.assume(False, "native replay materialises at most 4096 bytes of sub data")
        n = 4096
    b = h.abytes(name, ln=n)
    if not h.symbolic:
        b = (bytes(b) + bytes(n))[:n]
    return b


def buf_eq(h, a, b):
    """a == b for two buffers; two views of the same symbolic payload are compared by position
    (equal offset and length, or both empty) - a sufficient condition, which is all an obligation needs."""
    if h.symbolic:
        from pyvc.values import ABytes
        if isinstance(a, ABytes) and isinstance(b, ABytes) and a.same_base(b):
            return Or(And(S.eq(a.off, b.off), S.eq(a.ln, b.ln)), And(S.eq(a.ln, 0), S.eq(b.ln, 0)))
    return h.eq(a, b)


class SubCodecContract:
    """Contract of a 0xC0 sub-encoder and sub-decoder (ControlStatusSubEncoder / MessageDecoder
    protocols of xC0_ctrl_status.py), with a log of the calls the wrapper makes."""

    def __init__(self, h, nr, rs, rc, payload, result=None):
        self.h, self.nr, self.rs, self.rc, self.payload, self.result = h, nr, rs, rc, payload, result
        self.size_args, self.encode_args, self.decode_args = [], [], []
        self.encoder = h.stub("sub-encoder", non_repeat_size=lambda m: self._size(m, nr), repeat_count=lambda m: self._size(m, rc),
                              repeat_size=lambda m: self._size(m, rs), encode=self._encode)
        self.decoder = h.stub("sub-decoder", decode=self._decode)

    def _size(self, message, v):
        self.size_args.append(message)
        return v

    def _encode(self, header, message):
        self.encode_args.append((header, message))
        return self.payload

    def _decode(self, buffer, header):
        self.decode_args.append((buffer, header))
        return self.result

    def header_ok(self, hd, sid):
        """hd is a ControlStatusSubHeader carrying the sub id and the three numbers."""
        h = self.h
        if not h.isinstance(hd, C0 + ":ControlStatusSubHeader"):
            return False
        return And(h.eq(h.attr(hd, "sub_message_id"), sid), h.eq(h.attr(hd, "non_repeat_length"), self.nr),
                   h.eq(h.attr(hd, "repeat_length"), self.rs), h.eq(h.attr(hd, "repeat_count"), self.rc))


def sub_header_bytes_ok(h, hb, sid, nr, rs, rc):
    h.oblige("sub-header byte1 = sub message type", hb[0] == sid)
    h.oblige("sub-header byte2 keep 0", hb[1] == 0)
    h.oblige("sub-header byte3-4 = normal data length (high byte first)", hb[2] * 256 + hb[3] == nr)
    h.oblige("sub-header byte5-6 = each repeat data length", hb[4] * 256 + hb[5] == rs)
    h.oblige("sub-header byte7-8 = repeat data count", hb[6] * 256 + hb[7] == rc)


@oset("at5.xC0.encoder-parametric", ["C03", "C04"], [C0 + ":ControlStatusEncoder.size", C0 + ":ControlStatusEncoder.encode",
                                                     C0 + ":ControlStatusEncoder._sub_message_encoder"])
def c0_encoder(h):
    """ControlStatusEncoder over an arbitrary sub-encoder that satisfies the sub-encoder contract,
    registered under an arbitrary id, for a sub-message with an arbitrary id."""
    sid = h.int("sub_message_id", 0, 255)
    reg = h.int("registered_id", 0, 255)
    nr, rs, rc = gen_lengths(h)
    total = nr + rc * rs
    payload = exact_bytes(h, "sub_payload", total)
    sc = SubCodecContract(h, nr, rs, rc, payload)
    sub = h.new(COMMS + ":UnsupportedMessage", unsupported_id=sid, raw_data=b"")   # any message object with message_id == sid
    msg = h.new(C0 + ":ControlStatusMessage", sub_message=sub)
    enc = h.new(C0 + ":ControlStatusEncoder", {reg: sc.encoder})
    s = h.method(enc, "size", msg)
    e = h.method(enc, "encode", at5_header(h, 0xC0, 8 + total), msg)
    if not s.ok or not e.ok:
        h.oblige("size and encode agree on whether the sub-message is supported", And(not s.ok, not e.ok))
        h.oblige("an unregistered sub-message is refused with NotImplementedError", And(s.raised("NotImplementedError"), e.raised("NotImplementedError")))
        h.oblige("refused only if no encoder is registered for the sub-message id", sid != reg)
        h.cover("unregistered sub-message")
        return
    h.oblige("encodes only with the encoder registered for the sub-message id", sid == reg)
    h.oblige("size = 8 + normal data length + repeat data length * repeat data count", h.eq(s.value, 8 + total))
    h.oblige("the sub-encoder is asked about the sub-message itself", And(*[h.same(m, sub) for m in sc.size_args]))
    h.oblige("sub-encoder.encode is called once, with the sub-message and a sub-header carrying id and the three numbers",
             And(len(sc.encode_args) == 1, h.same(sc.encode_args[0][1], sub) if sc.encode_args else False,
                 sc.header_ok(sc.encode_args[0][0], sid) if sc.encode_args else False))
    h.oblige("announced size == number of bytes produced", h.eq(h.length(e.value), s.value))
    hb, rest = h.split_at(e.value, 8)
    sub_header_bytes_ok(h, hb, sid, nr, rs, rc)
    h.oblige("the sub data follows the 8 bytes unchanged", h.eq(rest, payload))
    h.cover("registered sub-message encodes")


@oset("at5.xC0.decoder-parametric", ["C05", "C17"], [C0 + ":ControlStatusDecoder.decode", C0 + ":ControlStatusDecoder._sub_message_decoder",
                                                     C0 + ":UnsupportedControlStatusDecoder.decode"])
def c0_decoder(h):
    """ControlStatusDecoder on an arbitrary buffer: dispatch on the sub type byte; a registered sub
    type goes to its decoder with exactly the bytes behind the sub-header and the parsed sub-header;
    an unregistered sub type is delivered as UnsupportedMessage with its sub data unchanged (C17)."""
    buf = h.abytes("payload")
    sid = h.int("sub_message_id", 0, 255)
    reg = h.int("registered_id", 0, 255)
    nr, rs, rc = gen_lengths(h)
    total = nr + rc * rs
    tok = h.new(COMMS + ":UnsupportedMessage", unsupported_id=sid, raw_data=b"token")       # "the decoded sub-message"
    rem = h.abytes("sub_decoder_remaining")
    sc = SubCodecContract(h, nr, rs, rc, None, result=h.new(COMMS + ":MessageDecodeResult", message=tok, remaining=rem))
    dec = h.new(C0 + ":ControlStatusDecoder", {reg: sc.decoder})
    short = h.branch(h.length(buf) < 8)
    if not short:
        hb, rest = h.split_at(buf, 8)
        h.assume(And(hb[0] == sid, hb[2] * 256 + hb[3] == nr, hb[4] * 256 + hb[5] == rs, hb[6] * 256 + hb[7] == rc),
                 "sid, nr, rs, rc name the sub-header fields of the buffer per the vendor layout (byte2 is arbitrary)")
    r = h.method(dec, "decode", buf, at5_header(h, 0xC0, h.length(buf)))
    h.oblige("returns or rejects", only_rejects(h, r))
    if short:
        h.oblige("a buffer shorter than the sub-header is rejected", not r.ok)
        return
    h.oblige("a buffer holding a sub-header is never rejected by the wrapper itself", r.ok)
    if not r.ok:
        return
    m = h.attr(r.value, "message")
    h.oblige("result is a ControlStatusMessage", h.isinstance(m, C0 + ":ControlStatusMessage"))
    sub = h.attr(m, "sub_message")
    if sc.decode_args:
        h.oblige("dispatch: the registered decoder is used only for its own sub type byte", sid == reg)
        b, hd = sc.decode_args[0]
        h.oblige("the sub-decoder is called once, with the bytes behind the sub-header and the parsed sub-header",
                 And(len(sc.decode_args) == 1, buf_eq(h, b, rest), sc.header_ok(hd, sid)))
        h.oblige("the sub-decoder's message and remaining bytes are passed through",
                 And(h.same(sub, tok), h.same(h.attr(r.value, "remaining"), rem)))
        h.cover("registered sub type")
    else:
        h.oblige("dispatch: the fallback is used only for an unregistered sub type byte", sid != reg)
        ok = h.isinstance(sub, COMMS + ":UnsupportedMessage")
        h.oblige("unregistered sub type -> UnsupportedMessage", ok)
        if ok:
            h.oblige("unsupported_id = sub type byte", h.eq(h.attr(sub, "unsupported_id"), sid))
            h.oblige("raw_data = the first nr + rc * rs bytes behind the sub-header, unchanged",
                     buf_eq(h, h.attr(sub, "raw_data"), h.slice(rest, 0, total)))
            h.oblige("remaining = what follows the sub data", buf_eq(h, h.attr(r.value, "remaining"), h.slice(rest, total)))
        h.cover("unregistered sub type")


@oset("at5.xC0.unsupported-decoder", ["C17"], [C0 + ":UnsupportedControlStatusDecoder.decode"])
def c0_unsupported(h):
    """UnsupportedControlStatusDecoder on its own: never raises, carries nr + rc * rs bytes unchanged."""
    buf = h.abytes("payload")
    sid = h.int("sub_message_id", 0, 255)
    nr, rs, rc = gen_lengths(h)
    total = nr + rc * rs
    r = h.method(h.new(C0 + ":UnsupportedControlStatusDecoder"), "decode", buf, at5_c0_subheader(h, sid, nr, rs, rc))
    h.oblige("never raises", r.ok)
    if not r.ok:
        return
    m = h.attr(r.value, "message")
    h.oblige("UnsupportedMessage with the sub type as id", And(h.isinstance(m, COMMS + ":UnsupportedMessage"), h.eq(h.attr(m, "unsupported_id"), sid)))
    mid = h.prop(m, "message_id")
    h.oblige("message_id reports the sub type", And(mid.ok, h.eq(mid.value, sid) if mid.ok else False))
    h.oblige("raw_data = payload[:nr + rc * rs]", buf_eq(h, h.attr(m, "raw_data"), h.slice(buf, 0, total)))
    h.oblige("remaining = payload[nr + rc * rs:]", buf_eq(h, h.attr(r.value, "remaining"), h.slice(buf, total)))


@oset("at5.xC0.sub-header", ["C03"], [C0 + ":ControlStatusSubHeader.message_length", C0 + ":ControlStatusSubHeader.message_id"])
def c0_sub_header(h):
    sid = h.int("sub_message_id", 0, 255)
    nr, rs, rc = gen_lengths(h)
    hd = at5_c0_subheader(h, sid, nr, rs, rc)
    ml = h.prop(hd, "message_length")
    mi = h.prop(hd, "message_id")
    h.oblige("message_length = normal data length + repeat data length * repeat data count (= data length - 8)",
             And(ml.ok, h.eq(ml.value, nr + rc * rs) if ml.ok else False))
    h.oblige("message_id = sub message type", And(mi.ok, h.eq(mi.value, sid) if mi.ok else False))


@oset("at5.xC0.roundtrip-parametric", ["C03"], [C0 + ":ControlStatusEncoder.size", C0 + ":ControlStatusEncoder.encode", C0 + ":ControlStatusDecoder.decode"])
def c0_roundtrip(h):
    """decode(encode(m)) through the wrapper for any sub-codec pair satisfying the contract: the
    sub-decoder receives exactly the sub-encoder's bytes and an equal sub-header; what it returns is
    what the wrapper returns.  (With the per-codec round-trip sets this composes to C03 for 0xC0.)"""
    sid = h.int("sub_message_id", 0, 255)
    nr, rs, rc = gen_lengths(h)
    total = nr + rc * rs
    payload = exact_bytes(h, "sub_payload", total)
    sub = h.new(COMMS + ":UnsupportedMessage", unsupported_id=sid, raw_data=b"")
    sc = SubCodecContract(h, nr, rs, rc, payload, result=h.new(COMMS + ":MessageDecodeResult", message=sub, remaining=b""))
    msg = h.new(C0 + ":ControlStatusMessage", sub_message=sub)
    enc = h.new(C0 + ":ControlStatusEncoder", {sid: sc.encoder})
    dec = h.new(C0 + ":ControlStatusDecoder", {sid: sc.decoder})
    s = h.method(enc, "size", msg)
    h.oblige("size does not raise", s.ok)
    if not s.ok:
        return
    hdr = at5_header(h, 0xC0, s.value)
    e = h.method(enc, "encode", hdr, msg)
    h.oblige("encode does not raise", e.ok)
    if not e.ok:
        return
    d = h.method(dec, "decode", e.value, hdr)
    h.oblige("decode accepts the encoder's output", d.ok)
    if not d.ok:
        return
    ok = len(sc.decode_args) == 1 and len(sc.encode_args) == 1
    h.oblige("one sub-encode, one sub-decode", ok)
    if not ok:
        return
    h.oblige("the sub-decoder receives exactly the sub-encoder's bytes", h.eq(sc.decode_args[0][0], payload))
    h.oblige("the sub-decoder receives a sub-header equal to the one the sub-encoder was given", h.eq(sc.decode_args[0][1], sc.encode_args[0][0]))
    h.oblige("decoded wrapper message equals the original", h.eq(h.attr(d.value, "message"), msg))
    h.oblige("nothing left over", h.eq(h.length(h.attr(d.value, "remaining")), 0))
    ac = h.method(d.value, "assert_complete")
    h.oblige("assert_complete passes", ac.ok)
    h.cover("wrapper roundtrip completes")


# ================================ header codec (hdr.py) ==========================================
# Vendor section 3: Header 0x55 0x55 0x55 0xAA (4) | Address (2) | Message id (1) | Message type (1) |
# Data length (2, high byte first) | Data | CRC16 over everything after the header.
# (The code's field names: packet_id = the document's "message id"; message_id = "message type".)
# NOT in the vendor document: the code frames this in an outer header
#   0x55 0x55 0x55 0xAB | 2 pad bytes | data length | data length again,  data length = 10 + message length + 2
# Oracle for the outer header: repo-derived (comment block above _STRUCT in at5/comms/hdr.py, "reverse engineered").
HDR_ORACLE = ["outer header 55 55 55 AB, two pad bytes, data length twice (= 10 + message length + 2): oracle is repo-derived "
              "(at5/comms/hdr.py comments); the vendor document v1.2 describes the inner header only"]
OUTER_PREFIX = [0x55, 0x55, 0x55, 0xAB]
INNER_PREFIX = [0x55, 0x55, 0x55, 0xAA]
MAX_MESSAGE_LENGTH = 65535 - 12


def header_fields(h, max_len=MAX_MESSAGE_LENGTH):
    return dict(to_address=h.int("to_address", 0, 255), from_address=h.int("from_address", 0, 255),
                packet_id=h.int("packet_id", 0, 255), message_id=h.int("message_id", 0, 255),
                message_length=h.int("message_length", 0, max_len))


def header_wire_meaning(h, hb, f):
    h.oblige("outer header: 55 55 55 AB, two zero pad bytes", And(*[hb[i] == OUTER_PREFIX[i] for i in range(4)], hb[4] == 0, hb[5] == 0))
    dl = 10 + f["message_length"] + 2
    h.oblige("outer data length = 10 + message length + 2, written twice", And(hb[6] * 256 + hb[7] == dl, hb[8] * 256 + hb[9] == dl))
    h.oblige("vendor header: 0x55 0x55 0x55 0xAA", And(*[hb[10 + i] == INNER_PREFIX[i] for i in range(4)]))
    h.oblige("vendor address: to, from", And(hb[14] == f["to_address"], hb[15] == f["from_address"]))
    h.oblige("vendor message id byte = packet id", hb[16] == f["packet_id"])
    h.oblige("vendor message type byte = message id", hb[17] == f["message_id"])
    h.oblige("vendor data length, high byte first = message length", hb[18] * 256 + hb[19] == f["message_length"])


@oset("at5.hdr.encode", ["C03", "C04", "C01"], [HDR + ":HeaderEncoder.encode"], assumptions=HDR_ORACLE)
def hdr_encode(h):
    """Precondition for a frame: addresses / ids 0..255 and message length 0..65523 (12 + length must
    fit the 16-bit outer length).  Inside it encode never raises; beyond it no frame is produced."""
    f = header_fields(h, max_len=70000)
    r = h.method(h.new(HDR + ":HeaderEncoder"), "encode", h.new(HDR + ":At5Header", **f))
    if not r.ok:
        h.oblige("inside the precondition encode never raises", f["message_length"] > MAX_MESSAGE_LENGTH)
        h.oblige("an over-long message is refused with struct.error (no frame with a wrapped length)", r.raised("struct.error"))
        return
    h.oblige("a frame is produced only inside the precondition", f["message_length"] <= MAX_MESSAGE_LENGTH)
    hb = h.items(h.attr(r.value, "header_bytes"))
    h.oblige("20 header bytes", len(hb) == 20)
    if len(hb) != 20:
        return
    header_wire_meaning(h, hb, f)
    h.oblige("checksum span = address .. data length of the vendor header (bytes 14..19)",
             h.eq(h.attr(r.value, "checksum_data"), h.mkbytes(hb[14:20])))
    h.cover("header encodes")


@oset("at5.hdr.decode", ["C05", "C17"], [HDR + ":HeaderDecoder.decode", HDR + ":HeaderDecoder.header_length"], assumptions=HDR_ORACLE)
def hdr_decode(h):
    """Arbitrary buffer: every field is read from its position; the four malformations are rejected
    with DecodeError, a short buffer with struct.error; nothing else is rejected."""
    buf = h.abytes("buffer")
    dec = h.new(HDR + ":HeaderDecoder")
    hl = h.prop(dec, "header_length")
    h.oblige("header_length == 20", And(hl.ok, h.eq(hl.value, 20) if hl.ok else False))
    short = h.branch(h.length(buf) < 20)
    r = h.method(dec, "decode", buf)
    h.oblige("returns or rejects", only_rejects(h, r))
    if short:
        h.oblige("a buffer shorter than the header is rejected", not r.ok)
        return
    hb, rest = h.split_at(buf, 20)
    mlen = hb[18] * 256 + hb[19]
    dl1, dl2 = hb[6] * 256 + hb[7], hb[8] * 256 + hb[9]
    outer_ok = And(*[hb[i] == OUTER_PREFIX[i] for i in range(4)])
    inner_ok = And(*[hb[10 + i] == INNER_PREFIX[i] for i in range(4)])
    if not r.ok:
        h.oblige("rejections use DecodeError", r.raised("DecodeError"))
        h.oblige("rejected only for: wrong outer prefix, data lengths differ, wrong vendor header, data length != 12 + message length",
                 Or(Not(outer_ok), dl1 != dl2, Not(inner_ok), dl1 != 12 + mlen))
        h.cover("header rejected")
        return
    h.oblige("accepted => outer prefix 55 55 55 AB", outer_ok)
    h.oblige("accepted => the two outer data lengths agree", dl1 == dl2)
    h.oblige("accepted => vendor header 55 55 55 AA", inner_ok)
    h.oblige("accepted => outer data length == 10 + message length + 2", dl1 == 12 + mlen)
    hd = h.attr(r.value, "header")
    h.oblige("to / from address = bytes 14, 15", And(h.eq(h.attr(hd, "to_address"), hb[14]), h.eq(h.attr(hd, "from_address"), hb[15])))
    h.oblige("packet id = byte 16 (vendor message id)", h.eq(h.attr(hd, "packet_id"), hb[16]))
    h.oblige("message id = byte 17 (vendor message type)", h.eq(h.attr(hd, "message_id"), hb[17]))
    h.oblige("message length = bytes 18-19, high byte first", h.eq(h.attr(hd, "message_length"), mlen))
    h.oblige("remaining = what follows the 20 bytes", buf_eq(h, h.attr(r.value, "remaining"), rest))
    h.oblige("checksum span = bytes 14..19", h.eq(h.attr(r.value, "checksum_data"), h.mkbytes(hb[14:20])))
    h.cover("header accepted")


@oset("at5.hdr.roundtrip", ["C03", "C01"], [HDR + ":HeaderEncoder.encode", HDR + ":HeaderDecoder.decode"], assumptions=HDR_ORACLE)
def hdr_roundtrip(h):
    f = header_fields(h)
    hdr = h.new(HDR + ":At5Header", **f)
    e = h.method(h.new(HDR + ":HeaderEncoder"), "encode", hdr)
    h.oblige("encode does not raise", e.ok)
    if not e.ok:
        return
    d = h.method(h.new(HDR + ":HeaderDecoder"), "decode", h.attr(e.value, "header_bytes"))
    h.oblige("decode accepts the encoder's output", d.ok)
    if not d.ok:
        return
    h.oblige("decoded header equals the original", h.eq(h.attr(d.value, "header"), hdr))
    h.oblige("nothing left over", h.eq(h.length(h.attr(d.value, "remaining")), 0))
    h.oblige("same checksum span on both sides", h.eq(h.attr(d.value, "checksum_data"), h.attr(e.value, "checksum_data")))
    ac = h.method(d.value, "assert_complete")
    h.oblige("assert_complete passes", ac.ok)
    h.cover("header roundtrip completes")


# ================================ registry ========================================================

@oset("at5.registry.header-factory", ["C04", "C03", "C01"], [REG + ":HeaderFactory.create_from_message", REG + ":HeaderFactory._packet_id"])
def reg_header_factory(h):
    """Section 3.b: address 0x80 0xB0, or 0x90 0xB0 for an extended message (type 0x1F), when sending
    to AirTouch.  Arbitrary factory state (counter 0..255), arbitrary message id and length."""
    ctr = h.int("next_packet_id", 0, 255)
    fac = h.raw(REG + ":HeaderFactory", _next_packet_id=ctr)
    mid = h.int("message_id", 0, 255)
    mlen = h.int("message_length", 0, 65535)
    msg = h.new(COMMS + ":UnsupportedMessage", unsupported_id=mid, raw_data=b"")     # any message whose message_id is mid
    r = h.method(fac, "create_from_message", msg, mlen)
    h.oblige("never raises", r.ok)
    if not r.ok:
        return
    hd = r.value
    h.oblige("result is an At5Header", h.isinstance(hd, HDR + ":At5Header"))
    h.oblige("to address 0x90 iff extended message (0x1F), else 0x80", h.eq(h.attr(hd, "to_address"), ite(mid == 0x1F, 0x90, 0x80)))
    h.oblige("from address 0xB0", h.eq(h.attr(hd, "from_address"), 0xB0))
    h.oblige("packet id = the counter before the call", h.eq(h.attr(hd, "packet_id"), ctr))
    h.oblige("message id and length are the arguments", And(h.eq(h.attr(hd, "message_id"), mid), h.eq(h.attr(hd, "message_length"), mlen)))
    h.oblige("counter' = (counter + 1) mod 256", h.eq(h.attr(fac, "_next_packet_id"), ite(ctr == 255, 0, ctr + 1)))


# id -> (module, encoder class, decoder class, message classes).  Ids of 0x20..0x23 and the extended
# ids are the vendor's (4.a.i-iv, 4.b.i-iv); 0x32 / 0x33 / 0xFF49 are repo-derived (module docstrings).
C0_TABLE = {
    0x20: (X20, "ZoneControlEncoder", "ZoneControlDecoder", ["ZoneControlMessage"]),
    0x21: (X21, "ZoneStatusEncoder", "ZoneStatusDecoder", ["ZoneStatusMessage", "ZoneStatusRequest"]),
    0x22: (X22, "AcControlEncoder", "AcControlDecoder", ["AcControlMessage"]),
    0x23: (X23, "AcStatusEncoder", "AcStatusDecoder", ["AcStatusMessage", "AcStatusRequest"]),
    0x32: (X32, "AcTimerControlEncoder", "AcTimerControlDecoder", ["AcTimerControlMessage"]),
    0x33: (X33, "AcTimerStatusEncoder", "AcTimerStatusDecoder", ["AcTimerStatusMessage", "AcTimerStatusRequest"]),
}
EXT_TABLE = {
    0xFF10: (AT5 + "x1FFF10_err_info", "AcErrorInformationEncoder", "AcErrorInformationDecoder", ["AcErrorInformationMessage", "AcErrorInformationRequest"]),
    0xFF11: (AT5 + "x1FFF11_ac_ability", "AcAbilityEncoder", "AcAbilityDecoder", ["AcAbilityMessage", "AcAbilityRequest"]),
    0xFF13: (AT5 + "x1FFF13_zone_names", "ZoneNamesEncoder", "ZoneNamesDecoder", ["ZoneNamesMessage", "ZoneNamesRequest"]),
    0xFF30: (AT5 + "x1FFF30_console_ver", "ConsoleVersionEncoder", "ConsoleVersionDecoder", ["ConsoleVersionMessage", "ConsoleVersionRequest"]),
    0xFF49: (AT5 + "x1FFF49_quick_timer", "QuickTimerEncoder", "QuickTimerDecoder", ["QuickTimerMessage"]),
}
TOP_TABLE = {
    0x1F: (AT5 + "x1F_ext", "ExtendedMessageEncoder", "ExtendedMessageDecoder", ["ExtendedMessage"]),
    0xC0: (C0, "ControlStatusEncoder", "ControlStatusDecoder", ["ControlStatusMessage"]),
}


def check_table(h, what, enc_map, dec_map, table):
    ekeys, dkeys = sorted(h.elems(enc_map)), sorted(h.elems(dec_map))
    h.oblige(f"{what}: exactly the ids of the table have an encoder", ekeys == sorted(table))
    h.oblige(f"{what}: exactly the ids of the table have a decoder", dkeys == sorted(table))
    for key, (mod, enc_cls, dec_cls, msg_classes) in table.items():
        tag = f"{what} 0x{key:02X}: "
        h.oblige(tag + "the module's MESSAGE_ID is the id", h.eq(h.get(mod + ":MESSAGE_ID"), key))
        e = h.method(enc_map, "get", key)
        d = h.method(dec_map, "get", key)
        h.oblige(tag + "registered encoder is the module's encoder", bool(e.ok and e.value is not None and h.isinstance(e.value, mod + ":" + enc_cls)))
        h.oblige(tag + "registered decoder is the module's decoder", bool(d.ok and d.value is not None and h.isinstance(d.value, mod + ":" + dec_cls)))
        for mc in msg_classes:
            mid = h.prop(h.raw(mod + ":" + mc), "message_id")
            h.oblige(tag + f"{mc}.message_id is the id", bool(mid.ok and h.eq(mid.value, key) is True))


@oset("at5.registry.registration-table", ["C03", "C17", "C19"], [REG + ":INSTANCE"], kind="frame")
def reg_table(h):
    """The concrete registration state built at import: every id maps to the encoder / decoder of the
    module that owns the id, and that module's message classes announce the same id (a swapped
    registration, or a message class with a copy-pasted id, shows up here)."""
    inst = h.get(REG + ":INSTANCE")
    check_table(h, "message type", h.attr(inst, "_encoder_map"), h.attr(inst, "_decoder_map"), TOP_TABLE)
    for key, table, what in ((0xC0, C0_TABLE, "0xC0 sub type"), (0x1F, EXT_TABLE, "0x1F sub type")):
        enc = h.method(inst, "get_encoder", key)
        dec = h.method(inst, "get_decoder", key)
        ok = enc.ok and dec.ok
        h.oblige(f"{what}: wrapper codec registered", ok)
        if ok:
            check_table(h, what, h.attr(enc.value, "_encoder_map"), h.attr(dec.value, "_decoder_map"), table)
    for part, cls in (("header_factory", REG + ":HeaderFactory"), ("header_encoder", HDR + ":HeaderEncoder"), ("header_decoder", HDR + ":HeaderDecoder"),
                      ("checksum_calculator", "pyairtouch.comms.crc16:Crc16Modbus")):
        h.oblige(f"registry.{part} is the AT5 {cls.split(':')[1]}", h.isinstance(h.attr(inst, part), cls))
    h.cover("registration table")
