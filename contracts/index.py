"""Which contract modules carry obligations for which property."""
MODULES = {
    "C06": ["contracts.c06_crc"],
}
