"""Which contract modules carry obligations for which property."""
_CODECS = ["contracts.at4_ctrl_status"]
MODULES = {
    "C03": ["contracts.c06_crc"] + _CODECS,
    "C04": _CODECS,
    "C05": _CODECS,
    "C06": ["contracts.c06_crc"],
    "C17": _CODECS,
}
