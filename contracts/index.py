"""Which contract modules carry obligations for which property."""
_CODECS = ["contracts.at4_ctrl_status", "contracts.at4_ext_timer", "contracts.at5_ctrl_status", "contracts.at5_ext"]
_SOCK = ["contracts.sock_queue", "contracts.sock_conn"]
_HB = ["contracts.heartbeat"]
_FL = ["contracts.float_lemmas"]
_API = ["contracts.api_zone", "contracts.api_ac", "contracts.api_airtouch"]
_LIB = ["contracts.lib_contracts"]
MODULES = {
    "C01": _SOCK + ["contracts.at4_ext_timer", "contracts.at5_ctrl_status"],  # header factories: packet counter wrap (runs > 256 sends)
    "C02": _SOCK + _API + _HB,
    "C03": ["contracts.c06_crc", "contracts.frame_roundtrip", "contracts.comms_registry"] + _CODECS + _FL,
    "C04": _CODECS + _API + _FL + ["contracts.c06_crc"],  # the check bytes of a command frame
    "C05": _CODECS + _FL,
    "C06": ["contracts.c06_crc"] + _SOCK,
    "C07": _SOCK + ["contracts.api_zone", "contracts.api_ac"],  # setters: what an encoder may raise is what the drain catches
    "C08": _HB + ["contracts.sock_conn", "contracts.api_airtouch"],
    "C09": _API + ["contracts.sock_conn"],  # open_socket must not wait for the connection (init() budget)
    "C10": _API + _FL + ["contracts.sock_conn"],   # frames reach the model one at a time, in order: the read loop awaits each delivery
    "C11": _API + _FL,
    "C12": _API + ["contracts.sock_conn"],
    "C13": _SOCK,
    "C14": _API + ["contracts.sock_conn"],
    "C15": _SOCK + _HB + ["contracts.api_airtouch"],
    "C16": _SOCK,
    "C17": _CODECS + _SOCK + ["contracts.comms_registry"],
    "C18": ["contracts.discovery"],
    "C19": _API + ["contracts.discovery", "contracts.at4_ext_timer", "contracts.at5_ctrl_status"] + _FL,  # registration tables: the same API call reaches the same message type on both wires
}
for _p in ("C01", "C02", "C04", "C06", "C07", "C08", "C09", "C10", "C11", "C12", "C13", "C14", "C15", "C16", "C17", "C18", "C19"):
    MODULES[_p] = MODULES[_p] + _LIB
