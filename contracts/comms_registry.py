"""pyairtouch.comms: the generic MessageRegistry and the fallback decoder for unregistered message types
(C17: "a well-formed frame of an unknown type is delivered as an unsupported message carrying its
payload unchanged"; C03: a message can only be sent if an encoder is registered for its id).

The socket contracts (sock_conn) use a registry *by contract*; these sets put the real registry
functions under contract so that the two compose: `get_decoder(id)` is total and answers the fallback
decoder for exactly the unregistered ids, and the fallback decoder is the identity on the payload.
"""
from pyvc.vc import oset
from pyvc.sym import And, Or, Not

from contracts.codec import at4_header, at5_header
from contracts.at5_ext import _is_view

COMMS = "pyairtouch.comms"
REG4 = "pyairtouch.at4.comms.registry"
REG5 = "pyairtouch.at5.comms.registry"
# vendor message types of the top level (AT4: 0x1F, 0x2A-0x2D + repo-derived 0x36/0x37; AT5: 0x1F, 0xC0)
TOP_IDS = {4: [0x1F, 0x2A, 0x2B, 0x2C, 0x2D, 0x36, 0x37], 5: [0x1F, 0xC0]}


def _lookup(h, g):
    reg = h.get((REG4 if g == 4 else REG5) + ":INSTANCE")
    mid = h.int("message_id", 0, 255)
    known = Or(*[mid == i for i in TOP_IDS[g]])
    d = h.method(reg, "get_decoder", mid)
    h.oblige("get_decoder is total: it never raises for any type byte", d.ok)
    if d.ok:
        fallback = h.attr(reg, "_unsupported_decoder")
        h.oblige("the fallback object is an UnsupportedMessageDecoder", h.isinstance(fallback, COMMS + ":UnsupportedMessageDecoder"))
        if h.branch(known):
            h.oblige("a registered type is served by its registered decoder, not by the fallback", d.value is not fallback)
            h.oblige("...the very object in the registration map", d.value is h.method(h.attr(reg, "_decoder_map"), "get", mid).value)
            h.cover("registered")
        else:
            h.oblige("every unregistered type byte is served by the fallback decoder", d.value is fallback)
            h.cover("unregistered")
    e = h.method(reg, "get_encoder", mid)
    if h.branch(known):
        h.oblige("a registered type has an encoder", e.ok)
        if e.ok:
            h.oblige("...the very object in the registration map", e.value is h.method(h.attr(reg, "_encoder_map"), "get", mid).value)
    else:
        h.oblige("an unregistered type cannot be encoded: NotImplementedError, nothing is sent as another type",
                 e.raised("NotImplementedError"))


def _fallback(h, g):
    buf = h.abytes("payload")
    mlen = h.int("message_length", 0, 0xFFFF)
    h.assume(h.length(buf) >= mlen, "the buffer holds at least the announced payload (socket: exactly it)")
    mid = h.int("message_id", 0, 255)
    hdr = (at4_header if g == 4 else at5_header)(h, mid, mlen)
    dec = h.new(COMMS + ":UnsupportedMessageDecoder")
    r = h.method(dec, "decode", buf, hdr)
    h.oblige("never raises", r.ok)
    if not r.ok:
        return
    m = h.attr(r.value, "message")
    ok = h.isinstance(m, COMMS + ":UnsupportedMessage")
    h.oblige("result is an UnsupportedMessage", ok)
    if not ok:
        return
    p = h.prop(m, "message_id")
    h.oblige("unsupported_id = the header's type byte (also its message_id)",
             And(h.attr(m, "unsupported_id") == mid, p.ok, p.value == mid if p.ok else False))
    h.oblige("raw_data = the announced payload bytes, unchanged", _is_view(h, h.attr(m, "raw_data"), buf, 0, mlen))
    h.oblige("remaining = what follows the payload (socket: nothing, so assert_complete passes)",
             _is_view(h, h.attr(r.value, "remaining"), buf, mlen, h.length(buf) - mlen))
    done = h.method(r.value, "assert_complete")
    h.oblige("assert_complete raises DecodeError iff bytes remain", h.eq(done.ok, h.length(buf) == mlen) if h.symbolic
             else done.ok == (h.length(buf) == mlen))
    if not done.ok:
        h.oblige("...and only DecodeError", done.raised("DecodeError"))
    h.cover("fallback decoded")


for _g in (4, 5):
    _reg = REG4 if _g == 4 else REG5
    oset(f"at{_g}.registry.lookup-any-type-byte", ["C17", "C03"],
         [COMMS + ":MessageRegistry.get_decoder", COMMS + ":MessageRegistry.get_encoder"])(lambda h, g=_g: _lookup(h, g))
    oset(f"at{_g}.registry.fallback-decoder", ["C17"],
         [COMMS + ":UnsupportedMessageDecoder.decode", COMMS + ":UnsupportedMessage.message_id",
          COMMS + ":MessageDecodeResult.assert_complete"])(lambda h, g=_g: _fallback(h, g))


def _fresh(h, g):
    """Constructors: the state the other contracts take as precondition holds initially."""
    reg_mod = REG4 if g == 4 else REG5
    f = h.new(reg_mod + ":HeaderFactory")
    h.oblige("a new header factory starts with a packet id inside the id byte (precondition of create_from_message)",
             And(h.attr(f, "_next_packet_id") >= 0, h.attr(f, "_next_packet_id") <= 255))
    parts = [h.new(reg_mod + ":HeaderFactory"), object(), object(), object()]
    r = h.new(COMMS + ":MessageRegistry", header_factory=parts[0], header_encoder=parts[1], header_decoder=parts[2],
              checksum_calculator=parts[3])
    h.oblige("a new registry keeps the four parts it is given",
             And(h.attr(r, "header_factory") is parts[0], h.attr(r, "header_encoder") is parts[1],
                 h.attr(r, "header_decoder") is parts[2], h.attr(r, "checksum_calculator") is parts[3]))
    mid = h.int("message_id", 0, 255)
    d = h.method(r, "get_decoder", mid)
    e = h.method(r, "get_encoder", mid)
    h.oblige("a new registry serves every type byte by the fallback decoder and encodes nothing",
             And(d.ok, h.isinstance(d.value, COMMS + ":UnsupportedMessageDecoder") if d.ok else False, e.raised("NotImplementedError")))
    enc, dec = object(), object()
    h.method(r, "register", message_id=mid, encoder=enc, decoder=dec)
    d2, e2 = h.method(r, "get_decoder", mid), h.method(r, "get_encoder", mid)
    h.oblige("register(id, e, d) makes exactly e / d the codec of id", And(d2.ok, e2.ok, d2.value is dec, e2.value is enc))
    other = h.int("other_id", 0, 255)
    h.assume(other != mid)
    d3 = h.method(r, "get_decoder", other)
    h.oblige("...and leaves every other id with the fallback", And(d3.ok, d3.value is d.value))


for _g in (4, 5):
    oset(f"at{_g}.registry.constructors", ["C17", "C03"],
         [(REG4 if _g == 4 else REG5) + ":HeaderFactory.__init__", COMMS + ":MessageRegistry.__init__",
          COMMS + ":MessageRegistry.register"])(lambda h, g=_g: _fresh(h, g))
