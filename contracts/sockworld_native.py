"""Native counterpart of contracts/sockworld.SockWorld for replaying queue-level counterexamples on the
real AirTouchSocket under CPython (sequential functions only)."""
from __future__ import annotations

import collections


class _Loop:
    def __init__(self, now):
        self._now = now

    def time(self):
        return self._now

    def create_task(self, coro):
        coro.close()
        raise AssertionError("create_task in a sequential replay")


class _Msg:
    def __init__(self, label, mid):
        self.label = label
        self.message_id = mid

    def __repr__(self):
        return f"<msg {self.label}>"


class NativeSockWorld:
    def __init__(self, h, header_length=8):
        self.h = h
        self.n = 0
        self.now = h.real("clock0", 0, None)
        self.sock = None

    def message(self, label=None):
        self.n += 1
        label = label or f"m{self.n}"
        return _Msg(label, self.h.int(f"{label}_id", 0, 0xFFFF))

    def header(self, label, message_length=None):
        ml = self.h.int(f"{label}_len", 0, 65535) if message_length is None else message_length
        hd = _Msg(label, self.h.int(f"{label}_mid", 0, 255))
        hd.message_length = ml
        return hd

    def entry(self, label, retries=None, expiry=None):
        import pyairtouch.comms.socket as S
        h = self.h
        r = h.int(f"{label}_retries", 0, None) if retries is None else retries
        e = h.real(f"{label}_expiry") if expiry is None else expiry
        return S._MessageQueueEntry(header=self.header(label + "_h"), message=self.message(label + "_m"),
                                    retries_remaining=r, expiry=e)

    def make_socket(self, *, queue=None, connected=False, is_open=None):
        import pyairtouch.comms.socket as S
        s = S.AirTouchSocket(_Loop(self.now), "host", 0, registry=None)
        s._message_queue = collections.deque(queue or [])
        s.is_connected = bool(connected)
        s.is_open = self.h.bool("is_open@init0") if is_open is None else is_open
        self.sock = s
        return s

    def clock(self):
        return self.now

    def queue_items(self):
        return list(self.sock._message_queue)
