"""Shared environment for the object-model contracts (at4/api.py, at5/api.py): the socket as the API
objects see it (its public contract), payload encoding through the real registry, helpers."""
from __future__ import annotations

from pyvc.values import unmodelled as _unmodelled  # noqa: E402
from pyvc import aio, sym
from pyvc.sym import And, Or, Not, Implies, ite
from pyvc.values import Builtin, Instance, Opaque, PyExc
from pyvc.world import World, AbsSet

SOCK = "pyairtouch.comms.socket"
API = "pyairtouch.api"


class ApiSocket:
    """AirTouchSocket's public contract: send() queues one message (may suspend; raises NotOpenError /
    QueueOverflowError), is_connected / host attributes, subscription registration."""

    def __init__(self, world, h, send_may_fail=False):
        self.w = world
        self.h = h
        self.is_connected = h.bool("sock_is_connected")
        self.host = Opaque("host")
        self.send_may_fail = send_may_fail
        self.sent = []
        self._excs = None

    def py_getattr(self, it, name):
        w = self.w
        if name == "is_connected":
            return self.is_connected
        if name == "host":
            return self.host
        if name == "send":
            def send(*a, **k):
                message = k.get("message", a[0] if a else None)
                policy = k.get("retry_policy", a[1] if len(a) > 1 else None)

                def run(it2):
                    self.sent.append((message, policy))
                    w.event("send", message, policy)
                    aio.suspend(it2, ("socket.send",))
                    if self.send_may_fail:
                        kk = w.nondet(3, "send outcome")
                        if kk:
                            cls = self.h.get(SOCK + (":NotOpenError" if kk == 1 else ":QueueOverflowError"))
                            raise PyExc(it2.instantiate(cls, [], {}))
                    return None
                return aio.Awaitable("socket.send", run)
            return Builtin("socket.send", send)
        if name in ("subscribe_on_connection_changed", "subscribe_on_message_received",
                    "unsubscribe_on_connection_changed", "unsubcribe_on_message_received"):
            return Builtin("socket." + name, lambda cb: w.event(name, cb))
        if name in ("open_socket", "close", "reset_connection"):
            def call(*a, **k):
                def run(it2):
                    w.event("call", name)
                    aio.suspend(it2, ("socket." + name,))
                    return None
                return aio.Awaitable("socket." + name, run)
            return Builtin("socket." + name, call)
        raise _unmodelled(self, name)

    def py_truth(self, it):
        return True


class NativeSubs:
    """A real set holding one recording subscriber (native replay)."""

    def __init__(self, world, name):
        self.world = world
        self.name = name
        self.calls = []

        async def recorder(*a, **k):
            self.calls.append((a, k))
            world.order.append((name, a, k))
        self.recorder = recorder
        self.set = {recorder}


class NativeWorld:
    def __init__(self):
        self.order = []
        self.sets = {}

    def subs(self, name):
        ns = NativeSubs(self, name)
        self.sets[name] = ns
        return ns


class NativeApiSocket:
    def __init__(self, h, send_may_fail=False):
        self.is_connected = h.bool("sock_is_connected")
        self.host = "host"
        self.sent = []

    async def send(self, message=None, retry_policy=None):
        self.sent.append((message, retry_policy))


def api_world(h, **kw):
    if not h.symbolic:
        return NativeWorld(), NativeApiSocket(h, **kw)
    w = World(h.it)
    return w, ApiSocket(w, h, **kw)


def subscriber_set(h, world, name):
    """(object to install as the set attribute, handle used by `notified`)."""
    if h.symbolic:
        s = AbsSet(world, name)
        return s, s
    ns = world.subs(name)
    return ns.set, ns


def union_handle(h, world, a, b):
    if h.symbolic:
        return AbsSet(world, "union", parts=[a, b])
    return ("union", a, b)


def policy_is(h, policy, name):
    return policy is h.get(SOCK + ":" + name)


def encode_payload(h, registry_mod, message):
    """Payload bytes the real registry's encoder produces for `message` (plus the announced size)."""
    reg = h.get(registry_mod + ":INSTANCE")
    mid = h.prop(message, "message_id")
    if not mid.ok:
        return mid, None, None   # what was submitted is not a message object at all
    enc = h.method(reg, "get_encoder", mid.value)
    if not enc.ok:
        return enc, None, None
    size = h.method(enc.value, "size", message)
    if not size.ok:
        return size, None, None
    factory = h.raw(registry_mod + ":HeaderFactory", _next_packet_id=h.int("next_packet_id", 0, 255))
    hdr = h.method(factory, "create_from_message", message, size.value)
    if not hdr.ok:
        return hdr, None, None
    out = h.method(enc.value, "encode", hdr.value, message)
    return out, hdr.value, size.value


def notified(h, world, aset, args):
    """Truth of: every member of the subscriber set `aset` was called exactly once with `args`
    (symbolic: the effect log contains the for-all-members event of that set with those arguments)."""
    if not h.symbolic:
        parts = [aset] if not isinstance(aset, tuple) else list(aset[1:])
        return all(len(p.calls) == 1 and list(p.calls[0][0]) == list(args) and not p.calls[0][1] for p in parts)
    alts = []
    for e in world.events("for-all-members"):
        if e[1] == aset.descriptor() and len(e[2][0]) == len(args) and not e[2][1]:
            alts.append(And(*[sym.eq(a, b) for a, b in zip(e[2][0], args)]))
    return Or(*alts)


def notifications(world):
    """All notification rounds so far (symbolic: for-all-members events; native: recorded calls)."""
    if isinstance(world, NativeWorld):
        return list(world.order)
    return world.events("for-all-members")


def notified_only(h, world, aset, args):
    """`aset` was notified with args and no other subscriber set was."""
    if not h.symbolic:
        parts = [aset] if not isinstance(aset, tuple) else list(aset[1:])
        names = {p.name for p in parts}
        return notified(h, world, aset, args) and all(n in names for n, _, _ in world.order)
    return And(len(notifications(world)) == 1, notified(h, world, aset, args))


def no_notification(h, world):
    return len(notifications(world)) == 0
