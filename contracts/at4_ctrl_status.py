"""AirTouch 4 control / status codecs (0x2A group control, 0x2B group status, 0x2C AC control,
0x2D AC status).  Oracle: Polyaire "AirTouch 4 Communication Protocol" v1.6, section 4 a-d
(text in spec/vendor/airtouch4_protocol_v1.6.txt).  Tables below are transcribed from it.

Properties: C03 (round trip, length agreement), C04 (what a control payload means),
C05 (what a status payload means), C17 (malformed input is rejected, not misread).
"""
from pyvc.sym import And, Or, Not, Implies, ite
from pyvc.vc import oset
from contracts.codec import AT4, REJECT, at4_header, roundtrip_plain, only_rejects

X2A = AT4 + "x2A_group_ctrl"
X2B = AT4 + "x2B_group_status"
X2C = AT4 + "x2C_ac_ctrl"
X2D = AT4 + "x2D_ac_status"

# ---- vendor tables (doc page 4: group control) -----------------------------------------------
# Byte2 bit3-1 power: 000 keep, 001 change to next state, 010 off, 011 on, 101 turbo
GROUP_POWER_CODE = {"UNCHANGED": 0, "TOGGLE": 1, "TURN_OFF": 2, "TURN_ON": 3, "TURBO": 5}
# Byte2 bit5-4: 00 keep control method, 01 change, 10 percentage control, 11 temperature control
GROUP_METHOD_CODE = {"UNCHANGED": 0, "CHANGE": 1, "DAMPER": 2, "TEMPERATURE": 3}
# Byte2 bit8-6: 000 keep, 010 decrease, 011 increase, 100 set open percentage, 101 set target setpoint
GROUP_SETTING_KEEP, GROUP_SETTING_DEC, GROUP_SETTING_INC, GROUP_SETTING_PCT, GROUP_SETTING_SP = 0, 2, 3, 4, 5
GROUP_INCDEC_CODE = {"DECREASE": 2, "INCREASE": 3}
# doc page 7: AC control. Byte1 bit8-7 power: 00 keep, 01 change on/off, 10 off, 11 on
AC_POWER_CODE = {"UNCHANGED": 0, "TOGGLE": 1, "TURN_OFF": 2, "TURN_ON": 3}
# Byte2 bit8-5 mode: 0 auto 1 heat 2 dry 3 fan 4 cool, other: keep   (we require 0b1111 for keep: the doc's examples use 0xff)
AC_MODE_CODE = {"AUTO": 0, "HEAT": 1, "DRY": 2, "FAN": 3, "COOL": 4, "UNCHANGED": 15}
# Byte2 bit4-1 fan: 0 auto 1 quiet 2 low 3 medium 4 high 5 powerful 6 turbo, other: keep
AC_FAN_CODE = {"AUTO": 0, "QUIET": 1, "LOW": 2, "MEDIUM": 3, "HIGH": 4, "POWERFUL": 5, "TURBO": 6, "UNCHANGED": 15}
# Byte3 bit8-7: 00 keep, 01 set value, 10 decrease, 11 increase; bit6-1 value, 0x3f when not 01
AC_SP_KEEP, AC_SP_VALUE, AC_SP_DEC, AC_SP_INC = 0, 1, 2, 3
AC_INCDEC_CODE = {"DECREASE": 2, "INCREASE": 3}
# doc page 5: group status. Byte1 bit8-7: 00 off 01 on 11 turbo
GROUP_STATE_CODE = {"OFF": 0, "ON": 1, "TURBO": 3}
# doc page 8: AC status. power 00 off 01 on (10/11 not available); mode 0..4, 8 auto heat, 9 auto cool
AC_STATE_CODE = {"OFF": 0, "ON": 1}
AC_STATUS_MODE_CODE = {"AUTO": 0, "HEAT": 1, "DRY": 2, "FAN": 3, "COOL": 4, "AUTO_HEAT": 8, "AUTO_COOL": 9}
AC_STATUS_FAN_CODE = {"AUTO": 0, "QUIET": 1, "LOW": 2, "MEDIUM": 3, "HIGH": 4, "POWERFUL": 5, "TURBO": 6}


# ================================ 0x2A group control ===========================================

def gen_group_control(h):
    kind = h.choice("setting_kind", ["none", "incdec", "damper", "setpoint"])
    if kind == "none":
        setting = None
    elif kind == "incdec":
        setting = h.enum("incdec", X2A + ":GroupIncreaseDecrease")
    elif kind == "damper":
        setting = h.new(X2A + ":GroupDamperControl", h.int("open_percentage", 0, 100))
    else:
        setting = h.new(X2A + ":GroupSetPointControl", h.int("set_point", 0, 63))
    msg = h.new(X2A + ":GroupControlMessage",
                group_number=h.int("group_number", 0, 15),
                power=h.enum("power", X2A + ":GroupPowerControl"),
                control_method=h.enum("control_method", X2A + ":GroupControlMethod"),
                setting=setting)
    return msg, kind, setting


@oset("at4.x2A.roundtrip", ["C03"], [X2A + ":GroupControlEncoder.size", X2A + ":GroupControlEncoder.encode",
                                      X2A + ":GroupControlDecoder.decode"])
def x2a_roundtrip(h):
    msg, _, _ = gen_group_control(h)
    roundtrip_plain(h, X2A + ":GroupControlEncoder", X2A + ":GroupControlDecoder", msg, at4_header, 0x2A)


def group_control_wire_meaning(h, msg, kind, setting, items):
    """Obligations: the 4 payload bytes, read per the vendor table, say what the message object says."""
    b1, b2, b3, b4 = items
    h.oblige("byte1 is the group number", b1 == h.attr(msg, "group_number"))
    h.oblige("byte2 bit3-1 = vendor power code",
             (b2 % 8) == h.enum_code(h.attr(msg, "power"), X2A + ":GroupPowerControl", GROUP_POWER_CODE))
    h.oblige("byte2 bit5-4 = vendor control-method code",
             ((b2 // 8) % 4) == h.enum_code(h.attr(msg, "control_method"), X2A + ":GroupControlMethod", GROUP_METHOD_CODE))
    sc = b2 // 32
    if kind == "none":
        h.oblige("byte2 bit8-6 = 000 keep setting value", sc == GROUP_SETTING_KEEP)
    elif kind == "incdec":
        h.oblige("byte2 bit8-6 = 010 decrease / 011 increase",
                 sc == h.enum_code(setting, X2A + ":GroupIncreaseDecrease", GROUP_INCDEC_CODE))
    elif kind == "damper":
        h.oblige("byte2 bit8-6 = 100 set open percentage", sc == GROUP_SETTING_PCT)
        h.oblige("byte3 is the requested percentage", b3 == h.attr(setting, "open_percentage"))
    else:
        h.oblige("byte2 bit8-6 = 101 set target setpoint", sc == GROUP_SETTING_SP)
        h.oblige("byte3 is the requested setpoint", b3 == h.attr(setting, "set_point"))
    h.oblige("byte4 keep 0", b4 == 0)


@oset("at4.x2A.encode-vendor-meaning", ["C04"], [X2A + ":GroupControlEncoder.encode"])
def x2a_vendor(h):
    msg, kind, setting = gen_group_control(h)
    enc = h.new(X2A + ":GroupControlEncoder")
    r = h.method(enc, "encode", at4_header(h, 0x2A, 4), msg)
    h.oblige("encode does not raise", r.ok)
    if not r.ok:
        return
    items = h.items(r.value)
    h.oblige("4 bytes data (data length 0x00 0x04)", len(items) == 4)
    if len(items) == 4:
        group_control_wire_meaning(h, msg, kind, setting, items)
        h.cover("x2A encode")


@oset("at4.x2A.decode-vendor-reading", ["C05", "C17"], [X2A + ":GroupControlDecoder.decode"])
def x2a_decode(h):
    b = h.bytes("payload", 4)
    dec = h.new(X2A + ":GroupControlDecoder")
    r = h.method(dec, "decode", b, at4_header(h, 0x2A, 4))
    h.oblige("returns or rejects", only_rejects(h, r))
    if not r.ok:
        return
    b1, b2, b3, b4 = h.items(b)
    m = h.attr(r.value, "message")
    h.oblige("group number = byte1", h.attr(m, "group_number") == b1)
    h.oblige("power = vendor reading of bit3-1",
             h.enum_code(h.attr(m, "power"), X2A + ":GroupPowerControl", GROUP_POWER_CODE) == b2 % 8)
    h.oblige("control method = vendor reading of bit5-4",
             h.enum_code(h.attr(m, "control_method"), X2A + ":GroupControlMethod", GROUP_METHOD_CODE) == (b2 // 8) % 4)
    sc = b2 // 32
    s = h.attr(m, "setting")
    if h.is_none(s):
        # the document defines 000 as keep; 001, 110, 111 are undefined ("keep" is the only safe reading)
        h.oblige("setting None only for a code that is not decrease/increase/percentage/setpoint",
                 And(sc != 2, sc != 3, sc != 4, sc != 5))
    elif h.isinstance(s, X2A + ":GroupDamperControl"):
        h.oblige("damper setting <=> code 100, value = byte3", And(sc == 4, h.attr(s, "open_percentage") == b3))
    elif h.isinstance(s, X2A + ":GroupSetPointControl"):
        h.oblige("setpoint setting <=> code 101, value = byte3", And(sc == 5, h.attr(s, "set_point") == b3))
    else:
        h.oblige("inc/dec setting <=> code 010/011",
                 sc == h.enum_code(s, X2A + ":GroupIncreaseDecrease", GROUP_INCDEC_CODE))
    h.oblige("remaining is empty", h.length(h.attr(r.value, "remaining")) == 0)


# ================================ 0x2C AC control ==============================================

def gen_ac_control(h):
    kind = h.choice("set_point_kind", ["none", "incdec", "value"])
    if kind == "none":
        spc = None
    elif kind == "incdec":
        spc = h.enum("incdec", X2C + ":AcIncreaseDecrease")
    else:
        spc = h.new(X2C + ":AcSetPointValue", h.int("set_point", 0, 63))
    msg = h.new(X2C + ":AcControlMessage",
                ac_number=h.int("ac_number", 0, 3),
                power=h.enum("power", X2C + ":AcPowerControl"),
                mode=h.enum("mode", X2C + ":AcModeControl"),
                fan_speed=h.enum("fan_speed", X2C + ":AcFanSpeedControl"),
                set_point_control=spc)
    return msg, kind, spc


@oset("at4.x2C.roundtrip", ["C03"], [X2C + ":AcControlEncoder.size", X2C + ":AcControlEncoder.encode",
                                      X2C + ":AcControlDecoder.decode"])
def x2c_roundtrip(h):
    msg, _, _ = gen_ac_control(h)
    roundtrip_plain(h, X2C + ":AcControlEncoder", X2C + ":AcControlDecoder", msg, at4_header, 0x2C)


def ac_control_wire_meaning(h, msg, kind, spc, items):
    b1, b2, b3, b4 = items
    h.oblige("byte1 bit6-1 = AC number", (b1 % 64) == h.attr(msg, "ac_number"))
    h.oblige("byte1 bit8-7 = vendor power code",
             (b1 // 64) == h.enum_code(h.attr(msg, "power"), X2C + ":AcPowerControl", AC_POWER_CODE))
    h.oblige("byte2 bit8-5 = vendor mode code (1111 = keep)",
             (b2 // 16) == h.enum_code(h.attr(msg, "mode"), X2C + ":AcModeControl", AC_MODE_CODE))
    h.oblige("byte2 bit4-1 = vendor fan code (1111 = keep)",
             (b2 % 16) == h.enum_code(h.attr(msg, "fan_speed"), X2C + ":AcFanSpeedControl", AC_FAN_CODE))
    t = b3 // 64
    v = b3 % 64
    if kind == "none":
        h.oblige("byte3 bit8-7 = 00 keep setpoint, value 0x3f", And(t == AC_SP_KEEP, v == 0x3F))
    elif kind == "incdec":
        h.oblige("byte3 bit8-7 = 10 decrease / 11 increase, value 0x3f",
                 And(t == h.enum_code(spc, X2C + ":AcIncreaseDecrease", AC_INCDEC_CODE), v == 0x3F))
    else:
        h.oblige("byte3 bit8-7 = 01 set value, bit6-1 = the setpoint", And(t == AC_SP_VALUE, v == h.attr(spc, "set_point")))
    h.oblige("byte4 keep 0", b4 == 0)


@oset("at4.x2C.encode-vendor-meaning", ["C04"], [X2C + ":AcControlEncoder.encode"])
def x2c_vendor(h):
    msg, kind, spc = gen_ac_control(h)
    enc = h.new(X2C + ":AcControlEncoder")
    r = h.method(enc, "encode", at4_header(h, 0x2C, 4), msg)
    h.oblige("encode does not raise", r.ok)
    if not r.ok:
        return
    items = h.items(r.value)
    h.oblige("4 bytes data", len(items) == 4)
    if len(items) == 4:
        ac_control_wire_meaning(h, msg, kind, spc, items)
        h.cover("x2C encode")


@oset("at4.x2C.decode-vendor-reading", ["C05", "C17"], [X2C + ":AcControlDecoder.decode"])
def x2c_decode(h):
    b = h.bytes("payload", 4)
    dec = h.new(X2C + ":AcControlDecoder")
    r = h.method(dec, "decode", b, at4_header(h, 0x2C, 4))
    h.oblige("returns or rejects", only_rejects(h, r))
    if not r.ok:
        return
    b1, b2, b3, b4 = h.items(b)
    m = h.attr(r.value, "message")
    h.oblige("ac number = byte1 bit6-1", h.attr(m, "ac_number") == b1 % 64)
    h.oblige("power = vendor reading",
             h.enum_code(h.attr(m, "power"), X2C + ":AcPowerControl", AC_POWER_CODE) == b1 // 64)
    mc = b2 // 16
    h.oblige("mode: defined code -> that mode, other -> keep",
             h.enum_code(h.attr(m, "mode"), X2C + ":AcModeControl", AC_MODE_CODE) == ite(mc <= 4, mc, 15))
    fc = b2 % 16
    h.oblige("fan: defined code -> that speed, other -> keep",
             h.enum_code(h.attr(m, "fan_speed"), X2C + ":AcFanSpeedControl", AC_FAN_CODE) == ite(fc <= 6, fc, 15))
    t = b3 // 64
    s = h.attr(m, "set_point_control")
    if h.is_none(s):
        h.oblige("None <=> 00 keep", t == 0)
    elif h.isinstance(s, X2C + ":AcSetPointValue"):
        h.oblige("value <=> 01, value = bit6-1", And(t == 1, h.attr(s, "set_point") == b3 % 64))
    else:
        h.oblige("inc/dec <=> 10/11", t == h.enum_code(s, X2C + ":AcIncreaseDecrease", AC_INCDEC_CODE))


# ================================ 0x2B group status =============================================

def temperature_domain(h, name):
    """None or a temperature on the 0.1 degC grid whose 11-bit VALUE = 10*t + 500 avoids the
    'Byte5 = 0xff' sentinel: VALUE in 0..2039.  0.0 degC (VALUE 500) is inside."""
    if h.choice(name + "_present", [False, True]):
        return h.tenths(name, -500, 1539)
    return None


def gen_group_status_data(h, i):
    has_sensor = h.choice(f"g{i}_has_sensor", [False, True])
    return h.new(X2B + ":GroupStatusData",
                 group_number=h.int(f"g{i}_number", 0, 15),
                 power_state=h.enum(f"g{i}_power", X2B + ":GroupPowerState"),
                 control_method=h.enum(f"g{i}_method", X2B + ":GroupControlMethod"),
                 spill_active=h.bool(f"g{i}_spill"),
                 supports_turbo=h.bool(f"g{i}_turbo"),
                 has_sensor=has_sensor,
                 battery_status=h.enum(f"g{i}_battery", X2B + ":SensorBatteryStatus"),
                 temperature=temperature_domain(h, f"g{i}_temperature") if has_sensor else None,
                 damper_percentage=h.int(f"g{i}_damper", 0, 100),
                 set_point=h.int(f"g{i}_set_point", 0, 63) if has_sensor else None)


@oset("at4.x2B.roundtrip.request", ["C03"], [X2B + ":GroupStatusEncoder.size", X2B + ":GroupStatusEncoder.encode",
                                              X2B + ":GroupStatusDecoder.decode"])
def x2b_roundtrip_request(h):
    roundtrip_plain(h, X2B + ":GroupStatusEncoder", X2B + ":GroupStatusDecoder", h.new(X2B + ":GroupStatusRequest"), at4_header, 0x2B)


@oset("at4.x2B.roundtrip.one-record", ["C03"], [X2B + ":GroupStatusEncoder.size", X2B + ":GroupStatusEncoder.encode",
                                                 X2B + ":GroupStatusDecoder.decode", AT4 + "utils:encode_temperature",
                                                 AT4 + "utils:decode_temperature"])
def x2b_roundtrip_one(h):
    """Every field value of one record, all optional-field shapes."""
    msg = h.new(X2B + ":GroupStatusMessage", [gen_group_status_data(h, 0)])
    roundtrip_plain(h, X2B + ":GroupStatusEncoder", X2B + ":GroupStatusDecoder", msg, at4_header, 0x2B)


def _simple_group(h, i):
    """A fully symbolic record with the optional fields present (shape fixed to keep counts 2..16 tractable)."""
    return h.new(X2B + ":GroupStatusData",
                 group_number=h.int(f"g{i}_number", 0, 15),
                 power_state=h.enum(f"g{i}_power", X2B + ":GroupPowerState"),
                 control_method=h.enum(f"g{i}_method", X2B + ":GroupControlMethod"),
                 spill_active=h.bool(f"g{i}_spill"), supports_turbo=h.bool(f"g{i}_turbo"), has_sensor=True,
                 battery_status=h.enum(f"g{i}_battery", X2B + ":SensorBatteryStatus"),
                 temperature=h.tenths(f"g{i}_temperature", -499, 1539) if True else None,
                 damper_percentage=h.int(f"g{i}_damper", 0, 100),
                 set_point=h.int(f"g{i}_set_point", 0, 63))


@oset("at4.x2B.roundtrip.counts-0-16", ["C03"], [X2B + ":GroupStatusEncoder.size", X2B + ":GroupStatusEncoder.encode",
                                                  X2B + ":GroupStatusDecoder.decode"])
def x2b_roundtrip_counts(h):
    """All repeat counts the property names (0..16), every record fully symbolic."""
    n = h.choice("count", list(range(0, 17)))
    msg = h.new(X2B + ":GroupStatusMessage", [_simple_group(h, i) for i in range(n)])
    if n == 0:
        # an empty status message is, on the wire, the request (data length 0): documented in x2B_group_status.py
        roundtrip_plain(h, X2B + ":GroupStatusEncoder", X2B + ":GroupStatusDecoder", msg, at4_header, 0x2B,
                        expect=h.new(X2B + ":GroupStatusRequest"))
    else:
        roundtrip_plain(h, X2B + ":GroupStatusEncoder", X2B + ":GroupStatusDecoder", msg, at4_header, 0x2B)


def check_group_status_record(h, rec, b, tag=""):
    """Vendor reading (doc page 5) of one 6-byte group status record `b` against decoded `rec`."""
    b1, b2, b3, b4, b5, b6 = b
    T = X2B
    h.oblige(tag + "group number = byte1 bit6-1", h.attr(rec, "group_number") == b1 % 64)
    h.oblige(tag + "power state = byte1 bit8-7 (00 off, 01 on, 11 turbo)",
             h.enum_code(h.attr(rec, "power_state"), T + ":GroupPowerState", GROUP_STATE_CODE) == b1 // 64)
    h.oblige(tag + "control method = byte2 bit8 (1 temperature, 0 percentage)",
             h.enum_code(h.attr(rec, "control_method"), T + ":GroupControlMethod", {"DAMPER": 0, "TEMPERATURE": 1}) == b2 // 128)
    h.oblige(tag + "open percentage = byte2 bit7-1", h.attr(rec, "damper_percentage") == b2 % 128)
    h.oblige(tag + "battery low = byte3 bit8",
             h.enum_code(h.attr(rec, "battery_status"), T + ":SensorBatteryStatus", {"NORMAL": 0, "LOW": 1}) == b3 // 128)
    h.oblige(tag + "turbo support = byte3 bit7", h.eq(h.attr(rec, "supports_turbo"), (b3 // 64) % 2 == 1))
    h.oblige(tag + "has sensor = byte4 bit8", h.eq(h.attr(rec, "has_sensor"), b4 // 128 == 1))
    h.oblige(tag + "spill = byte6 bit5", h.eq(h.attr(rec, "spill_active"), (b6 // 16) % 2 == 1))
    sensor = b4 // 128 == 1
    sp = h.attr(rec, "set_point")
    if h.is_none(sp):
        # the document is silent about the setpoint of a sensor-less group: absent is accepted there only
        h.oblige(tag + "setpoint absent only without sensor", Not(sensor))
    else:
        h.oblige(tag + "target setpoint = byte3 bit6-1", sp == b3 % 64)
    t = h.attr(rec, "temperature")
    value = b5 * 8 + b6 // 32
    if h.is_none(t):
        h.oblige(tag + "temperature absent only if Byte5 = 0xff or no sensor", Or(b5 == 0xFF, Not(sensor)))
    else:
        h.oblige(tag + "temperature = (VALUE - 500) / 10", t == (value - 500) / 10)
        h.oblige(tag + "Byte5 = 0xff (not available) decodes to absent", b5 != 0xFF)


@oset("at4.x2B.decode-vendor-reading", ["C05", "C17"], [X2B + ":GroupStatusDecoder.decode", AT4 + "utils:decode_temperature"])
def x2b_decode(h):
    """Unbounded in the record count: loop contract on the real decode loop."""
    buf = h.abytes("payload")
    mlen = h.int("message_length", 0, 65535)
    dec = h.new(X2B + ":GroupStatusDecoder")
    if h.symbolic:
        _install_fixed_stride_loop(h, X2B + ":GroupStatusDecoder.decode", "groups", 6, mlen,
                                   lambda rec, b, k: check_group_status_record(h, rec, b, "record k: "), "x2B")
    r = h.method(dec, "decode", buf, at4_header(h, 0x2B, mlen))
    h.oblige("returns or rejects", only_rejects(h, r))
    if not r.ok:
        return
    m = h.attr(r.value, "message")
    if h.isinstance(m, X2B + ":GroupStatusRequest"):
        h.oblige("request <=> data length 0", mlen == 0)
        return
    h.oblige("a status message has length a non-zero multiple of 6", And(mlen % 6 == 0, mlen > 0))
    if h.symbolic:
        from pyvc.loops import SpecList
        g = h.attr(m, "groups")
        h.oblige("decoded list is exactly one record per 6 bytes",
                 And(isinstance(g, SpecList), g.n == mlen // 6 if isinstance(g, SpecList) else False))
        h.oblige("remaining = what follows the declared length",
                 h.length(h.attr(r.value, "remaining")) == h.length(buf) - mlen)
    else:
        g = h.elems(h.attr(m, "groups"))
        h.oblige("decoded list is exactly one record per 6 bytes", len(g) == mlen // 6)
        for k, rec in enumerate(g):
            check_group_status_record(h, rec, list(buf[6 * k:6 * k + 6]), f"record k: ")
    h.cover("x2B decode returns a message")


def _install_fixed_stride_loop(h, fn, listvar, stride, mlen, check_record, tag, bufvar="buffer"):
    """Loop contract for:  for _ in range(message_length // stride): unpack; append(rec); buffer = buffer[stride:]"""
    from pyvc.loops import StateLoop, SpecList
    from pyvc.values import ABytes, BytesVal
    from pyvc import sym as S

    def n_of(it, iterable, entry, env):
        return mlen // stride

    def at(it, k, entry):
        b0 = entry[bufvar]
        if not isinstance(b0, ABytes) or entry[listvar] != []:
            raise Exception("loop entry state does not match the contract pattern")
        return {bufvar: ABytes(b0.arr, b0.off + stride * k, b0.ln - stride * k, b0.name), listvar: SpecList(tag, k)}

    def check(it, k, entry, after):
        b0 = entry[bufvar]
        nb = after[bufvar]
        lst = after[listvar]
        ok_shape = isinstance(nb, ABytes) and nb.same_base(b0) and isinstance(lst, SpecList) and len(lst.appended) == 1
        h.oblige(f"{tag}-loop/exactly one record appended and the cursor is a view of the same buffer", ok_shape, kind="loop-preserve")
        if not ok_shape:
            return
        h.oblige(f"{tag}-loop/cursor advances by the record size",
                 And(S.eq(nb.off, b0.off + stride * (k + 1)), S.eq(nb.ln, b0.ln - stride * (k + 1))), kind="loop-preserve")
        cur = ABytes(b0.arr, b0.off + stride * k, b0.ln - stride * k, b0.name)
        rec_bytes = []
        for i in range(stride):
            x = cur.at(i)
            rec_bytes.append(x)
        check_record(lst.appended[0], rec_bytes, k)

    h.it.loop_hooks[(fn, 0)] = StateLoop(f"{tag}-loop", [bufvar, listvar], n_of, at, check)


# ================================ 0x2D AC status ================================================

def gen_ac_status_data(h, i):
    return h.new(X2D + ":AcStatusData",
                 ac_number=h.int(f"a{i}_number", 0, 3),
                 power_state=h.enum(f"a{i}_power", X2D + ":AcPowerState"),
                 mode=h.enum(f"a{i}_mode", X2D + ":AcMode"),
                 fan_speed=h.enum(f"a{i}_fan", X2D + ":AcFanSpeed"),
                 spill_active=h.bool(f"a{i}_spill"), timer_set=h.bool(f"a{i}_timer"),
                 set_point=h.int(f"a{i}_set_point", 0, 63),
                 temperature=h.tenths(f"a{i}_temperature", -500, 1539),
                 error_code=h.int(f"a{i}_error", 0, 65535))


@oset("at4.x2D.roundtrip.request", ["C03"], [X2D + ":AcStatusEncoder.size", X2D + ":AcStatusEncoder.encode", X2D + ":AcStatusDecoder.decode"])
def x2d_roundtrip_request(h):
    roundtrip_plain(h, X2D + ":AcStatusEncoder", X2D + ":AcStatusDecoder", h.new(X2D + ":AcStatusRequest"), at4_header, 0x2D)


@oset("at4.x2D.roundtrip.counts-0-16", ["C03"], [X2D + ":AcStatusEncoder.size", X2D + ":AcStatusEncoder.encode",
                                                  X2D + ":AcStatusDecoder.decode", AT4 + "utils:encode_temperature",
                                                  AT4 + "utils:decode_temperature"])
def x2d_roundtrip_counts(h):
    n = h.choice("count", list(range(0, 17)))
    msg = h.new(X2D + ":AcStatusMessage", [gen_ac_status_data(h, i) for i in range(n)])
    roundtrip_plain(h, X2D + ":AcStatusEncoder", X2D + ":AcStatusDecoder", msg, at4_header, 0x2D,
                    expect=h.new(X2D + ":AcStatusRequest") if n == 0 else None)


def check_ac_status_record(h, rec, b, tag=""):
    """Vendor reading (doc page 8) of one 8-byte AC status record."""
    b1, b2, b3, b4, b5, b6, b7, b8 = b
    T = X2D
    h.oblige(tag + "AC number = byte1 bit6-1", h.attr(rec, "ac_number") == b1 % 64)
    h.oblige(tag + "power state = byte1 bit8-7 (00 off, 01 on)",
             h.enum_code(h.attr(rec, "power_state"), T + ":AcPowerState", AC_STATE_CODE) == b1 // 64)
    h.oblige(tag + "mode = byte2 bit8-5",
             h.enum_code(h.attr(rec, "mode"), T + ":AcMode", AC_STATUS_MODE_CODE) == b2 // 16)
    h.oblige(tag + "fan speed = byte2 bit4-1",
             h.enum_code(h.attr(rec, "fan_speed"), T + ":AcFanSpeed", AC_STATUS_FAN_CODE) == b2 % 16)
    h.oblige(tag + "spill = byte3 bit8", h.eq(h.attr(rec, "spill_active"), b3 // 128 == 1))
    h.oblige(tag + "timer = byte3 bit7", h.eq(h.attr(rec, "timer_set"), (b3 // 64) % 2 == 1))
    h.oblige(tag + "target setpoint = byte3 bit6-1", h.attr(rec, "set_point") == b3 % 64)
    h.oblige(tag + "error code = byte7-8", h.attr(rec, "error_code") == b7 * 256 + b8)
    t = h.attr(rec, "temperature")
    value = b5 * 8 + b6 // 32
    if h.is_none(t):
        h.oblige(tag + "temperature absent only if Byte5 = 0xff", b5 == 0xFF)
    else:
        h.oblige(tag + "temperature = (VALUE - 500) / 10", t == (value - 500) / 10)
        h.oblige(tag + "Byte5 = 0xff (not available) decodes to absent", b5 != 0xFF)


@oset("at4.x2D.decode-vendor-reading", ["C05", "C17"], [X2D + ":AcStatusDecoder.decode", AT4 + "utils:decode_temperature"])
def x2d_decode(h):
    buf = h.abytes("payload")
    mlen = h.int("message_length", 0, 65535)
    dec = h.new(X2D + ":AcStatusDecoder")
    if h.symbolic:
        _install_fixed_stride_loop(h, X2D + ":AcStatusDecoder.decode", "ac_status", 8, mlen,
                                   lambda rec, b, k: check_ac_status_record(h, rec, b, "record k: "), "x2D")
    r = h.method(dec, "decode", buf, at4_header(h, 0x2D, mlen))
    h.oblige("returns or rejects", only_rejects(h, r))
    if not r.ok:
        return
    m = h.attr(r.value, "message")
    if h.isinstance(m, X2D + ":AcStatusRequest"):
        h.oblige("request <=> data length 0", mlen == 0)
        return
    h.oblige("a status message has length a non-zero multiple of 8", And(mlen % 8 == 0, mlen > 0))
    if h.symbolic:
        from pyvc.loops import SpecList
        g = h.attr(m, "ac_status")
        h.oblige("decoded list is exactly one record per 8 bytes",
                 And(isinstance(g, SpecList), g.n == mlen // 8 if isinstance(g, SpecList) else False))
        h.oblige("remaining = what follows the declared length",
                 h.length(h.attr(r.value, "remaining")) == h.length(buf) - mlen)
    else:
        g = h.elems(h.attr(m, "ac_status"))
        h.oblige("decoded list is exactly one record per 8 bytes", len(g) == mlen // 8)
        for k, rec in enumerate(g):
            check_ac_status_record(h, rec, list(buf[8 * k:8 * k + 8]), "record k: ")
    h.cover("x2D decode returns a message")
