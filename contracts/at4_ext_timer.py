"""AirTouch 4: header codec, header factory / registration table, the 0x1F extended-message wrapper,
the five extended sub-messages (0xFF10 error info, 0xFF11 AC ability, 0xFF12 group names, 0xFF20 quick
timer, 0xFF30 console version) and the AC timer messages 0x36 / 0x37.

Oracle: Polyaire "AirTouch 4 Communication Protocol" v1.6 (spec/vendor/airtouch4_protocol_v1.6.txt),
section 3 (message format) and section 4.e i-iv.  The quick timer (0xFF20) and the AC timer control /
status messages (0x36 / 0x37) are *not* in the vendor document: for those the oracle is repo-derived
(module docstrings and the test vectors in /repo/tests/at4/comms) and every set says so.

Properties: C03 (round trip, length agreement), C04 (meaning of a command on the wire, addressing),
C05 (meaning of a status / ability / name / version / error payload), C17 (unknown and malformed input).

A str is modelled by its UTF-8 bytes.  Sets whose string lengths / payload lengths are enumerated up to
a stated bound carry `bounded=` and are never counted as unbounded proofs.
"""
from pyvc.sym import And, Or, Not, Implies, ite
from pyvc.vc import oset
from contracts.codec import AT4, REJECT, at4_header, at4_subheader, roundtrip_plain, only_rejects

HDR = AT4 + "hdr"
REG = AT4 + "registry"
EXT = AT4 + "x1F_ext"
ERR = AT4 + "x1FFF10_err_info"
ABL = AT4 + "x1FFF11_ac_ability"
GRP = AT4 + "x1FFF12_group_names"
QTM = AT4 + "x1FFF20_quick_timer"
VER = AT4 + "x1FFF30_console_ver"
X36 = AT4 + "x36_ac_timer_ctrl"
X37 = AT4 + "x37_ac_timer_status"
X2C = AT4 + "x2C_ac_ctrl"
COMMS = "pyairtouch.comms"

# ---- vendor constants ------------------------------------------------------------------------
# section 3.a: "Header is always 0x55 0x55"
HEADER_PREFIX = (0x55, 0x55)
# section 3.b: 0x80 0xb0 when sending, 0x90 0xb0 for the extended message (first byte: destination)
ADDR_AIRTOUCH, ADDR_AIRTOUCH_EXTENDED, ADDR_CLIENT = 0x80, 0x90, 0xB0
# section 4.e: "Extended message(0x1F)"; "The first two bytes of the data are used to specify the
# specific command": 0xFF 0x11 AC ability, 0xFF 0x10 AC error information, 0xFF 0x12 group name,
# 0xFF 0x30 console version
EXTENDED_TYPE = 0x1F
SUB_ERR, SUB_ABILITY, SUB_NAMES, SUB_VERSION = 0xFF10, 0xFF11, 0xFF12, 0xFF30
# repo-derived (reverse engineered, not in the vendor document)
SUB_QUICK_TIMER, TYPE_TIMER_CTRL, TYPE_TIMER_STATUS = 0xFF20, 0x36, 0x37
# 4.e.i Byte23 (bit1 = LSB): bit1 auto, bit2 heat, bit3 dry, bit4 fan, bit5 cool
ABILITY_MODE_BIT = {"AUTO": 0, "HEAT": 1, "DRY": 2, "FAN": 3, "COOL": 4}
# 4.e.i Byte24: bit1 auto, bit2 quiet, bit3 low, bit4 medium, bit5 high, bit6 powerful, bit7 turbo
ABILITY_FAN_BIT = {"AUTO": 0, "QUIET": 1, "LOW": 2, "MEDIUM": 3, "HIGH": 4, "POWERFUL": 5, "TURBO": 6}
# 4.e.i: "Following data length: Console version 1.2.3 changed from 22 to 24. Added last 2 bytes"
ABILITY_FOLLOWING_OLD, ABILITY_FOLLOWING_NEW = 22, 24
AC_NAME_BYTES = 16      # 4.e.i Byte5-20 "AC Name 16 bytes in total. If less than 16 bytes, end with 0."
GROUP_NAME_BYTES = 8    # 4.e.iii Byte4-11 "Group name 8 bytes in total."
VERSION_SEPARATOR = 0x7C  # 4.e.iv example: 0x31 0x2e 0x33 0x2e 0x33 0x7c 0x31 ... ('|')


def sub_header(message_id):
    return lambda h, _mid, length: at4_subheader(h, message_id, length)


def bit(x, i):
    """Bit i (0 = LSB, the vendor's Bit1) of a byte value as a boolean term."""
    return (x // (1 << i)) % 2 == 1


# ================================ section 3: the 8-byte header =================================

def gen_header(h):
    """Every field inside its wire range: one byte each, data length two bytes."""
    return h.new(HDR + ":At4Header", to_address=h.int("to_address", 0, 255), from_address=h.int("from_address", 0, 255),
                 packet_id=h.int("packet_id", 0, 255), message_id=h.int("message_id", 0, 255),
                 message_length=h.int("message_length", 0, 65535))


def header_wire_layout(h, hdr):
    return [0x55, 0x55, h.attr(hdr, "to_address"), h.attr(hdr, "from_address"), h.attr(hdr, "packet_id"),
            h.attr(hdr, "message_id"), h.attr(hdr, "message_length") // 256, h.attr(hdr, "message_length") % 256]


@oset("at4.hdr.encode-layout-and-roundtrip", ["C03", "C04", "C01"],
      [HDR + ":HeaderEncoder.encode", HDR + ":HeaderDecoder.decode", HDR + ":HeaderDecoder.header_length"])
def hdr_roundtrip(h):
    """Precondition: addresses, packet id and message type 0..255, data length 0..65535."""
    hdr = gen_header(h)
    e = h.method(h.new(HDR + ":HeaderEncoder"), "encode", hdr)
    h.oblige("encode does not raise for fields inside their wire ranges", e.ok)
    if not e.ok:
        return
    hb = h.attr(e.value, "header_bytes")
    items = h.items(hb)
    h.oblige("header is 8 bytes", len(items) == 8)
    if len(items) != 8:
        return
    want = header_wire_layout(h, hdr)
    names = ["byte1 = 0x55", "byte2 = 0x55", "byte3 = destination address", "byte4 = source address",
             "byte5 = message id (packet id)", "byte6 = message type", "byte7 = data length high byte",
             "byte8 = data length low byte"]
    for i in range(8):
        h.oblige("vendor layout: " + names[i], items[i] == want[i])
    cs = h.items(h.attr(e.value, "checksum_data"))
    h.oblige("checksum span = everything except the 0x55 0x55 header (bytes 3..8)",
             And(len(cs) == 6, *[cs[i] == items[2 + i] for i in range(min(len(cs), 6))]))
    dec = h.new(HDR + ":HeaderDecoder")
    hl = h.prop(dec, "header_length")
    h.oblige("header_length == 8", And(hl.ok, h.eq(hl.value, 8) if hl.ok else False))
    d = h.method(dec, "decode", hb)
    h.oblige("decode accepts the encoder's output", d.ok)
    if not d.ok:
        return
    h.oblige("decoded header equals the original", h.eq(h.attr(d.value, "header"), hdr))
    h.oblige("nothing left over", h.length(h.attr(d.value, "remaining")) == 0)
    h.oblige("same checksum span on both sides", h.eq(h.attr(d.value, "checksum_data"), h.attr(e.value, "checksum_data")))
    h.oblige("assert_complete passes", h.method(d.value, "assert_complete").ok)
    h.cover("header round trip")


@oset("at4.hdr.encode-range", ["C03", "C01"], [HDR + ":HeaderEncoder.encode"])
def hdr_encode_range(h):
    """struct.error is allowed on encode only when a field is outside its wire range."""
    f = {n: h.int(n, -70000, 70000) for n in ("to_address", "from_address", "packet_id", "message_id", "message_length")}
    hdr = h.new(HDR + ":At4Header", **f)
    e = h.method(h.new(HDR + ":HeaderEncoder"), "encode", hdr)
    inside = And(*[And(f[n] >= 0, f[n] <= 255) for n in ("to_address", "from_address", "packet_id", "message_id")],
                 f["message_length"] >= 0, f["message_length"] <= 65535)
    if e.ok:
        h.oblige("encode succeeds only for fields inside their wire ranges (nothing is truncated silently)", inside)
    else:
        h.oblige("the only exception is struct.error", e.raised("struct.error"))
        h.oblige("struct.error only when a field is outside its wire range", Not(inside))


@oset("at4.hdr.decode-vendor-reading", ["C05", "C17"], [HDR + ":HeaderDecoder.decode"])
def hdr_decode(h):
    """Arbitrary buffer of arbitrary length."""
    buf = h.abytes("buffer")
    d = h.method(h.new(HDR + ":HeaderDecoder"), "decode", buf)
    n = h.length(buf)
    h.oblige("returns, or rejects with DecodeError / struct.error", Or(d.ok, d.raised("DecodeError", "struct.error")))
    if not d.ok:
        if d.raised("struct.error"):
            h.oblige("struct.error only for fewer than 8 bytes", n < 8)
        else:
            h.assume(n >= 8)
            b, _ = h.split_at(buf, 2)
            h.oblige("DecodeError only for a prefix other than 0x55 0x55", Not(And(b[0] == 0x55, b[1] == 0x55)))
        return
    h.oblige("accepted only with at least 8 bytes", n >= 8)
    h.assume(n >= 8)
    b, rest = h.split_at(buf, 8)
    hd = h.attr(d.value, "header")
    h.oblige("accepted only with the 0x55 0x55 prefix", And(b[0] == 0x55, b[1] == 0x55))
    h.oblige("destination address = byte3", h.attr(hd, "to_address") == b[2])
    h.oblige("source address = byte4", h.attr(hd, "from_address") == b[3])
    h.oblige("message id (packet id) = byte5", h.attr(hd, "packet_id") == b[4])
    h.oblige("message type = byte6", h.attr(hd, "message_id") == b[5])
    h.oblige("data length = byte7 * 256 + byte8 (high byte first)", h.attr(hd, "message_length") == b[6] * 256 + b[7])
    cs = h.items(h.attr(d.value, "checksum_data"))
    h.oblige("checksum span = bytes 3..8", And(len(cs) == 6, *[cs[i] == b[2 + i] for i in range(min(len(cs), 6))]))
    h.oblige("remaining = what follows the header", h.eq(h.attr(d.value, "remaining"), rest))
    h.cover("header decoded")


# ================================ registry: header factory and registration table ===================

@oset("at4.registry.header-factory", ["C03", "C04", "C01"], [REG + ":HeaderFactory.create_from_message", REG + ":HeaderFactory._packet_id"])
def registry_header_factory(h):
    """Section 3.b: 0x80 0xb0 when sending, 0x90 0xb0 for the extended message (type 0x1F); 3.c: the
    message id can be any data - here a counter that must always fit the single id byte."""
    counter = h.int("next_packet_id", 0, 255)
    fac = h.raw(REG + ":HeaderFactory", _next_packet_id=counter)
    kind = h.choice("message", ["any-type", "extended"])
    if kind == "any-type":
        # a message object whose message_id is an arbitrary type byte (comms.UnsupportedMessage.message_id
        # returns its unsupported_id field)
        mid = h.int("message_type", 0, 255)
        msg = h.new(COMMS + ":UnsupportedMessage", unsupported_id=mid, raw_data=h.mkbytes([]))
    else:
        mid = EXTENDED_TYPE
        msg = h.new(EXT + ":ExtendedMessage", sub_message=h.new(VER + ":ConsoleVersionRequest"))
        got = h.prop(msg, "message_id")
        h.oblige("ExtendedMessage.message_id is the vendor type 0x1F", And(got.ok, h.eq(got.value, EXTENDED_TYPE) if got.ok else False))
    length = h.int("message_length", 0, 65535)
    r = h.method(fac, "create_from_message", msg, length)
    h.oblige("create_from_message does not raise", r.ok)
    if not r.ok:
        return
    hd = r.value
    h.oblige("destination 0x90 for the extended message (0x1F), else 0x80",
             h.attr(hd, "to_address") == ite(mid == EXTENDED_TYPE, ADDR_AIRTOUCH_EXTENDED, ADDR_AIRTOUCH))
    h.oblige("source address 0xb0", h.attr(hd, "from_address") == ADDR_CLIENT)
    h.oblige("packet id = the counter before the call", h.attr(hd, "packet_id") == counter)
    h.oblige("message type = message.message_id", h.attr(hd, "message_id") == mid)
    h.oblige("data length passed through", h.attr(hd, "message_length") == length)
    nxt = h.attr(fac, "_next_packet_id")
    h.oblige("counter' = (counter + 1) mod 256", nxt == (counter + 1) % 256)
    h.oblige("the counter always fits the id byte", And(nxt >= 0, nxt <= 255))
    h.cover("header created")


# module, vendor id, encoder, decoder, message classes.  0x36 / 0x37 / 0xFF20: repo-derived ids.
TOP_LEVEL = [
    (EXT, EXTENDED_TYPE, "ExtendedMessageEncoder", "ExtendedMessageDecoder", []),
    (AT4 + "x2A_group_ctrl", 0x2A, "GroupControlEncoder", "GroupControlDecoder", ["GroupControlMessage"]),
    (AT4 + "x2B_group_status", 0x2B, "GroupStatusEncoder", "GroupStatusDecoder", ["GroupStatusMessage", "GroupStatusRequest"]),
    (X2C, 0x2C, "AcControlEncoder", "AcControlDecoder", ["AcControlMessage"]),
    (AT4 + "x2D_ac_status", 0x2D, "AcStatusEncoder", "AcStatusDecoder", ["AcStatusMessage", "AcStatusRequest"]),
    (X36, TYPE_TIMER_CTRL, "AcTimerControlEncoder", "AcTimerControlDecoder", ["AcTimerControlMessage"]),
    (X37, TYPE_TIMER_STATUS, "AcTimerStatusEncoder", "AcTimerStatusDecoder", ["AcTimerStatusMessage", "AcTimerStatusRequest"]),
]
EXTENDED = [
    (ERR, SUB_ERR, "AcErrorInformationEncoder", "AcErrorInformationDecoder", ["AcErrorInformationMessage", "AcErrorInformationRequest"]),
    (ABL, SUB_ABILITY, "AcAbilityEncoder", "AcAbilityDecoder", ["AcAbilityMessage", "AcAbilityRequest"]),
    (GRP, SUB_NAMES, "GroupNamesEncoder", "GroupNamesDecoder", ["GroupNamesMessage", "GroupNamesRequest"]),
    (QTM, SUB_QUICK_TIMER, "QuickTimerEncoder", "QuickTimerDecoder", ["QuickTimerMessage"]),
    (VER, SUB_VERSION, "ConsoleVersionEncoder", "ConsoleVersionDecoder", ["ConsoleVersionMessage", "ConsoleVersionRequest"]),
]


def check_table(h, what, table, enc_map, dec_map):
    ids = [t[1] for t in table]
    for side, m in (("encoder", enc_map), ("decoder", dec_map)):
        keys = h.elems(m)
        h.oblige(f"{what}: the registered {side} ids are exactly {[hex(i) for i in ids]}",
                 And(len(keys) == len(ids), *[Or(*[h.eq(k, i) for k in keys]) for i in ids]))
    for mod, mid, enc, dec, msgs in table:
        tag = f"{what} 0x{mid:02x}: "
        h.oblige(tag + "module MESSAGE_ID is the documented id", h.eq(h.get(mod + ":MESSAGE_ID"), mid))
        e = h.method(enc_map, "get", mid)
        d = h.method(dec_map, "get", mid)
        h.oblige(tag + f"registered encoder is {enc} of the module that defines this id",
                 And(e.ok, h.same(h.attr(e.value, "__class__"), h.get(mod + ":" + enc)) if e.ok and not h.is_none(e.value) else False))
        h.oblige(tag + f"registered decoder is {dec} of the module that defines this id",
                 And(d.ok, h.same(h.attr(d.value, "__class__"), h.get(mod + ":" + dec)) if d.ok and not h.is_none(d.value) else False))
        for cls in msgs:
            got = h.prop(h.raw(mod + ":" + cls), "message_id")
            h.oblige(tag + f"{cls}.message_id is this id", And(got.ok, h.eq(got.value, mid) if got.ok else False))


@oset("at4.registry.registration-table", ["C03", "C17", "C19"], [REG + ":INSTANCE"])
def registry_table(h):
    """Concrete check of the module-level registration (detects a swapped / missing registration): every
    registered id maps to the encoder and decoder class of the module whose MESSAGE_ID is that id, and
    that module's message classes answer that id."""
    inst = h.get(REG + ":INSTANCE")
    check_table(h, "type", TOP_LEVEL, h.attr(inst, "_encoder_map"), h.attr(inst, "_decoder_map"))
    xe = h.method(h.attr(inst, "_encoder_map"), "get", EXTENDED_TYPE).value
    xd = h.method(h.attr(inst, "_decoder_map"), "get", EXTENDED_TYPE).value
    h.oblige("the registered 0x1F codec objects are the module-level wrapper instances",
             And(h.same(xe, h.get(REG + ":_extended_encoder")), h.same(xd, h.get(REG + ":_extended_decoder"))))
    check_table(h, "sub-type", EXTENDED, h.attr(xe, "_encoder_map"), h.attr(xd, "_decoder_map"))
    h.oblige("registry parts: header factory / encoder / decoder are the AirTouch 4 ones",
             And(h.same(h.attr(h.attr(inst, "header_factory"), "__class__"), h.get(REG + ":HeaderFactory")),
                 h.same(h.attr(h.attr(inst, "header_encoder"), "__class__"), h.get(HDR + ":HeaderEncoder")),
                 h.same(h.attr(h.attr(inst, "header_decoder"), "__class__"), h.get(HDR + ":HeaderDecoder"))))
    h.cover("registration table read")


# ================================ 0x1F extended-message wrapper ==================================
#
# Verified parametrically in the sub-codec: the sub-encoder / sub-decoder is a stub whose behaviour is
# given by a contract (h.stub), not by code.  Together with the per-sub-message round trips below
# (which take exactly the sub-header the wrapper is proved to pass) this gives the nested round trip:
# the wrapper's encoder hands the sub-encoder SubHeader(id, size) and prefixes the two id bytes; its
# decoder strips them and hands the sub-decoder SubHeader(id, header.message_length - 2).

def _stub_sub_message(h, sub_id):
    # any object with a message_id: comms.UnsupportedMessage answers its unsupported_id field
    return h.new(COMMS + ":UnsupportedMessage", unsupported_id=sub_id, raw_data=h.mkbytes([]))


@oset("at4.x1F.encode-parametric", ["C03", "C04"], [EXT + ":ExtendedMessageEncoder.size", EXT + ":ExtendedMessageEncoder.encode",
                                                     EXT + ":ExtendedMessageEncoder._sub_message_encoder"])
def x1f_encode(h):
    """For a registered sub-message id (any 16-bit id) and any sub-encoder behaviour: size == 2 + s, the data
    is the id big-endian (0xFF 0x.. for the documented commands) followed by exactly the sub-encoder's bytes,
    and the sub-encoder is called with SubHeader(message_id = id, message_length = s)."""
    sid = h.int("sub_id", 0, 65535)
    s = h.int("sub_size", 0, 65533)
    sub = _stub_sub_message(h, sid)
    payload = h.abytes("sub_payload", ln=s)
    calls = []

    def size(m):
        h.oblige("sub-encoder size() is asked about the sub-message itself", h.same(m, sub))
        return s

    def encode(hd, m):
        calls.append("encode")
        h.oblige("sub-encoder encode() gets the sub-message itself", h.same(m, sub))
        h.oblige("sub-header message_id = the sub-message id", h.attr(hd, "message_id") == sid)
        h.oblige("sub-header message_length = the sub-encoder's size (length agreement for the nested message)",
                 h.attr(hd, "message_length") == s)
        return payload

    enc = h.new(EXT + ":ExtendedMessageEncoder", {sid: h.stub("sub-encoder", size=size, encode=encode)})
    msg = h.new(EXT + ":ExtendedMessage", sub_message=sub)
    sz = h.method(enc, "size", msg)
    h.oblige("size() does not raise", sz.ok)
    if not sz.ok:
        return
    h.oblige("size == 2 + sub-message size", sz.value == 2 + s)
    e = h.method(enc, "encode", at4_header(h, EXTENDED_TYPE, sz.value, to=ADDR_AIRTOUCH_EXTENDED), msg)
    h.oblige("encode() does not raise", e.ok)
    if not e.ok:
        return
    h.oblige("the sub-encoder produced the body exactly once", len(calls) == 1)
    h.oblige("announced size == number of bytes produced", h.length(e.value) == sz.value)
    first, rest = h.split_at(e.value, 2)
    h.oblige("byte1-2 = sub-message id, high byte first (0xFF 0x10 / 0x11 / 0x12 / 0x30 per 4.e)",
             And(first[0] == sid // 256, first[1] == sid % 256))
    h.oblige("the rest is exactly the sub-encoder's output", h.eq(rest, payload))
    h.cover("extended message encoded")


@oset("at4.x1F.encode-unregistered", ["C03"], [EXT + ":ExtendedMessageEncoder.size", EXT + ":ExtendedMessageEncoder.encode"])
def x1f_encode_unregistered(h):
    """A sub-message whose id has no registered sub-encoder: NotImplementedError from size() and encode()."""
    sid = h.int("registered_id", 0, 65535)
    other = h.int("sub_id", 0, 65535)
    h.assume(other != sid, "the sub-message id is not the registered one")

    def never(*a):
        h.fail("the sub-encoder of a different id must not be used")
        return 0

    enc = h.new(EXT + ":ExtendedMessageEncoder", {sid: h.stub("other sub-encoder", size=never, encode=never)})
    msg = h.new(EXT + ":ExtendedMessage", sub_message=_stub_sub_message(h, other))
    h.oblige("size() raises NotImplementedError", h.method(enc, "size", msg).raised("NotImplementedError"))
    h.oblige("encode() raises NotImplementedError",
             h.method(enc, "encode", at4_header(h, EXTENDED_TYPE, 2, to=ADDR_AIRTOUCH_EXTENDED), msg).raised("NotImplementedError"))
    empty = h.new(EXT + ":ExtendedMessageEncoder", {})
    h.oblige("empty map: size() raises NotImplementedError", h.method(empty, "size", msg).raised("NotImplementedError"))


@oset("at4.x1F.decode-parametric", ["C03", "C05", "C17"],
      [EXT + ":ExtendedMessageDecoder.decode", EXT + ":ExtendedMessageDecoder._sub_message_decoder", EXT + ":UnsupportedExtendedDecoder.decode"])
def x1f_decode(h):
    """Arbitrary data of arbitrary length, one registered sub id with an arbitrary (contract-given) sub-decoder.
    Precondition mlen >= 2 is what the receive path guarantees when the data holds the two id bytes (it hands
    the decoder exactly message_length bytes); buffer length and message_length are otherwise independent."""
    buf = h.abytes("data")
    mlen = h.int("message_length", 2, 65535)
    sid = h.int("registered_id", 0, 65535)
    sub = _stub_sub_message(h, sid)
    rem = h.abytes("sub_remaining")
    calls = []

    def decode(b, hd):
        calls.append("decode")
        _, want = h.split_at(buf, 2)
        h.oblige("sub-decoder gets the data after the two id bytes", h.eq(b, want))
        h.oblige("sub-header message_id = the id read from byte1-2 (= the registered id)", h.attr(hd, "message_id") == sid)
        h.oblige("sub-header message_length = header.message_length - 2", h.attr(hd, "message_length") == mlen - 2)
        return h.new(COMMS + ":MessageDecodeResult", message=sub, remaining=rem)

    dec = h.new(EXT + ":ExtendedMessageDecoder", {sid: h.stub("sub-decoder", decode=decode)})
    r = h.method(dec, "decode", buf, at4_header(h, EXTENDED_TYPE, mlen, to=ADDR_CLIENT, frm=ADDR_AIRTOUCH_EXTENDED))
    h.oblige("returns or rejects", only_rejects(h, r))
    if not r.ok:
        h.oblige("rejects (struct.error) only data shorter than the two id bytes", And(r.raised("struct.error"), h.length(buf) < 2))
        return
    h.oblige("accepted only with the two id bytes present", h.length(buf) >= 2)
    h.assume(h.length(buf) >= 2)
    idb, body = h.split_at(buf, 2)
    wire_id = idb[0] * 256 + idb[1]
    m = h.attr(r.value, "message")
    h.oblige("result is an ExtendedMessage", h.isinstance(m, EXT + ":ExtendedMessage"))
    inner = h.attr(m, "sub_message")
    if calls:
        h.oblige("the registered sub-decoder is used only for its own id", wire_id == sid)
        h.oblige("sub-decoder called exactly once", len(calls) == 1)
        h.oblige("the sub-decoder's message is delivered unchanged", h.same(inner, sub))
        h.oblige("the sub-decoder's remaining bytes are passed through", h.eq(h.attr(r.value, "remaining"), rem))
        h.cover("registered sub-message decoded")
        return
    # C17: an unknown sub-type is delivered as an unsupported message carrying its payload unchanged
    h.oblige("the fallback is used only for an unregistered id", wire_id != sid)
    h.oblige("unknown sub-type -> UnsupportedMessage", h.isinstance(inner, COMMS + ":UnsupportedMessage"))
    if not h.isinstance(inner, COMMS + ":UnsupportedMessage"):
        return
    h.oblige("unsupported_id = the id read from byte1-2", h.attr(inner, "unsupported_id") == wire_id)
    h.oblige("raw_data = the first message_length - 2 bytes after the id", h.eq(h.attr(inner, "raw_data"), h.slice(body, 0, mlen - 2)))
    h.oblige("remaining = the rest", h.eq(h.attr(r.value, "remaining"), h.slice(body, mlen - 2)))
    h.cover("unknown sub-type delivered as unsupported")


# ================================ 0xFF10 AC error information (4.e.ii) ===========================
ERR_BOUND = 24  # the length byte allows 255; the symbolic string model needs a concrete byte length


@oset("at4.xFF10.roundtrip.request", ["C03"], [ERR + ":AcErrorInformationEncoder.size", ERR + ":AcErrorInformationEncoder.encode",
                                                ERR + ":AcErrorInformationDecoder.decode"])
def err_roundtrip_request(h):
    """Request: data 0xFF 0x10 [AC number]."""
    msg = h.new(ERR + ":AcErrorInformationRequest", ac_number=h.int("ac_number", 0, 255))
    out = roundtrip_plain(h, ERR + ":AcErrorInformationEncoder", ERR + ":AcErrorInformationDecoder", msg, sub_header(SUB_ERR), SUB_ERR)
    if out is not None:
        items = h.items(out)
        h.oblige("request data after the id is the AC number byte", And(len(items) == 1, items[0] == h.attr(msg, "ac_number") if len(items) == 1 else False))


@oset("at4.xFF10.roundtrip.message", ["C03"], [ERR + ":AcErrorInformationEncoder.size", ERR + ":AcErrorInformationEncoder.encode",
                                                ERR + ":AcErrorInformationDecoder.decode"],
      bounded=f"error string length <= {ERR_BOUND} UTF-8 bytes (the length byte allows 255)")
def err_roundtrip_message(h):
    """error_info is None or a non-empty string (an empty string and None both encode as length 0 and decode
    as None: 'If no error, will be 0'), any UTF-8 text incl. multi-byte and NUL (it is length-prefixed)."""
    n = h.choice("error_bytes", [None] + list(range(1, ERR_BOUND + 1)))
    info = None if n is None else h.string("error_info", n, no_nul=False)
    msg = h.new(ERR + ":AcErrorInformationMessage", ac_number=h.int("ac_number", 0, 255), error_info=info)
    roundtrip_plain(h, ERR + ":AcErrorInformationEncoder", ERR + ":AcErrorInformationDecoder", msg, sub_header(SUB_ERR), SUB_ERR)


@oset("at4.xFF10.roundtrip.message-any-length", ["C03", "C04"], [ERR + ":AcErrorInformationEncoder.size", ERR + ":AcErrorInformationEncoder.encode",
                                                                 ERR + ":AcErrorInformationDecoder.decode"],
      assumptions=["str modelled by its UTF-8 bytes (a symbolic-length buffer); bytes.decode raises exactly on invalid UTF-8"])
def err_roundtrip_any(h):
    from contracts.codec import roundtrip_err_info_any_length
    roundtrip_err_info_any_length(h, ERR, sub_header(SUB_ERR), SUB_ERR)


@oset("at4.xFF10.roundtrip.empty-string", ["C03"], [ERR + ":AcErrorInformationEncoder.size", ERR + ":AcErrorInformationEncoder.encode",
                                                     ERR + ":AcErrorInformationDecoder.decode"])
def err_roundtrip_empty(h):
    """The one normalisation of this codec: error_info == '' is sent as 'no error' and comes back as None."""
    msg = h.new(ERR + ":AcErrorInformationMessage", ac_number=h.int("ac_number", 0, 255), error_info="")
    roundtrip_plain(h, ERR + ":AcErrorInformationEncoder", ERR + ":AcErrorInformationDecoder", msg, sub_header(SUB_ERR), SUB_ERR,
                    expect=h.new(ERR + ":AcErrorInformationMessage", ac_number=h.attr(msg, "ac_number"), error_info=None))


@oset("at4.xFF10.decode-vendor-reading", ["C05", "C17"], [ERR + ":AcErrorInformationDecoder.decode"])
def err_decode(h):
    """Arbitrary data (after the 0xFF 0x10 id) of arbitrary length, unbounded.  Byte3 AC number, Byte4 error info
    length (0: no error), Byte5.. error info string."""
    buf = h.abytes("data")
    mlen = h.int("message_length", 0, 65535)
    r = h.method(h.new(ERR + ":AcErrorInformationDecoder"), "decode", buf, at4_subheader(h, SUB_ERR, mlen))
    h.oblige("returns or rejects", only_rejects(h, r))
    n = h.length(buf)
    if not r.ok:
        # which data may be rejected: missing AC number / length byte, an announced length that exceeds the data
        # (since the fix 'a string length byte larger than the message data was accepted'), text that is not UTF-8
        h.oblige("rejects only with IndexError, DecodeError or UnicodeDecodeError", r.raised("IndexError", "DecodeError", "UnicodeDecodeError"))
        if r.raised("IndexError"):
            h.oblige("IndexError only when the AC number byte or (for a message) the length byte is missing",
                     Or(n < 1, And(n < 2, mlen != 1)))
        elif r.raised("DecodeError"):
            h.assume(n >= 2)
            b, _ = h.split_at(buf, 2)
            h.oblige("DecodeError only for a message whose announced error info length exceeds the data", And(mlen != 1, 2 + b[1] > n))
        elif r.raised("UnicodeDecodeError"):
            h.assume(n >= 2)
            b, _ = h.split_at(buf, 2)
            h.oblige("UnicodeDecodeError only for a non-empty error text that lies wholly inside the data", And(mlen != 1, b[1] > 0, 2 + b[1] <= n))
        return
    m = h.attr(r.value, "message")
    h.oblige("accepted only with the AC number byte present", n >= 1)
    h.assume(n >= 1)
    if h.isinstance(m, ERR + ":AcErrorInformationRequest"):
        b, rest = h.split_at(buf, 1)
        h.oblige("request <=> the data is the AC number only (length 1)", mlen == 1)
        h.oblige("request AC number = byte3", h.attr(m, "ac_number") == b[0])
        h.oblige("request: remaining = what follows", h.eq(h.attr(r.value, "remaining"), rest))
        return
    h.oblige("a message has length other than 1", mlen != 1)
    h.oblige("accepted only with the length byte present", n >= 2)
    h.assume(n >= 2)
    b, body = h.split_at(buf, 2)
    h.oblige("AC number = byte3", h.attr(m, "ac_number") == b[0])
    info = h.attr(m, "error_info")
    if h.is_none(info):
        h.oblige("no error text <=> error info length 0", b[1] == 0)
    else:
        h.oblige("error text present <=> error info length > 0", b[1] > 0)
        txt = h.method(info, "encode")
        h.oblige("error text = the bytes after the length byte, as many as there are of the announced length",
                 And(txt.ok, h.eq(txt.value, h.slice(body, 0, b[1])) if txt.ok else False))
        # C05 "decoded to exactly this reading or rejected": a length byte that points beyond the data is not a reading
        h.oblige("an error info length that exceeds the data is rejected, not truncated silently", 2 + b[1] <= n)
    h.oblige("remaining = what follows the announced string", h.eq(h.attr(r.value, "remaining"), h.slice(body, b[1])))
    h.cover("error information decoded")


# ================================ 0xFF11 AC ability (4.e.i) =====================================

def gen_support_map(h, name, cls, bits):
    """Mapping the decoder produces: one symbolic bool per documented bit; UNCHANGED ('keep') is not on the
    wire and always True ('Always supported' in the module), so it is part of the representable domain."""
    m = {h.member(cls, member): h.bool(f"{name}_{member}") for member in bits}
    m[h.member(cls, "UNCHANGED")] = True
    return m


def gen_ac_ability(h, i, name_bytes, with_groups):
    """One AC ability record: every byte-sized field over its whole wire range, a name of exactly name_bytes
    UTF-8 bytes (<= 16, no NUL: it is a C string), groups = None (22-byte layout, console < 1.2.3) or an
    arbitrary subset of the 16 groups (24-byte layout)."""
    return h.new(ABL + ":AcAbility",
                 ac_number=h.int(f"a{i}_number", 0, 255),
                 ac_name=h.string(f"a{i}_name", name_bytes),
                 ac_mode_support=gen_support_map(h, f"a{i}_mode", X2C + ":AcModeControl", ABILITY_MODE_BIT),
                 fan_speed_support=gen_support_map(h, f"a{i}_fan", X2C + ":AcFanSpeedControl", ABILITY_FAN_BIT),
                 min_set_point=h.int(f"a{i}_min", 0, 255), max_set_point=h.int(f"a{i}_max", 0, 255),
                 groups=h.subset(f"a{i}_groups", range(16)) if with_groups else None,
                 start_group=h.int(f"a{i}_start", 0, 255), group_count=h.int(f"a{i}_count", 0, 255))


ABL_FNS = [ABL + ":AcAbilityEncoder.size", ABL + ":AcAbilityEncoder.encode", ABL + ":AcAbilityDecoder.decode",
           ABL + ":AcAbilityEncoder._encode_mode_support", ABL + ":AcAbilityEncoder._encode_fan_speed_support",
           ABL + ":AcAbilityEncoder._encode_group_display", ABL + ":AcAbilityDecoder._decode_ac_mode_support",
           ABL + ":AcAbilityDecoder._decode_fan_speed_support", ABL + ":AcAbilityDecoder._decode_group_display",
           "pyairtouch.comms.encoding:decode_c_string", "pyairtouch.comms.encoding:bool_to_bit", "pyairtouch.comms.encoding:bit_to_bool"]


@oset("at4.xFF11.roundtrip.request", ["C03"], ABL_FNS[:3])
def abl_roundtrip_request(h):
    """'data 0xFF 0x11 or (0xFF 0x11 [0-3])': all ACs or one AC."""
    which = h.choice("request", ["ALL", "one"])
    msg = h.new(ABL + ":AcAbilityRequest", ac_number="ALL" if which == "ALL" else h.int("ac_number", 0, 255))
    out = roundtrip_plain(h, ABL + ":AcAbilityEncoder", ABL + ":AcAbilityDecoder", msg, sub_header(SUB_ABILITY), SUB_ABILITY)
    if out is not None:
        items = h.items(out)
        h.oblige("request data after the id: nothing for all ACs, the AC number byte for one",
                 len(items) == 0 if which == "ALL" else And(len(items) == 1, items[0] == h.attr(msg, "ac_number") if len(items) == 1 else False))


@oset("at4.xFF11.roundtrip.one-record", ["C03"], ABL_FNS)
def abl_roundtrip_one(h):
    """One record, every field value, every name length 0..16 bytes (incl. multi-byte UTF-8), both layouts,
    every subset of the 16 groups (symbolic set, no enumeration)."""
    n = h.choice("name_bytes", list(range(AC_NAME_BYTES + 1)))
    g = h.choice("with_groups", [False, True])
    msg = h.new(ABL + ":AcAbilityMessage", [gen_ac_ability(h, 0, n, g)])
    out = roundtrip_plain(h, ABL + ":AcAbilityEncoder", ABL + ":AcAbilityDecoder", msg, sub_header(SUB_ABILITY), SUB_ABILITY)
    if out is not None:
        h.oblige("a record is 24 bytes (following length 22) or 26 bytes (following length 24)", h.length(out) == (26 if g else 24))


_ABL_NAME_LEN = [16, 0, 7, 3]


@oset("at4.xFF11.roundtrip.counts-0-4", ["C03"], ABL_FNS)
def abl_roundtrip_counts(h):
    """0..4 records (the protocol has at most 4 ACs), every mix of 24- and 26-byte records (that is what the
    decoder's cursor depends on), all other fields symbolic; the name length is fixed per slot
    (16, 0, 7, 3 bytes) - every name length is covered by the one-record set."""
    n = h.choice("count", list(range(0, 5)))
    recs = [gen_ac_ability(h, i, _ABL_NAME_LEN[i], h.choice(f"a{i}_with_groups", [False, True])) for i in range(n)]
    msg = h.new(ABL + ":AcAbilityMessage", recs)
    # no record at all is, on the wire, the request for all ACs (data is just 0xFF 0x11)
    roundtrip_plain(h, ABL + ":AcAbilityEncoder", ABL + ":AcAbilityDecoder", msg, sub_header(SUB_ABILITY), SUB_ABILITY,
                    expect=h.new(ABL + ":AcAbilityRequest", ac_number="ALL") if n == 0 else None)


def check_ability_record(h, rec, b, tag=""):
    """Vendor reading (4.e.i, Byte3.. of one AC) of the record bytes b[0..25] against the decoded AcAbility.
    b[24], b[25] (Byte27/28) are only meaningful when the following length b[1] is 24."""
    fl = b[1]
    h.oblige(tag + "AC number = Byte3", h.attr(rec, "ac_number") == b[0])
    name = h.utf8(h.attr(rec, "ac_name"))
    ln = len(name)
    h.oblige(tag + "AC name = Byte5-20 up to the first 0 ('If less than 16 bytes, end with 0')",
             And(ln <= AC_NAME_BYTES, *[name[i] == b[2 + i] for i in range(min(ln, AC_NAME_BYTES))],
                 *[name[i] != 0 for i in range(ln)], True if ln >= AC_NAME_BYTES else b[2 + ln] == 0))
    h.oblige(tag + "start group = Byte21", h.attr(rec, "start_group") == b[18])
    h.oblige(tag + "group count = Byte22", h.attr(rec, "group_count") == b[19])
    modes = h.attr(rec, "ac_mode_support")
    for member, i in ABILITY_MODE_BIT.items():
        v = h.method(modes, "get", h.member(X2C + ":AcModeControl", member))
        h.oblige(tag + f"{member.lower()} mode supported = Byte23 bit{i + 1}", And(v.ok, h.eq(v.value, bit(b[20], i)) if v.ok else False))
    fans = h.attr(rec, "fan_speed_support")
    for member, i in ABILITY_FAN_BIT.items():
        v = h.method(fans, "get", h.member(X2C + ":AcFanSpeedControl", member))
        h.oblige(tag + f"fan speed {member.lower()} supported = Byte24 bit{i + 1}", And(v.ok, h.eq(v.value, bit(b[21], i)) if v.ok else False))
    h.oblige(tag + "minimum set point = Byte25", h.attr(rec, "min_set_point") == b[22])
    h.oblige(tag + "maximum set point = Byte26", h.attr(rec, "max_set_point") == b[23])
    groups = h.attr(rec, "groups")
    if h.is_none(groups):
        # 'If there is no byte27/28, all groups will be displayed': absent is the only faithful value
        h.oblige(tag + "group display absent only when the record has no Byte27/28 (following length < 24)", fl < ABILITY_FOLLOWING_NEW)
    else:
        h.oblige(tag + "group display present only when the record has Byte27/28 (following length >= 24)", fl >= ABILITY_FOLLOWING_NEW)
        # Byte27 bit1..8 = Group1..8, Byte28 bit1..8 = Group9..16, i.e. bit g of Byte27 + 256 * Byte28 is group
        # number g (lemma at4.lemma.bitmap-bytes proves that the two readings are the same)
        e = b[24] + 256 * b[25]
        # one obligation for the 16 rows of the table: it is discharged row by row, each row against the path
        # condition only (16 separate obligations would pile 16 div/mod facts into the later queries)
        h.oblige(tag + "group g (vendor Group g+1) displayed = Byte27 bit g+1 (g < 8) / Byte28 bit g-7 (g >= 8)",
                 And(*[h.eq(h.contains(groups, g), bit(e, g)) for g in range(16)]))


@oset("at4.lemma.bitmap-bytes", ["C05"], [], kind="lemma")
def lemma_bitmap_bytes(h):
    """Bit g of the little-endian 16-bit value Byte27 + 256 * Byte28 is bit (g mod 8) of Byte27 (g < 8) or of
    Byte28 (g >= 8): the form in which check_ability_record states the vendor's group display table."""
    lo, hi = h.int("byte27", 0, 255), h.int("byte28", 0, 255)
    h.oblige("bit g of byte27 + 256 * byte28 = Byte27 bit g+1 (g < 8) / Byte28 bit g-7 (g >= 8), for g = 0..15",
             And(*[h.eq(bit(lo + 256 * hi, g), bit(lo if g < 8 else hi, g % 8)) for g in range(16)]))


def _install_ability_loop(h, buf, mlen):
    """Loop contract for `while offset < header.message_length` in AcAbilityDecoder.decode.  The cursor at the
    head of iteration k is OFF(k) with OFF(0) = 0 and OFF(k+1) = OFF(k) + 2 + (following length byte of record k)
    - the stride the *document* defines ('count of following bytes belong to the ability of this AC').  The loop
    body (since the fix 'AC ability decoders ignored the announced following data length') computes
    next_offset = offset + 2 + following_length, rejects following_length < 22, reads Byte27/28 when
    following_length >= 24 and then sets offset = next_offset; `offset` and the list are the only state carried
    around the loop.  N is the first k with OFF(k) >= message_length (strides are >= 2, so N exists)."""
    import z3
    from pyvc import sym
    from pyvc.sym import SInt
    from pyvc.loops import StateLoop, SpecList
    from pyvc.values import ABytes

    OFF = z3.Function("abl_off", z3.IntSort(), z3.IntSort())
    N = SInt(z3.Int(sym.fresh_name("abl_records")))
    h.path.inputs["xFF11-loop:records"] = N

    def off(k):
        return SInt(OFF(sym.int_t(k)))

    def n_of(it, iterable, entry, env):
        if entry["offset"] != 0 or entry["ac_abilities"] != []:
            raise Exception("loop entry state does not match the contract pattern")
        return N

    def define(it, k, entry):
        if k == "init":
            it.path.assume(off(0) == 0, "definition: OFF(0) = 0")
        elif k is None:
            it.path.assume(And(N >= 0, off(N) >= mlen, off(N) >= 0), "definition: N is the first k with OFF(k) >= message_length")
        else:
            fl = buf.at(off(k) + 1)
            it.path.assume(And(off(k) >= 0, off(k) < mlen), "definition: OFF(k) < message_length for k < N")
            it.path.assume(off(k + 1) == off(k) + 2 + fl, "definition: OFF(k+1) = OFF(k) + 2 + following length of record k")

    def at(it, k, entry):
        return {"offset": off(k), "ac_abilities": SpecList("xFF11", k)}

    def check(it, k, entry, after):
        lst = after["ac_abilities"]
        ok = isinstance(lst, SpecList) and len(lst.appended) == 1
        h.oblige("xFF11-loop/exactly one record appended per iteration", ok, kind="loop-preserve")
        if not ok:
            return
        cur = ABytes(buf.arr, buf.off + off(k), buf.ln - off(k), buf.name)
        b = [cur.at(i) for i in range(26)]
        fl = b[1]
        # C05 'record strides announced by the console are honoured', C17 'records longer than the known layout are
        # decoded from their known prefix'.  The body did not raise when we get here, so these two say: every record
        # the loop accepts announces at least the 22 bytes of the oldest layout, and the next record is looked for
        # exactly 2 + Byte4 bytes further - for 22 (24-byte record), 24 (26-byte record) and any longer layout alike.
        h.oblige("xFF11-loop/a following length that cannot hold the known layout (< 22) is rejected", fl >= ABILITY_FOLLOWING_OLD, kind="loop-preserve")
        h.oblige("xFF11-loop/cursor advances by the announced 2 + following length, whatever the layout (22, 24 or longer)",
                 after["offset"] == off(k) + 2 + fl, kind="loop-preserve")
        check_ability_record(h, lst.appended[0], b, "record k: ")

    h.it.loop_hooks[(ABL + ":AcAbilityDecoder.decode", 0)] = StateLoop("xFF11-loop", ["offset", "ac_abilities"], n_of, at, check, define=define)
    return N, off


@oset("at4.xFF11.decode-vendor-reading", ["C05", "C17"], ABL_FNS[2:3] + ABL_FNS[6:],
      assumptions=["ghost cursor function OFF(k) is defined by the document's stride (2 + following length); N exists because strides are >= 2"])
def abl_decode(h):
    """Arbitrary data (after the 0xFF 0x11 id) of arbitrary length and record count: loop contract on the real
    `while offset < message_length` loop, one arbitrary iteration executed on the real loop body."""
    buf = h.abytes("data")
    mlen = h.int("message_length", 0, 65535)
    if h.symbolic:
        N, off = _install_ability_loop(h, buf, mlen)
    r = h.method(h.new(ABL + ":AcAbilityDecoder"), "decode", buf, at4_subheader(h, SUB_ABILITY, mlen))
    h.oblige("returns or rejects", only_rejects(h, r))
    if not r.ok:
        return
    m = h.attr(r.value, "message")
    if h.isinstance(m, ABL + ":AcAbilityRequest"):
        who = h.attr(m, "ac_number")
        if isinstance(who, str):
            h.oblige("request for all ACs <=> no data after the id", And(who == "ALL", mlen == 0))
        else:
            h.oblige("request for one AC <=> exactly one data byte", mlen == 1)
            h.assume(h.length(buf) >= 1)
            h.oblige("requested AC = that byte", who == h.split_at(buf, 1)[0][0])
        return
    h.oblige("an ability message has at least one record (length >= 2)", mlen >= 2)
    recs = h.attr(m, "ac_abilities")
    if h.symbolic:
        from pyvc.loops import SpecList
        h.oblige("decoded list is exactly the N records the announced strides define",
                 And(isinstance(recs, SpecList), h.eq(recs.n, N) if isinstance(recs, SpecList) else False))
        h.oblige("accepted only if the records tile the announced length exactly", off(N) == mlen)
    else:
        recs = h.elems(recs)
        data = list(buf)
        o = 0
        k = 0
        while o < mlen and k < len(recs) and o + 24 <= len(data):
            b = data[o:o + 26] + [0, 0]
            check_ability_record(h, recs[k], b, "record k: ")
            h.oblige("xFF11-loop/a following length that cannot hold the known layout (< 22) is rejected", b[1] >= ABILITY_FOLLOWING_OLD)
            o += 2 + b[1]
            k += 1
        # natively the cursor is not observable: the records found by walking the data with the announced strides
        # must be exactly the decoded ones (each was compared with the bytes at its announced position above)
        h.oblige("xFF11-loop/cursor advances by the announced 2 + following length, whatever the layout (22, 24 or longer)",
                 k == len(recs) and o >= mlen)
        h.oblige("decoded list is exactly the N records the announced strides define", k == len(recs) and o >= mlen)
        h.oblige("accepted only if the records tile the announced length exactly", o == mlen)
    h.oblige("remaining = what follows the announced length", h.eq(h.attr(r.value, "remaining"), h.slice(buf, mlen)))
    h.cover("ability message decoded")


# ================================ 0xFF12 group names (4.e.iii) ===================================
GRP_FNS = [GRP + ":GroupNamesEncoder.size", GRP + ":GroupNamesEncoder.encode", GRP + ":GroupNamesDecoder.decode",
           "pyairtouch.comms.encoding:encode_c_string", "pyairtouch.comms.encoding:decode_c_string"]


def gen_group_names(h, name_lengths):
    """{group number: name}: pairwise distinct group numbers over the whole byte range (the document's are 0-15),
    names of the given UTF-8 byte lengths (<= 8, no NUL: a C string; encode_c_string would truncate a longer one)."""
    nums = [h.int(f"g{i}_number", 0, 255) for i in range(len(name_lengths))]
    for i in range(len(nums)):
        for j in range(i):
            h.assume(nums[i] != nums[j], "keys of a mapping are pairwise distinct")
    return {nums[i]: h.string(f"g{i}_name", name_lengths[i]) for i in range(len(nums))}


@oset("at4.xFF12.roundtrip.request", ["C03"], GRP_FNS[:3])
def grp_roundtrip_request(h):
    """'data 0xFF 0x12 [0-15]': all groups or one group."""
    which = h.choice("request", ["ALL", "one"])
    msg = h.new(GRP + ":GroupNamesRequest", group_number="ALL" if which == "ALL" else h.int("group_number", 0, 255))
    out = roundtrip_plain(h, GRP + ":GroupNamesEncoder", GRP + ":GroupNamesDecoder", msg, sub_header(SUB_NAMES), SUB_NAMES)
    if out is not None:
        items = h.items(out)
        h.oblige("request data after the id: nothing for all groups, the group number byte for one",
                 len(items) == 0 if which == "ALL" else And(len(items) == 1, items[0] == h.attr(msg, "group_number") if len(items) == 1 else False))


@oset("at4.xFF12.roundtrip.one-record", ["C03"], GRP_FNS)
def grp_roundtrip_one(h):
    """One group, any number, every name length 0..8 bytes incl. multi-byte UTF-8."""
    n = h.choice("name_bytes", list(range(GROUP_NAME_BYTES + 1)))
    msg = h.new(GRP + ":GroupNamesMessage", gen_group_names(h, [n]))
    out = roundtrip_plain(h, GRP + ":GroupNamesEncoder", GRP + ":GroupNamesDecoder", msg, sub_header(SUB_NAMES), SUB_NAMES)
    if out is not None:
        h.oblige("a record is 9 bytes", h.length(out) == 9)


@oset("at4.xFF12.roundtrip.counts-0-16", ["C03"], GRP_FNS)
def grp_roundtrip_counts(h):
    """0..16 groups with pairwise distinct symbolic numbers; the name length of slot i is fixed to i mod 9 bytes
    (every length occurs; every length with every content is covered by the one-record set)."""
    n = h.choice("count", list(range(0, 17)))
    msg = h.new(GRP + ":GroupNamesMessage", gen_group_names(h, [i % (GROUP_NAME_BYTES + 1) for i in range(n)]))
    # no group at all is, on the wire, the request for all groups (data is just 0xFF 0x12)
    roundtrip_plain(h, GRP + ":GroupNamesEncoder", GRP + ":GroupNamesDecoder", msg, sub_header(SUB_NAMES), SUB_NAMES,
                    expect=h.new(GRP + ":GroupNamesRequest", group_number="ALL") if n == 0 else None)


def check_group_name_store(h, key, value, b, tag=""):
    """Vendor reading of one 9-byte record b: Byte3 group number, Byte4-11 name, 'end with 0'."""
    h.oblige(tag + "group number = Byte3", key == b[0])
    name = h.utf8(value)
    ln = len(name)
    h.oblige(tag + "group name = Byte4-11 up to the first 0",
             And(ln <= GROUP_NAME_BYTES, *[name[i] == b[1 + i] for i in range(min(ln, GROUP_NAME_BYTES))],
                 *[name[i] != 0 for i in range(ln)], True if ln >= GROUP_NAME_BYTES else b[1 + ln] == 0))


def _install_group_names_loop(h, mlen):
    """Loop contract for `for _ in range(message_length // 9)`: at iteration k the cursor is the entry buffer
    advanced by 9k and the mapping is the result of the first k stores (SpecDict); the real body, run for an
    arbitrary k, must perform exactly one store - the vendor reading of the 9 bytes at the cursor - and advance
    the cursor by 9."""
    from pyvc.loops import StateLoop, SpecDict
    from pyvc.values import ABytes
    from pyvc import sym as S

    def n_of(it, iterable, entry, env):
        return mlen // 9

    def at(it, k, entry):
        b0 = entry["buffer"]
        if not isinstance(b0, ABytes) or entry["group_names"] != {}:
            raise Exception("loop entry state does not match the contract pattern")
        return {"buffer": ABytes(b0.arr, b0.off + 9 * k, b0.ln - 9 * k, b0.name), "group_names": SpecDict("xFF12", k)}

    def check(it, k, entry, after):
        b0, nb, d = entry["buffer"], after["buffer"], after["group_names"]
        ok = isinstance(nb, ABytes) and nb.same_base(b0) and isinstance(d, SpecDict) and len(d.stores) == 1
        h.oblige("xFF12-loop/exactly one store per record and the cursor is a view of the same buffer", ok, kind="loop-preserve")
        if not ok:
            return
        h.oblige("xFF12-loop/cursor advances by the 9-byte record size",
                 And(S.eq(nb.off, b0.off + 9 * (k + 1)), S.eq(nb.ln, b0.ln - 9 * (k + 1))), kind="loop-preserve")
        cur = ABytes(b0.arr, b0.off + 9 * k, b0.ln - 9 * k, b0.name)
        check_group_name_store(h, d.stores[0][0], d.stores[0][1], [cur.at(i) for i in range(9)], "record k: ")

    h.it.loop_hooks[(GRP + ":GroupNamesDecoder.decode", 0)] = StateLoop("xFF12-loop", ["buffer", "group_names"], n_of, at, check)


@oset("at4.xFF12.decode-vendor-reading", ["C05", "C17"], [GRP + ":GroupNamesDecoder.decode", "pyairtouch.comms.encoding:decode_c_string"])
def grp_decode(h):
    """Arbitrary data (after the 0xFF 0x12 id), arbitrary length and record count (loop contract).  The decoded
    mapping is the result of storing, in wire order, name under group number for every 9-byte record; the
    document is silent about a group number that occurs twice (the later record wins, accepted)."""
    buf = h.abytes("data")
    mlen = h.int("message_length", 0, 65535)
    # the decoder slices (a short buffer would be read as a truncated record, not rejected), so it relies on its
    # caller: socket._read_one_message reads exactly header.message_length bytes and the 0x1F wrapper passes
    # data[2:] with message_length - 2 (at4.x1F.decode-parametric)
    h.assume(h.length(buf) >= mlen, "the receive path hands a sub-decoder at least the announced number of bytes")
    if h.symbolic:
        _install_group_names_loop(h, mlen)
    r = h.method(h.new(GRP + ":GroupNamesDecoder"), "decode", buf, at4_subheader(h, SUB_NAMES, mlen))
    h.oblige("returns or rejects", only_rejects(h, r))
    if not r.ok:
        return
    m = h.attr(r.value, "message")
    if h.isinstance(m, GRP + ":GroupNamesRequest"):
        who = h.attr(m, "group_number")
        if isinstance(who, str):
            h.oblige("request for all groups <=> no data after the id", And(who == "ALL", mlen == 0))
        else:
            h.oblige("request for one group <=> exactly one data byte", mlen == 1)
            h.assume(h.length(buf) >= 1)
            h.oblige("requested group = that byte", who == h.split_at(buf, 1)[0][0])
        return
    h.oblige("a names message has length a non-zero multiple of 9", And(mlen % 9 == 0, mlen > 0))
    names = h.attr(m, "group_names")
    if h.symbolic:
        from pyvc.loops import SpecDict
        h.oblige("decoded mapping is exactly one store per 9 bytes",
                 And(isinstance(names, SpecDict), names.n == mlen // 9 if isinstance(names, SpecDict) else False,
                     len(names.stores) == 0 if isinstance(names, SpecDict) else False))
        h.oblige("remaining = what follows the announced length", h.length(h.attr(r.value, "remaining")) == h.length(buf) - mlen)
    else:
        want = {}
        data = list(buf)
        for k in range(mlen // 9):
            b = data[9 * k:9 * k + 9]
            raw = bytes(b[1:]).split(b"\0", 1)[0]
            want[b[0]] = raw.decode("utf-8")
        h.oblige("decoded mapping is exactly one store per 9 bytes", dict(names) == want)
        for key, value in names.items():
            k = max(i for i in range(mlen // 9) if data[9 * i] == key)
            check_group_name_store(h, key, value, data[9 * k:9 * k + 9], "record k: ")
        h.oblige("remaining = what follows the announced length", h.length(h.attr(r.value, "remaining")) == h.length(buf) - mlen)
    h.cover("group names decoded")


# ================================ 0xFF20 quick timer (repo-derived oracle) ======================
# Not in the vendor document.  Oracle: module docstring of x1FFF20_quick_timer.py ("turning an AC on/off a set
# number of hours/minutes in the future", "the resulting timer will be modulo 24 hours") and the vectors of
# tests/at4/comms/test_x1FFF20_quick_timer.py: data = [ac number, 0 off-timer / 1 on-timer, hours, minutes],
# e.g. (ac 1, OFF, 2 h 3 min) -> 01 00 02 03 and (ac 1, ON, 248 h 59 min) -> 01 01 08 3b.
QUICK_TIMER_TYPE_CODE = {"OFF_TIMER": 0, "ON_TIMER": 1}
QTM_ASSUME = ["repo-derived oracle: the quick timer message is not in the vendor document (reverse engineered by the package author)",
              "floats are modelled as exact reals: timedelta.total_seconds() of a whole number of minutes below 2**53 s is exact"]
QTM_FNS = [QTM + ":QuickTimerEncoder.size", QTM + ":QuickTimerEncoder.encode", QTM + ":QuickTimerEncoder._encode_duration",
           QTM + ":QuickTimerEncoder._encode_timer_type", QTM + ":QuickTimerDecoder.decode",
           QTM + ":QuickTimerDecoder._decode_timer_type", QTM + ":QuickTimerDecoder._decode_duration"]


@oset("at4.xFF20.roundtrip", ["C03"], QTM_FNS, assumptions=QTM_ASSUME)
def qtm_roundtrip(h):
    """Repo-derived oracle.  Domain: what the wire can carry without normalisation - a whole number of minutes
    below 24 h ('Resolution is to the nearest minute', hours are sent modulo 24), AC number one byte."""
    minutes = h.int("duration_minutes", 0, 24 * 60 - 1)
    msg = h.new(QTM + ":QuickTimerMessage", ac_number=h.int("ac_number", 0, 255),
                timer_type=h.enum("timer_type", QTM + ":TimerType"), duration=h.new("datetime:timedelta", minutes=minutes))
    roundtrip_plain(h, QTM + ":QuickTimerEncoder", QTM + ":QuickTimerDecoder", msg, sub_header(SUB_QUICK_TIMER), SUB_QUICK_TIMER)


@oset("at4.xFF20.encode-meaning", ["C04"], QTM_FNS[:4], assumptions=QTM_ASSUME)
def qtm_encode(h):
    """Repo-derived oracle.  Any duration that is a whole number of minutes (up to ~19 years, far beyond the 255 h
    the docstring discusses): byte1 AC number, byte2 timer type code, byte3 hours modulo 24, byte4 minutes.
    (Durations with a seconds part: the field docstring says 'nearest minute', the encoder truncates; the
    two agree on whole minutes, which is the domain stated here.)"""
    total = h.int("duration_minutes", 0, 10_000_000)
    msg = h.new(QTM + ":QuickTimerMessage", ac_number=h.int("ac_number", 0, 255),
                timer_type=h.enum("timer_type", QTM + ":TimerType"), duration=h.new("datetime:timedelta", minutes=total))
    enc = h.new(QTM + ":QuickTimerEncoder")
    sz = h.method(enc, "size", msg)
    r = h.method(enc, "encode", at4_subheader(h, SUB_QUICK_TIMER, 4), msg)
    h.oblige("size and encode do not raise", And(sz.ok, r.ok))
    if not (sz.ok and r.ok):
        return
    b = h.items(r.value)
    h.oblige("4 bytes of data, as announced by size()", And(len(b) == 4, h.eq(sz.value, 4)))
    if len(b) != 4:
        return
    h.oblige("byte1 = AC number", b[0] == h.attr(msg, "ac_number"))
    h.oblige("byte2 = timer type (0 off-timer, 1 on-timer)",
             b[1] == h.enum_code(h.attr(msg, "timer_type"), QTM + ":TimerType", QUICK_TIMER_TYPE_CODE))
    h.oblige("byte3 = whole hours modulo 24", b[2] == (total // 60) % 24)
    h.oblige("byte4 = remaining minutes", b[3] == total % 60)
    h.cover("quick timer encoded")


@oset("at4.xFF20.decode-reading", ["C05", "C17"], QTM_FNS[4:], assumptions=QTM_ASSUME[:1])
def qtm_decode(h):
    """Repo-derived oracle.  Arbitrary data of arbitrary length: fewer than 4 bytes or an unknown timer type code
    are rejected, never read as another timer."""
    buf = h.abytes("data")
    r = h.method(h.new(QTM + ":QuickTimerDecoder"), "decode", buf, at4_subheader(h, SUB_QUICK_TIMER, h.int("message_length", 0, 65535)))
    h.oblige("returns or rejects", only_rejects(h, r))
    if not r.ok:
        return
    h.oblige("accepted only with 4 data bytes", h.length(buf) >= 4)
    h.assume(h.length(buf) >= 4)
    b, rest = h.split_at(buf, 4)
    m = h.attr(r.value, "message")
    h.oblige("AC number = byte1", h.attr(m, "ac_number") == b[0])
    h.oblige("timer type = byte2 (0 off-timer, 1 on-timer), any other code rejected",
             h.enum_code(h.attr(m, "timer_type"), QTM + ":TimerType", QUICK_TIMER_TYPE_CODE) == b[1])
    h.oblige("duration = byte3 hours + byte4 minutes",
             h.eq(h.attr(m, "duration"), h.new("datetime:timedelta", minutes=b[2] * 60 + b[3])))
    h.oblige("remaining = what follows the 4 bytes", h.eq(h.attr(r.value, "remaining"), rest))
    h.cover("quick timer decoded")


# ================================ 0xFF30 console version (4.e.iv) ================================
VER_FNS = [VER + ":ConsoleVersionEncoder.size", VER + ":ConsoleVersionEncoder.encode", VER + ":ConsoleVersionDecoder.decode"]
VER_STR_BOUND = 6       # bytes per version string in the round trip ('1.3.3' is 5)
VER_PAYLOAD_BOUND = 9   # data bytes after the id in the decoder reading


@oset("at4.xFF30.roundtrip.request", ["C03"], VER_FNS)
def ver_roundtrip_request(h):
    """'data 0xFF 0x30': no further data."""
    out = roundtrip_plain(h, VER + ":ConsoleVersionEncoder", VER + ":ConsoleVersionDecoder", h.new(VER + ":ConsoleVersionRequest"),
                          sub_header(SUB_VERSION), SUB_VERSION)
    if out is not None:
        h.oblige("no data after the id", h.length(out) == 0)


@oset("at4.xFF30.roundtrip.message", ["C03"], VER_FNS,
      bounded=f"1..2 version strings of 0..{VER_STR_BOUND} UTF-8 bytes each (the length byte allows 255 in total)")
def ver_roundtrip_message(h):
    """One or two consoles ('Two consoles separated by |'); a version string is any UTF-8 text without the
    separator byte 0x7C (multi-byte sequences never contain 0x7C, so that is 'without the | character')."""
    count = h.choice("consoles", [1, 2])
    versions = []
    for i in range(count):
        n = h.choice(f"v{i}_bytes", list(range(VER_STR_BOUND + 1)))
        versions.append(h.string(f"v{i}", n, no_nul=False, exclude_bytes=(VERSION_SEPARATOR,)))
    msg = h.new(VER + ":ConsoleVersionMessage", update_available=h.bool("update_available"), versions=versions)
    out = roundtrip_plain(h, VER + ":ConsoleVersionEncoder", VER + ":ConsoleVersionDecoder", msg, sub_header(SUB_VERSION), SUB_VERSION)
    if out is not None:
        b = h.items(out)
        h.oblige("Byte3 update sign (0 latest, other: new version available), Byte4 version string length",
                 And(len(b) >= 2, ite(h.attr(msg, "update_available"), b[0] != 0, b[0] == 0) if len(b) >= 2 else False,
                     b[1] == len(b) - 2 if len(b) >= 2 else False))


@oset("at4.xFF30.decode-vendor-reading", ["C05", "C17"], VER_FNS[2:],
      bounded=f"data of every concrete length 0..{VER_PAYLOAD_BOUND} bytes after the id (version text <= {VER_PAYLOAD_BOUND - 2} bytes)")
def ver_decode(h):
    """Arbitrary data of every length up to the bound.  Byte3 update sign, Byte4 version string length, Byte5..
    versions separated by '|'."""
    n = h.choice("data_bytes", list(range(VER_PAYLOAD_BOUND + 1)))
    buf = h.bytes("data", n)
    mlen = h.int("message_length", 0, 65535)
    r = h.method(h.new(VER + ":ConsoleVersionDecoder"), "decode", buf, at4_subheader(h, SUB_VERSION, mlen))
    h.oblige("returns or rejects", only_rejects(h, r))
    if not r.ok:
        # which data may be rejected: missing update sign / length byte, an announced length that exceeds the data
        # (since the fix 'a string length byte larger than the message data was accepted'), text that is not UTF-8
        h.oblige("rejects only with IndexError, DecodeError or UnicodeDecodeError", r.raised("IndexError", "DecodeError", "UnicodeDecodeError"))
        raw = h.items(buf)
        if r.raised("IndexError"):
            h.oblige("IndexError only when the update sign or the length byte is missing", And(mlen != 0, n < 2))
        elif r.raised("DecodeError"):
            h.oblige("DecodeError only when the announced version string length exceeds the data",
                     And(mlen != 0, n >= 2, 2 + raw[1] > n if n >= 2 else False))
        elif r.raised("UnicodeDecodeError"):
            h.oblige("UnicodeDecodeError only for a version text that lies wholly inside the data",
                     And(mlen != 0, n >= 2, 2 + raw[1] <= n if n >= 2 else False))
        return
    m = h.attr(r.value, "message")
    if h.isinstance(m, VER + ":ConsoleVersionRequest"):
        h.oblige("request <=> no data after the id", mlen == 0)
        return
    h.oblige("a version message has data", mlen != 0)
    h.oblige("accepted only with the update sign and the length byte present", n >= 2)
    if n < 2:
        return
    b = h.items(buf)
    h.oblige("update available <=> Byte3 is not 0", h.eq(h.attr(m, "update_available"), b[0] != 0))
    vs = h.elems(h.attr(m, "versions"))
    joined = []
    for i, v in enumerate(vs):
        u = h.utf8(v)
        h.oblige("no version string contains the separator", And(*[x != VERSION_SEPARATOR for x in u]))
        joined += ([VERSION_SEPARATOR] if i else []) + u
    text = b[2:]
    k = len(joined)
    h.oblige("versions joined by '|' = the bytes after the length byte, as many as there are of the announced length",
             And(k <= len(text), *[joined[i] == text[i] for i in range(min(k, len(text)))], Or(b[1] == k, And(b[1] > k, k == len(text)))))
    h.oblige("a version string length that exceeds the data is rejected, not truncated silently", 2 + b[1] <= n)
    h.oblige("remaining = what follows the announced string", h.eq(h.attr(r.value, "remaining"), h.mkbytes(text[k:])))
    h.cover("console version decoded")


# ================================ 0x36 AC timer control / 0x37 AC timer status (repo-derived oracle) ==========
# Not in the vendor document.  Oracle: module docstrings of x37_ac_timer_status.py / x36_ac_timer_ctrl.py and
# tests/at4/comms/test_x37_ac_timer_status.py: four 8-byte slots with implicit AC numbering (slot i = AC i);
# slot = on-timer (2 bytes), off-timer (2 bytes), 4 bytes padding (vector: 82 03 84 05 00 00 00 00 = on 02:03
# disabled, off 04:05 disabled); timer byte1 bit8 = disabled, bit5-1 = hour,
# timer byte2 bit6-1 = minute.  "Any ACs that are not included in the initial message will be left zeroed out."
TMR_ASSUME = ["repo-derived oracle: the AC timer messages 0x36 / 0x37 are not in the vendor document (reverse engineered by the package author)"]
TMR_SLOT = 8
X37_FNS = [X37 + ":AcTimerStatusEncoder.size", X37 + ":AcTimerStatusEncoder.encode", X37 + ":AcTimerStatusEncoder._pack_timer_state",
           X37 + ":AcTimerStatusDecoder.decode", X37 + ":AcTimerStatusDecoder._decode_timer_state"]
X36_FNS = X37_FNS + [X36 + ":AcTimerControlDecoder.decode"]
_AC_ORDERS = [()] + [p for n in range(1, 5) for p in __import__("itertools").permutations(range(4), n)]


def gen_timer_state(h, name):
    """Whole wire range of the fields: hour 5 bits (a time of day uses 0..23), minute 6 bits (0..59)."""
    return h.new(X37 + ":AcTimerState", disabled=h.bool(name + "_disabled"), hour=h.int(name + "_hour", 0, 31), minute=h.int(name + "_minute", 0, 63))


def zero_timer_state(h):
    return h.new(X37 + ":AcTimerState", disabled=False, hour=0, minute=0)


def gen_timer_entries(h):
    """0..4 entries with pairwise distinct AC numbers 0..3 in any order (65 shapes), every timer field symbolic.
    Returns (entries, normal form): the four-slot list in AC order with all-zero timers for the missing ACs."""
    order = h.choice("ac_numbers", _AC_ORDERS)
    entries = {ac: h.new(X37 + ":AcTimerStatusData", ac_number=ac, on_timer=gen_timer_state(h, f"ac{ac}_on"),
                         off_timer=gen_timer_state(h, f"ac{ac}_off")) for ac in order}
    normal = [entries[ac] if ac in entries else
              h.new(X37 + ":AcTimerStatusData", ac_number=ac, on_timer=zero_timer_state(h), off_timer=zero_timer_state(h))
              for ac in range(4)]
    return [entries[ac] for ac in order], normal, order


def timer_roundtrip(h, msg_cls, dec_cls, message_id):
    entries, normal, order = gen_timer_entries(h)
    msg = h.new(msg_cls, ac_timer_status=entries)
    if order == (0, 1, 2, 3):
        expect = None  # four entries 0..3 in order: plain equality
    else:
        # the encoder always emits four slots with implicit numbering: decode(encode(m)) == normalise(m)
        expect = h.new(msg_cls, ac_timer_status=normal)
        h.oblige("normal form has the same four-slot length whatever the message holds", len(normal) == 4)
    out = roundtrip_plain(h, X37 + ":AcTimerStatusEncoder", dec_cls, msg, at4_header, message_id, expect=expect)
    if out is not None:
        h.oblige("always 4 slots of 8 bytes", h.length(out) == 4 * TMR_SLOT)


@oset("at4.x37.roundtrip.request", ["C03"], X37_FNS, assumptions=TMR_ASSUME)
def x37_roundtrip_request(h):
    """Repo-derived oracle: the status request has no data."""
    out = roundtrip_plain(h, X37 + ":AcTimerStatusEncoder", X37 + ":AcTimerStatusDecoder", h.new(X37 + ":AcTimerStatusRequest"), at4_header, TYPE_TIMER_STATUS)
    if out is not None:
        h.oblige("no data", h.length(out) == 0)


@oset("at4.x37.roundtrip.message", ["C03"], X37_FNS, assumptions=TMR_ASSUME)
def x37_roundtrip_message(h):
    """Repo-derived oracle.  decode(encode(m)) == normalise(m) (== m for four entries 0..3 in order)."""
    timer_roundtrip(h, X37 + ":AcTimerStatusMessage", X37 + ":AcTimerStatusDecoder", TYPE_TIMER_STATUS)


@oset("at4.x36.roundtrip.message", ["C03"], X36_FNS, assumptions=TMR_ASSUME)
def x36_roundtrip_message(h):
    """Repo-derived oracle.  The control message shares the status encoder and wraps the status decoder."""
    timer_roundtrip(h, X36 + ":AcTimerControlMessage", X36 + ":AcTimerControlDecoder", TYPE_TIMER_CTRL)


def timer_wire_meaning(h, state, b1, b2, tag):
    h.oblige(tag + "byte1 bit8 = disabled", h.eq(h.attr(state, "disabled"), b1 // 128 == 1))
    h.oblige(tag + "byte1 bit5-1 = hour", h.attr(state, "hour") == b1 % 32)
    h.oblige(tag + "byte2 bit6-1 = minute", h.attr(state, "minute") == b2 % 64)


@oset("at4.x36.encode-meaning", ["C04"], X37_FNS[:3], assumptions=TMR_ASSUME)
def x36_encode(h):
    """Repo-derived oracle (C04: 0x36 is the command that arms / disarms the timers).  Slot i carries the entry
    whose ac_number is i, the slots of ACs that are not in the message are all zero, padding is zero, and
    the unused bits (byte1 bit7-6, byte2 bit8-7) are zero."""
    entries, normal, order = gen_timer_entries(h)
    msg = h.new(X36 + ":AcTimerControlMessage", ac_timer_status=entries)
    r = h.method(h.new(X36 + ":AcTimerControlEncoder"), "encode", at4_header(h, TYPE_TIMER_CTRL, 4 * TMR_SLOT), msg)
    h.oblige("encode does not raise", r.ok)
    if not r.ok:
        return
    b = h.items(r.value)
    h.oblige("32 bytes: 4 slots of 8", len(b) == 4 * TMR_SLOT)
    if len(b) != 4 * TMR_SLOT:
        return
    for ac in range(4):
        s = b[TMR_SLOT * ac:TMR_SLOT * (ac + 1)]
        tag = f"slot {ac}: "
        if ac in order:
            timer_wire_meaning(h, h.attr(normal[ac], "on_timer"), s[0], s[1], tag + "on-timer ")
            timer_wire_meaning(h, h.attr(normal[ac], "off_timer"), s[2], s[3], tag + "off-timer ")
            h.oblige(tag + "unused bits and padding are zero",
                     And((s[0] // 32) % 4 == 0, s[1] // 64 == 0, (s[2] // 32) % 4 == 0, s[3] // 64 == 0, *[x == 0 for x in s[4:]]))
        else:
            h.oblige(tag + "an AC that is not in the message is sent as all zero", And(*[x == 0 for x in s]))
    h.cover("timer control encoded")


def check_timer_record(h, rec, b, k, tag=""):
    h.oblige(tag + "AC number = slot index", h.attr(rec, "ac_number") == k)
    timer_wire_meaning(h, h.attr(rec, "on_timer"), b[0], b[1], tag + "on-timer ")
    timer_wire_meaning(h, h.attr(rec, "off_timer"), b[2], b[3], tag + "off-timer ")


def _install_timer_loop(h, buf, mlen):
    """Loop contract for `for ac_number in range(message_length // 8)` (the buffer is not advanced: slot k is
    read at offset 8 k)."""
    from pyvc.loops import StateLoop, SpecList
    from pyvc.values import ABytes

    def n_of(it, iterable, entry, env):
        if entry["ac_timer_status"] != []:
            raise Exception("loop entry state does not match the contract pattern")
        return mlen // TMR_SLOT

    def at(it, k, entry):
        return {"ac_timer_status": SpecList("x37", k)}

    def check(it, k, entry, after):
        lst = after["ac_timer_status"]
        ok = isinstance(lst, SpecList) and len(lst.appended) == 1
        h.oblige("x37-loop/exactly one record appended per slot", ok, kind="loop-preserve")
        if not ok:
            return
        cur = ABytes(buf.arr, buf.off + TMR_SLOT * k, buf.ln - TMR_SLOT * k, buf.name)
        check_timer_record(h, lst.appended[0], [cur.at(i) for i in range(4)], k, "slot k: ")

    h.it.loop_hooks[(X37 + ":AcTimerStatusDecoder.decode", 0)] = StateLoop("x37-loop", ["ac_timer_status"], n_of, at, check)


def timer_decode_reading(h, dec_cls, msg_cls, message_id, request_cls):
    buf = h.abytes("payload")
    mlen = h.int("message_length", 0, 65535)
    if h.symbolic:
        _install_timer_loop(h, buf, mlen)
    r = h.method(h.new(dec_cls), "decode", buf, at4_header(h, message_id, mlen))
    h.oblige("returns or rejects", only_rejects(h, r))
    if not r.ok:
        return
    m = h.attr(r.value, "message")
    if request_cls is not None and h.isinstance(m, request_cls):
        h.oblige("request <=> data length 0", mlen == 0)
        return
    h.oblige("result is the message class of this type", h.isinstance(m, msg_cls))
    h.oblige("a timer message has length a non-zero multiple of 8", And(mlen % TMR_SLOT == 0, mlen > 0))
    recs = h.attr(m, "ac_timer_status")
    if h.symbolic:
        from pyvc.loops import SpecList
        h.oblige("decoded list is exactly one record per 8-byte slot",
                 And(isinstance(recs, SpecList), recs.n == mlen // TMR_SLOT if isinstance(recs, SpecList) else False,
                     len(recs.appended) == 0 if isinstance(recs, SpecList) else False))
    else:
        recs = h.elems(recs)
        h.oblige("decoded list is exactly one record per 8-byte slot", len(recs) == mlen // TMR_SLOT)
        for k, rec in enumerate(recs):
            check_timer_record(h, rec, list(buf[TMR_SLOT * k:TMR_SLOT * k + 4]), k, "slot k: ")
    h.oblige("remaining = what follows the announced length", h.eq(h.attr(r.value, "remaining"), h.slice(buf, mlen)))
    h.cover("timer message decoded")


@oset("at4.x37.decode-reading", ["C05", "C17"], X37_FNS[3:], assumptions=TMR_ASSUME)
def x37_decode(h):
    """Repo-derived oracle.  Arbitrary payload, arbitrary length and slot count (loop contract)."""
    timer_decode_reading(h, X37 + ":AcTimerStatusDecoder", X37 + ":AcTimerStatusMessage", TYPE_TIMER_STATUS, X37 + ":AcTimerStatusRequest")


@oset("at4.x36.decode-reading", ["C05", "C17"], X36_FNS[3:], assumptions=TMR_ASSUME)
def x36_decode(h):
    """Repo-derived oracle.  Same reading through the control decoder; an empty payload (the status *request*)
    is not a control message and is rejected."""
    timer_decode_reading(h, X36 + ":AcTimerControlDecoder", X36 + ":AcTimerControlMessage", TYPE_TIMER_CTRL, None)


# ================================ nested round trip through the registered 0x1F wrapper =======================

@oset("at4.x1F.roundtrip.nested", ["C03", "C04"],
      [EXT + ":ExtendedMessageEncoder.size", EXT + ":ExtendedMessageEncoder.encode", EXT + ":ExtendedMessageDecoder.decode", REG + ":INSTANCE"])
def x1f_nested_roundtrip(h):
    """The composition at4.x1F.*-parametric + per-sub-message round trips, exercised end to end on the *registered*
    wrapper instances with one message of every registered sub-type (the requests a client sends, and the
    quick-timer command with symbolic fields): size == bytes produced, id bytes per 4.e, decode returns the same
    ExtendedMessage with nothing left over."""
    which = h.choice("sub_message", ["error-request", "ability-request-all", "ability-request-one", "names-request-all",
                                     "names-request-one", "quick-timer", "version-request"])
    if which == "error-request":
        sub, sid = h.new(ERR + ":AcErrorInformationRequest", ac_number=h.int("ac_number", 0, 255)), SUB_ERR
    elif which == "ability-request-all":
        sub, sid = h.new(ABL + ":AcAbilityRequest", ac_number="ALL"), SUB_ABILITY
    elif which == "ability-request-one":
        sub, sid = h.new(ABL + ":AcAbilityRequest", ac_number=h.int("ac_number", 0, 255)), SUB_ABILITY
    elif which == "names-request-all":
        sub, sid = h.new(GRP + ":GroupNamesRequest", group_number="ALL"), SUB_NAMES
    elif which == "names-request-one":
        sub, sid = h.new(GRP + ":GroupNamesRequest", group_number=h.int("group_number", 0, 255)), SUB_NAMES
    elif which == "quick-timer":
        sub = h.new(QTM + ":QuickTimerMessage", ac_number=h.int("ac_number", 0, 255), timer_type=h.enum("timer_type", QTM + ":TimerType"),
                    duration=h.new("datetime:timedelta", minutes=h.int("duration_minutes", 0, 24 * 60 - 1)))
        sid = SUB_QUICK_TIMER
    else:
        sub, sid = h.new(VER + ":ConsoleVersionRequest"), SUB_VERSION
    msg = h.new(EXT + ":ExtendedMessage", sub_message=sub)
    enc, dec = h.get(REG + ":_extended_encoder"), h.get(REG + ":_extended_decoder")
    sz = h.method(enc, "size", msg)
    h.oblige("size() does not raise", sz.ok)
    if not sz.ok:
        return
    fac = h.raw(REG + ":HeaderFactory", _next_packet_id=h.int("next_packet_id", 0, 255))
    hd = h.method(fac, "create_from_message", msg, sz.value)
    h.oblige("header created, addressed 0x90 0xb0 with type 0x1F and the announced length",
             And(hd.ok, *([h.attr(hd.value, "to_address") == ADDR_AIRTOUCH_EXTENDED, h.attr(hd.value, "from_address") == ADDR_CLIENT,
                           h.attr(hd.value, "message_id") == EXTENDED_TYPE, h.eq(h.attr(hd.value, "message_length"), sz.value)] if hd.ok else [False])))
    if not hd.ok:
        return
    e = h.method(enc, "encode", hd.value, msg)
    h.oblige("encode() does not raise", e.ok)
    if not e.ok:
        return
    out = h.items(e.value)
    h.oblige("announced size == number of data bytes produced", h.eq(len(out), sz.value))
    h.oblige("data starts with the documented sub-type id", And(len(out) >= 2, out[0] == sid // 256 if len(out) >= 2 else False,
                                                                  out[1] == sid % 256 if len(out) >= 2 else False))
    d = h.method(dec, "decode", e.value, hd.value)
    h.oblige("decode() accepts the encoder's output", d.ok)
    if not d.ok:
        return
    h.oblige("decoded message equals the original", h.eq(h.attr(d.value, "message"), msg))
    h.oblige("nothing left over", h.length(h.attr(d.value, "remaining")) == 0)
    h.oblige("assert_complete passes", h.method(d.value, "assert_complete").ok)
    h.cover("nested round trip")


@oset("at4.xFF11.decode-longer-record", ["C05", "C17"], ABL_FNS[2:3],
      bounded="one record with following length 25..50 (1..26 zero bytes beyond the 26-byte layout), empty AC name")
def abl_decode_longer_record(h):
    """End-to-end companion of the loop-level stride obligations of at4.xFF11.decode-vendor-reading, with natively
    replayable counter-models: the data is exactly one record whose announced following length is larger than the
    known 24 (a later console layout).  C17: 'status records longer than the known layout are decoded from their
    known prefix'; C05: 'record strides announced by the console are honoured'."""
    fl = h.choice("following_length", list(range(25, 51)))
    n = 2 + fl
    # Byte4 announces the following length of this one record; empty AC name (keeps the path count small; names are
    # covered by the unbounded set); the bytes beyond the known 26-byte layout are zero (bounded witness set)
    buf = h.bytes("data", n, fixed=dict([(1, fl), (2, 0)] + [(i, 0) for i in range(26, n)]))
    b = h.items(buf)
    r = h.method(h.new(ABL + ":AcAbilityDecoder"), "decode", buf, at4_subheader(h, SUB_ABILITY, n))
    h.oblige("a record longer than the known layout is not rejected for its length", r.ok)
    if not r.ok:
        return
    m = h.attr(r.value, "message")
    h.oblige("result is an ability message", h.isinstance(m, ABL + ":AcAbilityMessage"))
    recs = h.elems(h.attr(m, "ac_abilities"))
    h.oblige("exactly the one announced record is decoded (the extra bytes are skipped, not read as another AC)", len(recs) == 1)
    if len(recs) >= 1:
        check_ability_record(h, recs[0], b[:26], "known prefix: ")
    h.oblige("nothing left over", h.length(h.attr(r.value, "remaining")) == 0)
    h.cover("longer record decoded from its known prefix")


@oset("at4.xFF30.decode-any-length", ["C05", "C17"], [VER + ":ConsoleVersionDecoder.decode"],
      assumptions=["len(data) == sub-header.message_length (what the 0x1F wrapper hands to a sub-decoder)",
                   "str.split is kept abstract: the obligation is that it is applied to exactly the announced text with '|'"])
def ver_decode_any(h):
    """Unbounded companion of at4.xFF30.decode-vendor-reading: any data length, any text length."""
    if not h.symbolic:
        return
    from contracts.at5_ext import version_decode_any_length
    version_decode_any_length(h, VER, at4_subheader, SUB_VERSION, sep="|")   # 4.e.iv: versions separated by 0x7c
