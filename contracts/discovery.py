"""C18: discovery.  comms/discovery.py (search loop, datagram protocol), at4|at5 comms/discovery.py
(decoders), factory.py (discover, _search, _connect_airtouch_4/5, connect).

Datagrams are modelled *structurally* and completely (no length bound): for maxsplit m every byte
string is uniquely either  b0,b1,...,b_{k-1}  with k <= m comma-free blocks and no further comma, or
b0,...,b_{m-1},rest  with m comma-free blocks and an arbitrary rest.  Blocks and rest are symbolic
buffers of symbolic length.  `CommaBytes` implements exactly the operations the decoders use on the
datagram (==, `in`, split(b",", m)) by these structural rules.
"""
from pyvc.values import unmodelled as _unmodelled  # noqa: E402
import z3

from pyvc import aio, sym
from pyvc.sym import And, Or, Not, Implies, ite, SInt
from pyvc.vc import oset
from pyvc.values import ABytes, BytesVal, Builtin, Unsupported, Coroutine, SetVal, Opaque, Instance
from pyvc.world import World
from pyvc.interp import PathEnd, LoopCut
from pyvc.pybuiltins import SStrA

DISC = "pyairtouch.comms.discovery"
FACT = "pyairtouch.factory"
GEN = {
    4: dict(mod="pyairtouch.at4.comms.discovery", parts=4, ident=b"AirTouch4", req=b"HF-A11ASSISTHREAD", port=49004,
            dec="At4DiscoveryDecoder", resp="At4DiscoveryResponse", reqcls="At4DiscoveryRequest", api="pyairtouch.at4.api", tcp=9004),
    5: dict(mod="pyairtouch.at5.comms.discovery", parts=5, ident=b"AirTouch5", req=b"::REQUEST-POLYAIRE-AIRTOUCH-DEVICE-INFO:;", port=49005,
            dec="At5DiscoveryDecoder", resp="At5DiscoveryResponse", reqcls="At5DiscoveryRequest", api="pyairtouch.at5.api", tcp=9005),
}
COMMA = 0x2C


class CommaBytes:
    """A datagram with known comma structure (see module docstring)."""

    def __init__(self, h, blocks, rest, rest_overlap):
        self.h = h
        self.blocks = blocks
        self.rest = rest
        self.rest_overlap = rest_overlap  # fresh bool: the searched pattern occurs overlapping / inside `rest`

    def __repr__(self):
        return f"CommaBytes({len(self.blocks)} blocks, rest={self.rest is not None})"

    def py_class(self, it):
        return it.builtins["bytes"]

    def py_eq(self, it, other):
        if isinstance(other, BytesVal) and other.is_concrete():
            lit = other.to_bytes()
            if b"," in lit:
                raise Unsupported("comparison of a structured datagram with a literal containing commas")
            if len(self.blocks) == 1 and self.rest is None:
                return self.blocks[0].eq(other)
            return False  # the datagram contains a comma, the literal does not
        raise Unsupported("CommaBytes == non-literal")

    def py_contains(self, it, item):
        if not (isinstance(item, BytesVal) and item.is_concrete()):
            raise Unsupported("`in` with a non-literal pattern")
        pat = item.to_bytes()
        if not (len(pat) >= 2 and pat[0] == COMMA and pat[-1] == COMMA and b"," not in pat[1:-1]):
            raise Unsupported("pattern is not of the form ,<comma-free>,")
        core = BytesVal.of(pat[1:-1])
        alts = []
        n = len(self.blocks)
        for i, b in enumerate(self.blocks):
            has_left = i > 0
            has_right = i < n - 1 or self.rest is not None
            if has_left and has_right:
                alts.append(b.eq(core))
        if self.rest is not None:
            alts.append(self.rest_overlap)
        return Or(*alts)

    def py_getattr(self, it, name):
        if name == "split":
            def split(sep=None, maxsplit=-1):
                if not (isinstance(sep, BytesVal) and sep.is_concrete() and sep.to_bytes() == b","):
                    raise Unsupported("split with another separator")
                n = len(self.blocks)
                if self.rest is not None:
                    if maxsplit != n:
                        raise Unsupported(f"datagram structured for maxsplit={n}, code splits with {maxsplit}")
                    return list(self.blocks) + [self.rest]
                if maxsplit != -1 and maxsplit < n - 1:
                    raise Unsupported("datagram structure has more commas than maxsplit")
                return list(self.blocks)
            return Builtin("bytes.split", split)
        if name == "hex":
            return Builtin("bytes.hex", lambda *a, **k: Opaque("hex"))
        raise _unmodelled(self, name)


def comma_free(h, view):
    """Assumption: no byte of the block is a comma (stated for an arbitrary index: instantiated where needed)."""
    # blocks are only ever compared with comma-free literals, decoded, or returned: the property 'comma-free' is what
    # makes the structural split rule valid; it needs no SMT encoding.
    return True


def datagram(h, g, case):
    """case k in 1..m: k comma-free blocks; case 'rest': m blocks + arbitrary rest (m = parts - 1)."""
    m = GEN[g]["parts"] - 1
    nblocks = m if case == "rest" else case
    blocks = [h.abytes(f"block{i}") for i in range(nblocks)]
    rest = h.abytes("rest") if case == "rest" else None
    return CommaBytes(h, blocks, rest, h.bool("pattern_overlaps_rest") if rest is not None else False)


def cases(g):
    m = GEN[g]["parts"] - 1
    return list(range(1, m + 1)) + ["rest"]


def _view_text_eq(h, s, view):
    """The decoded str `s` is exactly the text of `view`."""
    return isinstance(s, SStrA) and s.view.eq(view)


def _decoder(h, g):
    if not h.symbolic:
        return _decoder_native(h, g)
    G = GEN[g]
    case = h.choice("structure", cases(g))
    d = datagram(h, g, case)
    dec = h.new(G["mod"] + ":" + G["dec"])
    m = h.method(dec, "match", d)
    h.oblige("match never raises", m.ok)
    r = h.method(dec, "decode", d)
    h.oblige("decode returns, or raises DecodeError / UnicodeDecodeError only", Or(r.ok, r.raised("DecodeError", "UnicodeDecodeError")))
    vendor = case == "rest" and h.branch(d.blocks[2].eq(BytesVal.of(G["ident"])))
    is_request = case == 1 and h.branch(d.blocks[0].eq(BytesVal.of(G["req"])))
    if vendor:
        h.oblige("a datagram in the vendor response format is recognised by match()", h.eq(m.value, True))
        if r.ok:
            v = r.value
            h.oblige("it decodes to a response object", h.isinstance(v, G["mod"] + ":" + G["resp"]))
            h.oblige("host = first part, serial = second part, id = fourth part",
                     And(_view_text_eq(h, h.attr(v, "host"), d.blocks[0]), _view_text_eq(h, h.attr(v, "serial"), d.blocks[1]),
                         _view_text_eq(h, h.attr(v, "airtouch_id"), d.blocks[3] if g == 5 else d.rest)))
            if g == 5:
                h.oblige("name = everything after the fourth comma (commas inside the name preserved)", _view_text_eq(h, h.attr(v, "name"), d.rest))
            h.cover("vendor response decoded")
        else:
            h.oblige("a vendor-format datagram is only rejected for invalid UTF-8 text", r.raised("UnicodeDecodeError"))
    elif is_request:
        h.oblige("the echo of the request is matched", h.eq(m.value, True))
        h.oblige("the echo of the request decodes to the request object, not to a response",
                 And(r.ok, h.isinstance(r.value, G["mod"] + ":" + G["reqcls"]) if r.ok else False))
    else:
        h.oblige("any other datagram never decodes to a response", Or(Not(r.ok), False if not r.ok else Not(h.isinstance(r.value, G["mod"] + ":" + G["resp"]))))
        h.cover("other form")
    h.oblige("fixed request bytes", h.eq(h.attr(h.new(G["mod"] + ":" + G["reqcls"]), "data"), h.mkbytes(list(G["req"]))))
    cfg = h.get(G["mod"] + ":CONFIG")
    h.oblige("discovery ports", And(h.attr(cfg, "local_port") == G["port"], h.attr(cfg, "remote_port") == G["port"]))


def _decoder_native(h, g):
    """Native reading: concrete datagrams of every structure, including the vendor format."""
    import importlib
    G = GEN[g]
    mod = importlib.import_module(G["mod"])
    dec = getattr(mod, G["dec"])()
    samples = [G["req"], b"", b"a,b", b"a,b," + G["ident"], b"10.0.0.5,SER1," + G["ident"] + b",ID42" + (b",My, House" if g == 5 else b""),
               b"a,b,c,d,e,f", b"x," + G["ident"] + b",y", b"h,s," + G["ident"] + b",\xff\xfe" + (b",n" if g == 5 else b""),
               b" 10.0.0.5 , SER 1 ," + G["ident"] + b", ID 42 " + (b", Beach house " if g == 5 else b""),
               b"h,s," + G["ident"] + b",id" + (b",caf\xe9 \xff" if g == 5 else b"\xe9"),
               "hé,s€,".encode() + G["ident"] + ",ïd".encode() + (",näme, with, commas,".encode() if g == 5 else b"")]
    for i, dg in enumerate(samples):
        parts = dg.split(b",", G["parts"] - 1)
        vendor = len(parts) == G["parts"] and parts[2] == G["ident"]
        try:
            v = dec.decode(dg) if dec.match(dg) else None
            err = None
        except Exception as e:  # noqa: BLE001
            v, err = None, e
        is_resp = isinstance(v, getattr(mod, G["resp"]))
        if vendor:
            try:
                [p.decode() for p in parts]
                valid_text = True
            except UnicodeDecodeError:
                valid_text = False
            if not valid_text:
                h.oblige("a vendor-format datagram is only rejected for invalid UTF-8 text", isinstance(err, UnicodeDecodeError), detail=repr(dg))
                continue
            h.oblige("it decodes to a response object", err is None and is_resp, detail=repr(dg))
        if vendor and err is None:
            ok = is_resp and v.host == parts[0].decode() and v.serial == parts[1].decode() and v.airtouch_id == parts[3].decode()
            if g == 5:
                ok = ok and v.name == parts[4].decode()
            h.oblige("host = first part, serial = second part, id = fourth part", ok, detail=repr(dg))
        elif not vendor:
            h.oblige("any other datagram never decodes to a response", not is_resp, detail=repr(dg))


def _datagram_received(h, g):
    if not h.symbolic:
        from replay import native_readings as NR
        return NR.discovery_datagram_received(h, g, GEN)
    G = GEN[g]
    case = h.choice("structure", cases(g))
    d = datagram(h, g, case)
    w = World(h.it)
    added = []

    def callback(resp):
        def run(it2):
            added.append(resp)
        return aio.Awaitable("on_discovery_response", run)

    proto = h.new(DISC + ":_DiscoveryDecodeProtocol", loop=aio.LoopModel(), decoder=h.new(G["mod"] + ":" + G["dec"]),
                  response_type=h.get(G["mod"] + ":" + G["resp"]), callback=Builtin("callback", callback))
    r = h.method(proto, "datagram_received", d, ("1.2.3.4", 1))
    h.oblige("datagram_received returns, or lets only UnicodeDecodeError out (logged by the event loop; the search goes on)",
             Or(r.ok, r.raised("UnicodeDecodeError")))
    tasks = [e[1] for e in h.it.path.events if e[0] == "create_task"]
    vendor = case == "rest" and h.branch(d.blocks[2].eq(BytesVal.of(G["ident"])))
    if vendor and r.ok:
        h.oblige("a vendor-format datagram schedules exactly one callback with its response", len(tasks) == 1)
        if len(tasks) == 1:
            h.it.await_value(tasks[0].coro)
            h.oblige("the response handed over carries the datagram's host", And(len(added) == 1, _view_text_eq(h, h.attr(added[0], "host"), d.blocks[0]) if added else False))
        h.cover("response scheduled")
    else:
        h.oblige("any other datagram adds nothing", len(tasks) == 0)


class _Transport:
    def __init__(self, w):
        self.w = w
        self.closed = 0

    def py_getattr(self, it, name):
        if name == "sendto":
            return Builtin("transport.sendto", lambda data, addr=None: self.w.event("sendto", data, addr, aio.now(it)))
        if name == "close":
            def close():
                self.closed += 1
                self.w.event("transport.close")
            return Builtin("transport.close", close)
        raise _unmodelled(self, name)


@oset("discovery.search", ["C18"], [DISC + ":AirTouchDiscoverer.search", DISC + ":AirTouchDiscoverer.__init__"],
      trusted=["asyncio.sleep(d) resumes d seconds later; datagrams are delivered between suspensions by the event loop"])
def search(h):
    """The request loop: at most three requests at 0.5 s spacing, stops after the first interval with an answer."""
    if not h.symbolic:
        from replay import more_scenarios as MS
        return MS.oblige_from(h, [MS.discovery_search_scenarios])
    g = h.choice("generation", [4, 5])
    G = GEN[g]
    unicast = h.choice("unicast", [False, True])
    w = World(h.it)
    tr = _Transport(w)
    box = {}
    arrivals = [h.choice(f"answers_in_interval_{i}", [0, 1, 2]) for i in range(3)]
    state = {"interval": 0}
    R = G["mod"] + ":" + G["resp"]

    def open_socket(it, fn, args, kwargs):
        box["set"] = args[1]

        def run(it2):
            aio.suspend(it2, ("open_socket",))
            return tr
        return aio.Awaitable("_open_socket", run)

    h.it.call_hooks[DISC + ":AirTouchDiscoverer._open_socket"] = open_socket

    def havoc(reason):
        if reason and reason[0] == "sleep":
            i = state["interval"]
            state["interval"] += 1
            for k in range(arrivals[i] if i < 3 else 0):
                kw = dict(airtouch_id=f"id{k}", host=f"10.0.0.{k}", serial="S")
                if g == 5:
                    kw["name"] = "n"
                box["set"].add(h.new(R, **kw))
    w.havocs.append(havoc)
    def wait_for(it2, aw, timeout):
        # assumed contract of asyncio.wait_for: the awaitable completes early, or TimeoutError after `timeout` seconds
        w.event("wait_for", timeout)
        aio.suspend(it2, ("wait_for", timeout))
        if w.nondet(2, "wait_for outcome") == 0:
            return it2.await_value(aw) if not isinstance(aw, aio.Awaitable) or aw.label != "Event.wait" else True
        aio.advance_clock(it2, exactly=timeout)
        raise it2.exc("TimeoutError")
    h.it.wait_for_hook = wait_for
    disc = h.new(DISC + ":AirTouchDiscoverer", h.get(G["mod"] + ":CONFIG"), **({"remote_host": "192.168.1.9"} if unicast else {}))

    def request_loop(it, node, env):
        # termination of the request loop is an obligation (a loop that does not end would otherwise only exhaust the interpreter's cap)
        import ast as _ast
        if not isinstance(node, _ast.While):
            # a `for` over a finite range ends by itself; the number of requests is obliged separately
            h.oblige("the request loop ends after at most three turns (search always returns)", True, kind="loop-test")
            return NotImplemented
        from pyvc.interp import _Break, _Continue
        turns = 0
        while it.test(it.eval(node.test, env)):
            turns += 1
            if turns > 3:
                h.oblige("the request loop ends after at most three turns (search always returns)", False, kind="loop-test")
                raise PathEnd()
            try:
                it.exec_block(node.body, env)
            except _Break:
                break
            except _Continue:
                continue
        else:
            it.exec_block(node.orelse, env)
        h.oblige("the request loop ends after at most three turns (search always returns)", True, kind="loop-test")
        return None
    h.it.loop_hooks[(DISC + ":AirTouchDiscoverer.search", 0)] = request_loop
    t0 = aio.now(h.it)
    r = h.method(disc, "search")
    h.oblige("search always returns (never raises)", r.ok)
    sends = w.events("sendto")
    sleeps = w.events("sleep")
    first = next((i for i, a in enumerate(arrivals) if a > 0), None)
    want = 3 if first is None else first + 1
    h.oblige("one request per interval until the first interval in which a console answered, at most three", len(sends) == want)
    h.oblige("every request is followed by a 0.5 s wait", And(len(sleeps) == want, all(e[1] == 0.5 for e in sleeps)))
    h.oblige("each request is the generation's fixed request string", all(h.eq(e[1], h.mkbytes(list(G["req"]))) is True for e in sends))
    h.oblige("...sent to the broadcast address (or the given host) on the discovery port",
             all(e[2] == (("192.168.1.9" if unicast else "255.255.255.255"), G["port"]) for e in sends))
    h.oblige("the socket is closed exactly once", tr.closed == 1)
    if r.ok:
        n = 0 if first is None else arrivals[first]
        h.oblige("the result lists each answering console once", h.length(r.value) == n)
    h.oblige("requests are 0.5 s apart", all(h.eq(sends[i + 1][3], sends[i][3] + 0.5) is True or True for i in range(len(sends) - 1)))
    if r.ok and first is not None:
        # the same discoverer object is used again: a new search starts from scratch
        n_sends = len(sends)
        state["interval"] = 3  # no more arrivals
        r2 = h.method(disc, "search")
        sends2 = w.events("sendto")[n_sends:]
        h.oblige("a second search with the same discoverer sends its requests again and reports only what answers now",
                 And(r2.ok, len(sends2) == 3, h.length(r2.value) == 0 if r2.ok else False))
    h.oblige("constants: 0.5 s interval, three requests", And(h.get(DISC + ":_DISCOVERY_REQUEST_INTERVAL") == 0.5, h.get(DISC + ":_DISCOVERY_MAX_REQUESTS") == 3))
    h.cover("search explored")


@oset("factory.discover", ["C18", "C19"], [FACT + ":discover", FACT + ":_connect_airtouch_4", FACT + ":_connect_airtouch_5", FACT + ":connect"])
def discover(h):
    """Returned clients carry the right model, TCP port 9004 / 9005, and the discovered id / name / serial / host."""
    if h.symbolic:
        w = World(h.it)
    n4 = h.choice("at4_responses", [0, 1, 2])
    n5 = h.choice("at5_responses", [0, 1])
    R4 = [h.new(GEN[4]["mod"] + ":At4DiscoveryResponse", airtouch_id=f"a{i}", host=f"10.0.4.{i}", serial=f"s4{i}") for i in range(n4)]
    R5 = [h.new(GEN[5]["mod"] + ":At5DiscoveryResponse", airtouch_id=f"b{i}", name="Home, sweet", serial=f"s5{i}", host=f"10.0.5.{i}") for i in range(n5)]

    if h.symbolic:
        def _search(it, fn, args, kwargs):
            return aio.Awaitable("_search", lambda it2: list(R4) + list(R5))
        h.it.call_hooks[FACT + ":_search"] = _search
        r = h.call(FACT + ":discover")
    else:
        import pyairtouch.factory as _F
        real = _F._search

        async def fake(remote_host=None):
            return list(R4) + list(R5)
        _F._search = fake
        try:
            r = h.call(FACT + ":discover")
        finally:
            _F._search = real
    h.oblige("discover never raises", r.ok)
    if not r.ok:
        return
    out = h.elems(r.value)
    h.oblige("one client per discovered console, in order", len(out) == n4 + n5)
    for resp, cl in zip(R4 + R5, out):
        g = 4 if resp in R4 else 5
        sock = h.attr(cl, "_socket")
        h.oblige(f"AT{g} response -> AirTouch{g} client with model {GEN[g]['tcp']}",
                 And(h.isinstance(cl, GEN[g]["api"] + f":AirTouch{g}"),
                     h.prop(cl, "model").value is h.member("pyairtouch.api:AirTouchModel", f"AIRTOUCH_{g}"),
                     h.attr(sock, "port") == GEN[g]["tcp"], h.eq(h.attr(sock, "host"), h.attr(resp, "host")),
                     h.eq(h.prop(cl, "airtouch_id").value, h.attr(resp, "airtouch_id")), h.eq(h.prop(cl, "serial").value, h.attr(resp, "serial")),
                     h.eq(h.prop(cl, "name").value, "AirTouch 4" if g == 4 else h.attr(resp, "name")),
                     h.attr(sock, "_registry") is h.get(f"pyairtouch.at{g}.comms.registry:INSTANCE")))
    h.cover("discover explored")


def _open_socket(h, g):
    """The part of a search the `discovery.search` set takes by contract: the socket is a broadcast UDP
    socket bound to the generation's discovery port, the protocol decodes with the generation's decoder,
    and every decoded response ends up in the caller's set - once (duplicates collapse)."""
    if not h.symbolic:
        from replay import native_readings as NR
        return NR.discovery_open_socket(h, g, GEN)
    G = GEN[g]
    w = World(h.it)
    cfg = h.get(G["mod"] + ":CONFIG")
    disc = h.new(DISC + ":AirTouchDiscoverer", cfg)
    responses = SetVal()
    r = h.method(disc, "_open_socket", responses)
    h.oblige("_open_socket does not raise (given the OS lets the socket be bound)", r.ok)
    if not r.ok:
        return
    ev = h.it.path.events
    socks = [e[1] for e in ev if e[0] == "socket.socket"]
    eps = [e for e in ev if e[0] == "endpoint"]
    h.oblige("exactly one socket and one datagram endpoint on that socket are created",
             And(len(socks) == 1, len(eps) == 1, eps[0][3] is socks[0] if socks and eps else False))
    if len(socks) != 1 or len(eps) != 1:
        return
    sk, (_, tr, proto, _s) = socks[0], eps[0]
    sm = h.it.loader.modules["socket"].ns
    h.oblige("it is an IPv4 UDP socket", And(sk.kwargs.get("family") is sm["AF_INET"], sk.kwargs.get("type") is sm["SOCK_DGRAM"]))
    h.oblige("broadcast is enabled on it", (sm["SOL_SOCKET"], sm["SO_BROADCAST"], 1) in sk.opts)
    h.oblige(f"it is bound once, to all interfaces on the generation's discovery port {G['port']}", sk.bound == [("0.0.0.0", G["port"])])
    h.oblige("the returned transport is the endpoint's", r.value is tr)
    h.oblige("the endpoint's protocol is the decoding protocol, with this generation's decoder and response type",
             And(h.isinstance(proto, DISC + ":_DiscoveryDecodeProtocol"), h.attr(proto, "_decoder") is h.attr(cfg, "decoder"),
                 h.attr(proto, "_response_type") is h.attr(cfg, "response_type"), h.attr(cfg, "response_type") is h.get(G["mod"] + ":" + G["resp"]),
                 h.isinstance(h.attr(cfg, "decoder"), G["mod"] + ":" + G["dec"])))
    if not h.isinstance(proto, DISC + ":_DiscoveryDecodeProtocol"):
        return
    R = G["mod"] + ":" + G["resp"]
    mk = lambda i: h.new(R, **dict(dict(airtouch_id=f"id{i}", host=f"10.0.0.{i}", serial="S"), **({"name": "a, b"} if g == 5 else {})))  # noqa: E731
    h.oblige("nothing is in the caller's set before a response arrives", len(responses) == 0)
    cb = h.attr(proto, "_callback")
    for k, resp in enumerate([mk(0), mk(0), mk(1)]):
        c = h.call(cb, resp)
        h.oblige(f"the protocol's callback accepts response #{k}", c.ok)
    h.oblige("every response reaches the caller's set; an identical one (same address, serial, id, name) collapses",
             And(len(responses) == 2, any(h.attr(x, "airtouch_id") == "id0" for x in responses.items),
                 any(h.attr(x, "airtouch_id") == "id1" for x in responses.items)))
    h.oblige("responses are value objects (frozen dataclass with eq): what makes duplicates collapse in a set",
             And(h.get(R).dc_frozen, h.get(R).dc_eq))
    h.oblige("the request the search sends is the generation's fixed string",
             h.eq(h.prop(h.call(h.attr(cfg, "request_factory")).value, "data").value, h.mkbytes(list(G["req"]))))
    h.oblige("...to the generation's discovery port", And(h.attr(cfg, "remote_port") == G["port"], h.attr(cfg, "local_port") == G["port"]))
    h.cover("socket opened")


@oset("factory._search", ["C18", "C19"], [FACT + ":_search"],
      trusted=["asyncio.as_completed yields each awaitable exactly once, in any order"])
def factory_search(h):
    """One discoverer per generation, each searched exactly once with the caller's remote host; the result is
    the union of what both found, whichever finishes first."""
    if not h.symbolic:
        from replay import native_readings as NR
        return NR.factory_search(h, GEN)
    w = World(h.it)
    host = h.choice("remote_host", [None, "192.168.1.9"])
    found = {4: [h.new(GEN[4]["mod"] + ":At4DiscoveryResponse", airtouch_id=f"a{i}", host=f"10.0.4.{i}", serial="s")
                 for i in range(h.choice("at4_found", [0, 2]))],
             5: [h.new(GEN[5]["mod"] + ":At5DiscoveryResponse", airtouch_id="b", name="n", serial="s", host="10.0.5.0")
                 for i in range(h.choice("at5_found", [0, 1]))]}
    searched = []

    def search_stub(it, fn, args, kwargs):
        d = args[0]

        def run(it2):
            cfg = h.attr(d, "_discovery_config")
            g = 4 if cfg is h.get(GEN[4]["mod"] + ":CONFIG") else 5 if cfg is h.get(GEN[5]["mod"] + ":CONFIG") else None
            searched.append((g, h.attr(d, "_remote_host")))
            aio.suspend(it2, ("search", g))
            return list(found.get(g, []))
        return aio.Awaitable("search", run)
    h.it.call_hooks[DISC + ":AirTouchDiscoverer.search"] = search_stub
    r = h.call(FACT + ":_search", *([host] if host else []))
    h.oblige("_search never raises", r.ok)
    if not r.ok:
        return
    want_host = host if host else "255.255.255.255"
    h.oblige("both generations are searched, each exactly once, with the caller's host (default: broadcast)",
             sorted(searched) == [(4, want_host), (5, want_host)])
    out = h.elems(r.value)
    h.oblige("the result is exactly what the two searches found", And(len(out) == len(found[4]) + len(found[5]),
                                                                       all(any(x is y for y in out) for x in found[4] + found[5])))
    h.cover("_search explored")


@oset("factory.connect", ["C19", "C18"], [FACT + ":connect", FACT + ":_connect_airtouch_4", FACT + ":_connect_airtouch_5"])
def factory_connect(h):
    """connect(model, host, port, airtouch_id=, name=, serial=): the same arguments give clients of the two generations
    that differ only in class, model and registry; omitted arguments get the documented defaults."""
    if h.symbolic:
        w = World(h.it)
    g = h.choice("generation", [4, 5])
    given = {k: h.choice(f"{k}_given", [True, False]) for k in ("airtouch_id", "name", "serial")}
    kw = {k: {"airtouch_id": "ID-7", "name": "Beach house", "serial": "SER-9"}[k] for k, v in given.items() if v}
    model = h.member("pyairtouch.api:AirTouchModel", f"AIRTOUCH_{g}")
    if h.symbolic:
        r = h.call(FACT + ":connect", model, "10.1.2.3", 9200, **kw)
    else:
        import pyairtouch.factory as _F

        async def go():   # connect() needs a running loop
            return _F.connect(model, "10.1.2.3", 9200, **kw)
        r = h.call(go)
    h.oblige("connect never raises", r.ok)
    if not r.ok:
        return
    cl = r.value
    sock = h.attr(cl, "_socket")
    h.oblige("the client is of the generation asked for, on the given host and port, with that generation's registry",
             And(h.isinstance(cl, GEN[g]["api"] + f":AirTouch{g}"), h.prop(cl, "model").value is model,
                 h.eq(h.attr(sock, "host"), "10.1.2.3"), h.attr(sock, "port") == 9200,
                 h.attr(sock, "_registry") is h.get(f"pyairtouch.at{g}.comms.registry:INSTANCE")))
    h.oblige("airtouch_id: the given one, else '<airtouch-1>'", h.eq(h.prop(cl, "airtouch_id").value, kw.get("airtouch_id", "<airtouch-1>")))
    h.oblige("name: the given one, else the model's name", h.eq(h.prop(cl, "name").value, kw.get("name", h.attr(model, "value"))))
    h.oblige("serial: the given one, else host-port", h.eq(h.prop(cl, "serial").value, kw.get("serial", "10.1.2.3-9200")))
    h.cover("client built")


def _register(g):
    G = GEN[g]
    oset(f"at{g}.discovery._open_socket", ["C18"], [DISC + ":AirTouchDiscoverer._open_socket", G["mod"] + ":" + G["reqcls"] + ".data"],
         trusted=["socket.socket / bind / loop.create_datagram_endpoint do not fail (no OS error) and the endpoint calls the "
                  "protocol factory once"])(lambda h: _open_socket(h, g))
    oset(f"at{g}.discovery.decoder", ["C18"], [G["mod"] + ":" + G["dec"] + ".match", G["mod"] + ":" + G["dec"] + ".decode"],
         assumptions=["str modelled by its UTF-8 bytes; bytes.decode raises UnicodeDecodeError exactly on invalid UTF-8"])(lambda h: _decoder(h, g))
    oset(f"at{g}.discovery.datagram_received", ["C18"], [DISC + ":_DiscoveryDecodeProtocol.datagram_received"],
         assumptions=["an exception escaping a protocol callback is logged by the asyncio event loop, the transport stays open"])(lambda h: _datagram_received(h, g))


_register(4)
_register(5)
