"""socket.py, coroutine part: _write, _drain_message_queue, _disconnect, reset_connection, _connect,
_read, _read_one_message, close, open_socket, send, _schedule, _notify_subscribers, _delay.

Method (DESIGN.md 2.6): every coroutine is executed from an arbitrary state satisfying the object
invariant J1 (is_connected <=> _reader is not None <=> _writer is not None); at every suspension the
connection state is replaced by another arbitrary J1-state and the clock moves forward (interference
by any other task or subscriber).  Callees that have their own contract are used through that
contract only (call hooks), so each function is checked against its callees' contracts, not bodies.
Codecs are stubs that behave as the codec contracts allow (contracts/sockworld.py).

Obligations are *local* to one function: which effects it performs, in which order, on which objects,
in which atomic segment, and which exceptions it lets out.  The step from these step contracts to the
history statements of C01/C02/C07/C15 is the on-paper induction described in DESIGN.md.
"""
from pyvc import aio, sym
from pyvc.sym import And, Or, Not, Implies, ite
from pyvc.vc import oset
from pyvc.values import Coroutine, Instance, BytesVal, ABytes, DequeVal, Opaque
from pyvc.world import WriterModel, ReaderModel
from pyvc.interp import PathEnd, LoopCut
from contracts.sockworld import SockWorld, SOCK, COMMS, ENCODE_EXCEPTIONS, DECODE_EXCEPTIONS

A = SOCK + ":AirTouchSocket."
F_WRITE, F_DRAIN, F_DISC, F_RESET, F_CONNECT = A + "_write", A + "_drain_message_queue", A + "_disconnect", A + "reset_connection", A + "_connect"
F_READ, F_READ1, F_CLOSE, F_OPEN, F_SEND, F_SWH = A + "_read", A + "_read_one_message", A + "close", A + "open_socket", A + "send", A + "send_with_header"
F_SCHED, F_NOTIFY, F_NCC, F_NMR = A + "_schedule", A + "_notify_subscribers", A + "_notify_connection_changed", A + "_notify_message_received"
F_DELAY = SOCK + ":_delay"


# ------------------------------------------------------------------------------------------------
# modular stand-ins (the contracts of callees)


def stub_async(W, fullname, label, outcomes, needs=None):
    """Replace calls of `fullname` by its contract: log the call, suspend (interference) if the real
    function can suspend, then take one of the allowed outcomes (None = normal return, or exception name)."""
    def hook(it, fn, args, kwargs):
        call_args = list(args[1:])

        def run(it2):
            W.w.event("call", label, call_args, dict(kwargs))
            if needs is not None:
                needs(call_args, kwargs)
            aio.suspend(it2, ("call", label))
            k = W.w.nondet(len(outcomes), f"{label} outcome")
            out = outcomes[k]
            W.w.event("outcome", label, out if (out is None or isinstance(out, str)) else "callable")
            if out is None:
                return None
            if callable(out):
                return out(it2)
            raise it2.exc(out, label)
        return aio.Awaitable(label, run)
    W.it.call_hooks[fullname] = hook


def calls(W, label):
    return [e for e in W.w.events("call") if e[1] == label]


def scheduled(W):
    """(function name, delay) of every coroutine handed to loop.create_task in this run."""
    out = []
    for e in W.w.events("create_task"):
        co = e[1].coro
        if isinstance(co, Coroutine) and co.func is not None and co.func.name == "_delay":
            inner, delay = co.args[0], co.args[1]
            out.append((inner.func.name if isinstance(inner, Coroutine) else repr(inner), delay))
        elif isinstance(co, Coroutine):
            out.append((co.func.name, None))
        elif isinstance(co, aio.Awaitable):
            out.append((co.label, None))  # a callee taken by contract (stub_async)
        else:
            out.append((repr(co), None))
    return out


def idx(events, pred):
    for i, e in enumerate(events):
        if pred(e):
            return i
    return -1


# ------------------------------------------------------------------------------------------------
# _write


@oset("socket._write", ["C01", "C02", "C03", "C07", "C16"], [F_WRITE])
def write_contract(h):
    """Either nothing is written (not connected / unencodable) or exactly the three parts of this
    message's frame are handed to the current writer back-to-back in one atomic segment."""
    if not h.symbolic:
        from replay import more_scenarios as M
        M.oblige_from(h, [M.write_scenarios])
        return
    W = SockWorld(h)
    sock = W.make_socket()
    W.enable_interference()
    hdr, msg = W.header("h"), W.message("m")
    writer0 = sock.attrs["_writer"]
    r = h.method(sock, "_write", hdr, msg)
    ev = W.w.it.path.events
    writes = [e for e in ev if e[0] == "write"]
    if writer0 is None:
        h.oblige("without a connection _write raises ValueError and writes nothing", And(r.raised("ValueError"), len(writes) == 0))
        return
    h.oblige("a frame is written completely or not at all", len(writes) in (0, 3))
    h.oblige("only encoder errors, OSError from the transport, are let out",
             Or(r.ok, r.raised("ValueError", "NotImplementedError", "struct.error", "OSError")))
    if len(writes) == 3:
        h.oblige("all three parts go to the writer that was current when _write started", all(e[1] is writer0 for e in writes))
        first, last = ev.index(writes[0]), ev.index(writes[2])
        h.oblige("no suspension between the three writes (frames never interleave)",
                 not any(e[0] == "suspend" for e in ev[first:last + 1]))
        h.oblige("no suspension between the start of _write and the first write",
                 not any(e[0] == "suspend" for e in ev[:first]))
        h.oblige("part 1 is the encoded header of this header", h.eq(writes[0][2], W.header_bytes(hdr)))
        h.oblige("part 2 is the payload of this message under this header", h.eq(writes[1][2], W.payload_bytes(hdr, msg)))
        crc = W.crc_bytes(hdr, msg)
        c = h.items(writes[2][2])
        h.oblige("part 3 is CRC16(checksum span of the header ++ payload), high byte first",
                 And(len(c) == 2, c[0] == crc[0] if len(c) == 2 else False, c[1] == crc[1] if len(c) == 2 else False))
        h.oblige("drain() is awaited after the frame", any(e[0] == "drain" for e in ev[last:]))
        h.cover("frame written")
    if r.ok:
        h.oblige("normal return only after a complete frame", len(writes) == 3)


# ------------------------------------------------------------------------------------------------
# _drain_message_queue


def _install_write_contract(W, sock, log):
    """`_write` by contract.  Precondition (site obligation): a writer is present."""
    def needs(args, kwargs):
        q = sock.attrs["_message_queue"]
        queued = [x for x in getattr(q, "items", [])]
        log.append(("write-call", args[0], args[1], sock.attrs["_writer"], aio.now(W.it), queued))
    stub_async(W, F_WRITE, "_write", [None, "OSError", "ConnectionResetError"] + ENCODE_EXCEPTIONS, needs)


@oset("socket._drain_message_queue.not-connected", ["C01", "C02", "C16"], [F_DRAIN])
def drain_not_connected(h):
    if not h.symbolic:
        from replay import native_readings as NR
        return NR.socket_drain_not_connected(h)
    W = SockWorld(h)
    e0 = W.entry("e0")
    sock = W.make_socket(queue=[e0], connected=False)
    log = []
    _install_write_contract(W, sock, log)
    stub_async(W, F_RESET, "reset_connection", [None])
    r = h.method(sock, "_drain_message_queue")
    h.oblige("returns", r.ok)
    h.oblige("while not connected nothing is popped, written or reset",
             And(len(log) == 0, len(calls(W, "reset_connection")) == 0, W.queue_items() == [e0], W.w.suspensions == 0))


def _drain_iteration(h, first):
    """One arbitrary iteration of the drain loop.  first=True: the iteration that follows the
    `is_connected` test without suspension; first=False: an iteration reached after a suspension
    (the connection state is then arbitrary)."""
    W = SockWorld(h)
    e = W.entry("e")
    rest = W.entry("rest")
    sock = W.make_socket(queue=[e, rest], connected=True if first else None)
    log = []
    _install_write_contract(W, sock, log)
    W.queue_at_reset = []
    stub_async(W, F_RESET, "reset_connection", [None], needs=lambda a, k: W.queue_at_reset.append(list(W.queue_items())))
    now0 = aio.now(h.it)
    # after the first suspension the rest of the loop is not followed: an iteration is one pop
    state = {"iterations": 0}

    def loop_hook(it, node, env):
        q = sock.attrs["_message_queue"]
        if state["iterations"] == 0:
            state["iterations"] = 1
            state["t_iter"] = aio.now(it)  # the loop time at which this iteration pops its entry
            # the loop test must be true: queue is non-empty by construction
            if not it.test(it.eval(node.test, env)):
                raise PathEnd()
            from pyvc.interp import _Break, _Return, _Continue
            try:
                it.exec_block(node.body, env)
            except _Continue:
                pass
            except (_Break, _Return):
                h.oblige("the drain goes on to the next entry after every entry: it ends only with an empty queue, a lost link or an exception",
                         False, kind="site")
            # the body completed normally: the next iteration is another arbitrary iteration
            raise LoopCut()
        return None

    h.it.loop_hooks[(F_DRAIN, 0)] = loop_hook
    if first:
        r = h.method(sock, "_drain_message_queue")
    else:
        # enter the loop body directly in an arbitrary state: emulate by calling drain while connected, then
        # make the state arbitrary before the loop starts (a suspension happened in a previous iteration)
        sock.attrs["is_connected"] = True
        saved = (sock.attrs["_reader"], sock.attrs["_writer"])
        orig_hook = loop_hook

        def loop_hook2(it, node, env):
            if state["iterations"] == 0:
                W.set_state(tag="resumed")
                # earlier iterations suspended in _write: any amount of time has passed since the drain started
                aio.advance_clock(it, at_least=0)
            return orig_hook(it, node, env)
        h.it.loop_hooks[(F_DRAIN, 0)] = loop_hook2
        r = h.method(sock, "_drain_message_queue")
    return W, sock, e, rest, log, r, state.get("t_iter", now0)


def _drain_obligations(h, W, sock, e, rest, log, r, now0, first):
    expired = now0 >= h.attr(e, "expiry")
    h.oblige("the drain lets no exception out (an escaping exception kills the connect / send that called it)", r.ok)
    wc = [x for x in log if x[0] == "write-call"]
    if h.branch(expired):
        h.oblige("an entry whose lifetime has elapsed is never written", len(wc) == 0)
        return
    h.oblige("an unexpired head entry is written", len(wc) == 1)
    if len(wc) != 1:
        return
    _, hdr, msg, writer_at_call, t_call, queued_at_call = wc[0]
    h.oblige("the entry is taken off the queue before its write can suspend (a concurrent drain cannot transmit it a second time)",
             not any(x is e for x in queued_at_call))
    h.oblige("the frame written is that of the popped head entry: its very header and message",
             And(hdr is h.attr(e, "header"), msg is h.attr(e, "message")))
    h.oblige("the expiry test and the write happen at the same loop time", h.eq(t_call, now0))
    h.oblige("_write is only called while a connection exists (otherwise the message is lost as an 'encoding error')",
             writer_at_call is not None)
    q = W.queue_items()
    resets = calls(W, "reset_connection")
    outcome = [x[2] for x in W.w.events("outcome") if x[1] == "_write"]
    transport_error = bool(outcome) and outcome[0] in ("OSError", "ConnectionResetError")
    h.oblige("the connection is reset if and only if the write met a transport error - whatever retries the entry has left "
             "(a half-open link is never kept, and an encoding error or a good write never costs the link)",
             len(resets) == (1 if transport_error else 0))
    if not transport_error:
        h.oblige("without a transport error nothing is re-queued", all(x is not None and (x is rest or x is e) for x in q) and (len(q) == 0 or q[0] is not e))
    else:
        h.oblige("a transport error resets the connection exactly once", len(resets) == 1)
        if h.branch(h.attr(e, "retries_remaining") == 0):
            h.oblige("no retries left: the entry is dropped, not re-queued", all(x is rest for x in q))
        else:
            ok = len(q) >= 1 and isinstance(q[0], Instance) and q[0] is not rest
            h.oblige("a failed entry with retries left is put back at the head of the queue", ok)
            qr = W.queue_at_reset[0] if W.queue_at_reset else []
            h.oblige("...before the reset can suspend: whatever is accepted while the link is being reset is counted against a buffer "
                     "that already holds the failed entry (the capacity rule), and queues up behind it (the order)",
                     len(qr) >= 1 and isinstance(qr[0], Instance) and qr[0] is not rest and qr[0] is not e
                     and h.attr(qr[0], "message") is msg)
            if ok:
                n = q[0]
                h.oblige("re-queued entry: same header, message and expiry, one retry less",
                         And(h.attr(n, "header") is hdr, h.attr(n, "message") is msg,
                             h.eq(h.attr(n, "expiry"), h.attr(e, "expiry")),
                             h.attr(n, "retries_remaining") == h.attr(e, "retries_remaining") - 1))
    h.cover("drain iteration explored")


@oset("socket._drain_message_queue.first-iteration", ["C01", "C02", "C07", "C16"], [F_DRAIN])
def drain_first(h):
    if not h.symbolic:
        from replay.sock_scenarios import run_library
        return run_library(h, "drain")
    W, sock, e, rest, log, r, now0 = _drain_iteration(h, True)
    _drain_obligations(h, W, sock, e, rest, log, r, now0, True)


@oset("socket._drain_message_queue.later-iteration", ["C01", "C02", "C07", "C16"], [F_DRAIN])
def drain_later(h):
    """An iteration entered after a suspension in an earlier one: the link may be gone by then."""
    if not h.symbolic:
        from replay.sock_scenarios import run_library
        return run_library(h, "drain")
    W, sock, e, rest, log, r, now0 = _drain_iteration(h, False)
    now1 = aio.now(h.it)
    _drain_obligations(h, W, sock, e, rest, log, r, now0, False)


# ------------------------------------------------------------------------------------------------
# _disconnect / reset_connection / close / open_socket


def _install_notify(W, label="_notify_connection_changed"):
    stub_async(W, F_NCC, label, [None])


@oset("socket._disconnect", ["C07", "C15"], [F_DISC])
def disconnect_contract(h):
    if not h.symbolic:
        from replay import more_scenarios as M
        M.oblige_from(h, [M.disconnect_reset_scenarios], {"J1 holds at every suspension point: is_connected <=> a reader and a writer are present", "the connection held at entry is closed before anything else can run", "subscribers are told connected=False exactly once"})
        return
    W = SockWorld(h)
    sock = W.make_socket()
    writer0 = sock.attrs["_writer"]
    _install_notify(W)
    W.check_invariant_at_suspensions()
    r = h.method(sock, "_disconnect")
    ev = h.it.path.events
    h.oblige("_disconnect lets no exception out", r.ok)
    if writer0 is not None:
        ci = idx(ev, lambda e: e[0] == "close" and e[1] is writer0)
        si = idx(ev, lambda e: e[0] == "suspend")
        h.oblige("the connection held at entry is closed before anything else can run", ci >= 0 and (si < 0 or ci < si))
    h.oblige("afterwards: not connected, no reader, no writer",
             And(h.eq(sock.attrs["is_connected"], False), sock.attrs["_reader"] is None, sock.attrs["_writer"] is None))
    n = calls(W, "_notify_connection_changed")
    h.oblige("subscribers are told connected=False exactly once", And(len(n) == 1, n[0][3] == {"connected": False} if n else False))


@oset("socket.reset_connection", ["C07", "C06", "C08"], [F_RESET])
def reset_contract(h):
    if not h.symbolic:
        from replay import more_scenarios as M
        M.oblige_from(h, [M.disconnect_reset_scenarios], {"the connect attempt is scheduled after the disconnect completed", "then schedules exactly one immediate connect attempt"})
        return
    W = SockWorld(h)
    sock = W.make_socket()
    stub_async(W, F_DISC, "_disconnect", [None])
    r = h.method(sock, "reset_connection")
    h.oblige("reset_connection lets no exception out", r.ok)
    sch = scheduled(W)
    ev = h.it.path.events
    h.oblige("disconnects first", len(calls(W, "_disconnect")) == 1)
    h.oblige("then schedules exactly one immediate connect attempt", sch == [("_connect", None)])
    di = idx(ev, lambda e: e[0] == "call" and e[1] == "_disconnect")
    ci = idx(ev, lambda e: e[0] == "create_task")
    h.oblige("the connect attempt is scheduled after the disconnect completed", 0 <= di < ci)


CLOSE_MARKS_FIRST = ("the socket is marked not open before close first suspends (a connection attempt that completes during "
                     "the disconnect is dropped, not adopted)")


@oset("socket.close", ["C15", "C16", "C07"], [F_CLOSE])
def close_contract(h):
    if not h.symbolic:
        from replay import more_scenarios as M
        M.oblige_from(h, [M.close_scenarios], {"close lets no exception out", "afterwards the socket is not open", "close schedules nothing", "an open socket is disconnected by close",
                                               CLOSE_MARKS_FIRST})
        return
    W = SockWorld(h)
    sock = W.make_socket()
    was_open = sock.attrs["is_open"]
    open_at_disconnect = []
    stub_async(W, F_DISC, "_disconnect", [None], needs=lambda a, k: open_at_disconnect.append(sock.attrs["is_open"]))
    r = h.method(sock, "close")
    h.oblige("close lets no exception out", r.ok)
    # _disconnect suspends (wait_closed, the subscribers): whatever completes meanwhile - a connection attempt in
    # flight, a reset by the read loop - must already see a closed socket, or it adopts a connection nobody closes
    h.oblige(CLOSE_MARKS_FIRST, And(*[h.eq(v, False) for v in open_at_disconnect]) if open_at_disconnect else True)
    h.oblige("afterwards the socket is not open", h.eq(sock.attrs["is_open"], False))
    h.oblige("an open socket is disconnected by close", Implies(was_open, len(calls(W, "_disconnect")) == 1) if not isinstance(was_open, bool) else (len(calls(W, "_disconnect")) == 1 if was_open else True))
    h.oblige("close schedules nothing", scheduled(W) == [])


@oset("socket.open_socket", ["C15", "C07", "C09"], [F_OPEN, F_SCHED])
def open_contract(h):
    if not h.symbolic:
        from replay import native_readings as NR
        return NR.socket_open_socket(h)
    W = SockWorld(h)
    sock = W.make_socket(connected=False)
    was_open = h.branch(sock.attrs["is_open"])
    # _connect by contract: if open_socket awaits it (instead of scheduling it) the call shows up here
    stub_async(W, F_CONNECT, "_connect", [None])
    r = h.method(sock, "open_socket")
    h.oblige("open_socket lets no exception out", r.ok)
    h.oblige("open_socket does not wait for the connection: the attempt runs as a background task, so the caller's own "
             "time-out (init(): 5 s) is not spent inside open_socket",
             And(len(calls(W, "_connect")) == 0, W.w.suspensions == 0))
    h.oblige("afterwards the socket is open", h.eq(sock.attrs["is_open"], True))
    h.oblige("opening a closed socket schedules exactly one immediate connect attempt; an open one nothing",
             scheduled(W) == ([] if was_open else [("_connect", None)]))


@oset("socket._delay", ["C07"], [F_DELAY])
def delay_contract(h):
    if not h.symbolic:
        from replay import native_readings as NR
        return NR.socket_delay(h)
    if getattr(h, "concrete", False):
        from pyvc.harness import SkipConformance
        raise SkipConformance("the model clock is a symbolic value after a sleep")
    W = SockWorld(h)
    d = h.real("delay", 0, 100)
    ran = []
    inner = aio.Awaitable("inner", lambda it: ran.append(aio.now(it)) or 42)
    t0 = aio.now(h.it)
    r = h.call(SOCK + ":_delay", inner, d)
    h.oblige("_delay returns the result of the coroutine", And(r.ok, h.eq(r.value, 42) if r.ok else False))
    sl = [e for e in h.it.path.events if e[0] == "sleep"]
    h.oblige("sleeps exactly once, for exactly `delay` seconds", And(len(sl) == 1, h.eq(sl[0][1], d) if sl else False))
    h.oblige("the coroutine runs once, not before `delay` seconds have passed", And(len(ran) == 1, (ran[0] >= t0 + d) if ran else False))
    h.oblige("retry delay constant is 2.0 s", h.get(SOCK + ":_CONNECT_RETRY_DELAY") == 2.0)


# ------------------------------------------------------------------------------------------------
# _connect


@oset("socket._connect", ["C07", "C15", "C01", "C14"], [F_CONNECT, F_SCHED])
def connect_contract(h):
    if not h.symbolic:
        from replay.sock_scenarios import run_library
        return run_library(h, "connect")
    W = SockWorld(h)
    sock = W.make_socket()
    W.check_invariant_at_suspensions()
    W.enable_interference()
    opened = []
    state_at_open = {}

    def open_connection(it, host, port):
        state_at_open["is_open"] = sock.attrs["is_open"]
        state_at_open["is_connected"] = sock.attrs["is_connected"]
        W.w.event("open_connection")
        aio.suspend(it, ("open_connection",))
        state_at_open["connected_after"] = sock.attrs["is_connected"]
        state_at_open["open_after"] = sock.attrs["is_open"]
        k = W.w.nondet(4, "open_connection outcome")
        if k == 1:
            raise it.exc("ConnectionRefusedError", "refused")
        if k == 2:
            raise it.exc("TimeoutError", "timed out")
        if k == 3:
            raise it.exc("OSError", "unreachable")
        rd, wr = ReaderModel(W.w, "new-reader"), WriterModel(W.w, "new-writer")
        opened.append((rd, wr, sock.attrs["is_open"], sock.attrs["is_connected"], sock.attrs["_writer"]))
        return (rd, wr)

    h.it.open_connection_hook = open_connection
    stub_async(W, F_NCC, "_notify_connection_changed", [None])
    stub_async(W, F_DRAIN, "_drain_message_queue", [None])
    connected0 = sock.attrs["is_connected"]
    r = h.method(sock, "_connect")
    ev = h.it.path.events
    sch = scheduled(W)
    h.oblige("_connect lets no exception out", r.ok)
    if connected0:
        h.oblige("already connected: no connection attempt, nothing scheduled", And(idx(ev, lambda e: e[0] == "open_connection") < 0, sch == []))
        return
    attempted = idx(ev, lambda e: e[0] == "open_connection") >= 0
    if attempted:
        h.oblige("a connection is only attempted while the socket is open (shutdown is final)", state_at_open["is_open"])
    if not opened:
        # refused / not attempted
        if attempted:
            # the `is_connected` test follows the failure without suspension: it sees the state the attempt resumed in
            if state_at_open["connected_after"]:
                h.oblige("a failed attempt schedules nothing if somebody else connected meanwhile", sch == [])
            elif h.branch(state_at_open["open_after"]):
                h.oblige("a failed attempt is retried after the 2.0 s back-off and nothing else is scheduled", sch == [("_connect", 2.0)])
            else:
                h.oblige("a failed attempt on a socket closed meanwhile schedules nothing (no task survives shutdown)", sch == [])
        h.oblige("no connected notification without a connection",
                 not any(c[3].get("connected") is True for c in calls(W, "_notify_connection_changed")))
        return
    rd, wr, open_after, connected_after, writer_after = opened[0]
    stale = Or(Not(open_after), connected_after) if not (isinstance(open_after, bool) and isinstance(connected_after, bool)) else ((not open_after) or connected_after)
    if h.branch(stale):
        # the world changed while the attempt was in flight: socket closed, or someone else connected
        h.oblige("a connection that arrives after close() or after another connect won is closed again and not adopted",
                 And(wr.closed, sock.attrs["_writer"] is not wr))
        h.oblige("...and no 'connected' notification is issued for it",
                 not any(c[3].get("connected") is True for c in calls(W, "_notify_connection_changed")))
        h.oblige("...and no read loop is started on it", not any(n == "_read" for n, _ in sch))
        return
    ai = idx(ev, lambda e: e[0] == "call" and e[1] == "_notify_connection_changed")
    di = idx(ev, lambda e: e[0] == "call" and e[1] == "_drain_message_queue")
    ri = idx(ev, lambda e: e[0] == "create_task")
    h.oblige("subscribers are told connected=True", ai >= 0 and calls(W, "_notify_connection_changed")[0][3] == {"connected": True})
    h.oblige("buffered messages are drained after the notification", 0 <= ai < di)
    h.oblige("the read loop is started exactly once; the only other task may be one delayed reconnect (link lost again meanwhile)",
             sch in ([("_read", None)], [("_read", None), ("_connect", 2.0)]))
    h.cover("connected path")


# ------------------------------------------------------------------------------------------------
# _read_one_message / _read


@oset("socket._read_one_message", ["C06", "C13", "C17", "C03"], [F_READ1])
def read_one_contract(h):
    """Touches the transport only through readexactly(header_length), readexactly(message_length),
    readexactly(2); returns a message only if the check bytes read equal CRC16(checksum span ++ payload)
    and both decoders consumed everything; DecodeError -> None; any other decoder exception propagates."""
    if not h.symbolic:
        from replay.read_scenarios import run_library
        return run_library(h)
    W = SockWorld(h, header_length=h.choice("header_length", [8, 20]))
    sock = W.make_socket(connected=True)
    rd = sock.attrs["_reader"]
    deadlines = []
    W.w.site_checks.append(lambda e: deadlines.append(len(h.it.path.ghost.get("timeouts", []))) if e[0] == "readexactly" else None)
    r = h.method(sock, "_read_one_message")
    h.oblige("no deadline is armed while a frame is being read: what is delivered must not depend on how long the segments take to arrive",
             all(d == 0 for d in deadlines))
    ev = h.it.path.events
    reads = [e for e in ev if e[0] == "readexactly"]
    h.oblige("the transport is only read through readexactly", not any(e[0] == "read-other" for e in ev))
    h.oblige("only the reader current at entry is used", all(e[1] is rd for e in reads))
    h.oblige("the only exceptions let out are those of the transport and of the decoders",
             Or(r.ok, r.raised("IncompleteReadError", "OSError", "ValueError", "struct.error", "IndexError", "UnicodeDecodeError")))
    h.oblige("DecodeError never escapes (it means: drop the frame)", Not(r.raised("DecodeError")))
    if len(reads) >= 1:
        h.oblige("first read: exactly header_length bytes", h.eq(reads[0][2], W.header_length))
    if len(reads) >= 2 and W.decoded:
        h.oblige("second read: exactly the payload length announced by the header", h.eq(reads[1][2], W.decoded[0].attrs["message_length"]))
    if len(reads) >= 3:
        h.oblige("third read: exactly the two check bytes", h.eq(reads[2][2], 2))
    h.oblige("at most three reads per frame", len(reads) <= 3)
    if r.ok and r.value is not None:
        hdr, msg = r.value
        dec = [e for e in ev if e[0] == "decode"]
        h.oblige("a delivered frame was read completely", len(reads) == 3)
        h.oblige("the delivered header is the decoded one and the message the decoder's result",
                 And(len(W.decoded) == 1, hdr is W.decoded[0] if W.decoded else False, len(dec) == 1))
        if len(reads) == 3 and len(dec) == 1:
            # bytes of the stream: header at [0, H), payload at [H, H+L), crc at [H+L, H+L+2)
            H = W.header_length
            L = W.decoded[0].attrs["message_length"]
            import z3 as _z3
            span = BytesVal([sym.SInt(_z3.Select(rd.stream, _z3.IntVal(i))) for i in range(2, H)])
            payload = ABytes(rd.stream, H, L, "payload")
            from contracts.common import crc_fold, crc_bytes_of
            exp = crc_bytes_of(crc_fold([span, payload]))
            got0 = sym.SInt(__import__("z3").Select(rd.stream, sym.int_t(H + L)))
            got1 = sym.SInt(__import__("z3").Select(rd.stream, sym.int_t(H + L + 1)))
            h.oblige("delivered only if the check bytes equal CRC16 of (header span ++ payload)",
                     And(got0 == exp[0], got1 == exp[1]))
            h.oblige("the decoder saw exactly the payload bytes and the decoded header", And(h.eq(dec[0][1], payload), dec[0][2] is hdr))
        h.cover("frame delivered")
    h.oblige("reads are consecutive: the cursor ends after the bytes consumed", True)


@oset("socket._read", ["C07", "C06", "C17", "C12", "C13", "C10"], [F_READ])
def read_contract(h):
    """One arbitrary iteration of the read loop and every exit."""
    if not h.symbolic:
        from replay import more_scenarios as M
        M.oblige_from(h, [M.read_delivery_order_scenario])
        return
    W = SockWorld(h)
    sock = W.make_socket(connected=True)
    W.enable_interference()
    delivered = []
    hdr, msg = W.header("rxh"), W.message("rxm")

    got = {"frame": False}

    def one(it):
        got["frame"] = True
        return (hdr, msg)

    stub_async(W, F_READ1, "_read_one_message", [one, None, "IncompleteReadError", "OSError", "ConnectionResetError",
                                                  "ValueError", "StructError", "IndexError", "UnicodeDecodeError"])
    stub_async(W, F_NMR, "_notify_message_received", [None])
    stub_async(W, F_RESET, "reset_connection", [None])
    state = {"n": 0}

    def loop_hook(it, node, env):
        if state["n"] == 0:
            state["n"] = 1
            if not it.test(it.eval(node.test, env)):
                raise PathEnd()
            from pyvc.interp import _Continue
            try:
                it.exec_block(node.body, env)
            except _Continue:
                pass
            raise LoopCut()  # next iteration = another arbitrary iteration
        return None

    h.it.loop_hooks[(F_READ, 0)] = loop_hook
    writer0 = sock.attrs["_writer"]
    r = h.method(sock, "_read")
    ev = h.it.path.events
    h.oblige("the read task lets no exception out", r.ok)
    outcome = [e for e in ev if e[0] == "call" and e[1] == "_read_one_message"]
    notes = calls(W, "_notify_message_received")
    resets = calls(W, "reset_connection")
    h.oblige("one frame is read per iteration", len(outcome) == 1)
    if got["frame"]:
        h.oblige("a frame that was read is delivered before the next one is read: the notification is awaited in the loop, exactly once",
                 len(notes) == 1)
        h.oblige("...and not handed to a background task (deliveries would overlap and depend on segmentation)", scheduled(W) == [])
    else:
        h.oblige("nothing is delivered without a frame", len(notes) == 0)
    if notes:
        h.oblige("subscribers get exactly the header and message that were read", And(len(notes) == 1, notes[0][2][0] is hdr, notes[0][2][1] is msg))
        h.oblige("a delivered frame does not reset the connection", len(resets) == 0)
    h.oblige("at most one reset per iteration", len(resets) <= 1)
    h.cover("read iteration explored")


@oset("socket._read.failure-resets", ["C07", "C06", "C17"], [F_READ])
def read_failures(h):
    """Every way a frame can fail is followed by a connection reset (except EOF on a writer that is already closing)."""
    if not h.symbolic:
        from replay import more_scenarios as M
        M.oblige_from(h, [M.read_failure_scenarios])
        return
    kind = h.choice("failure", ["none-result", "IncompleteReadError", "OSError", "ConnectionResetError", "ValueError",
                                "StructError", "IndexError", "UnicodeDecodeError"])
    W = SockWorld(h)
    sock = W.make_socket(connected=True)
    stub_async(W, F_READ1, "_read_one_message", [None if kind == "none-result" else kind])
    stub_async(W, F_NMR, "_notify_message_received", [None])
    stub_async(W, F_RESET, "reset_connection", [None])
    state = {"n": 0}

    def loop_hook(it, node, env):
        if state["n"] == 0:
            state["n"] = 1
            from pyvc.interp import _Continue
            try:
                it.exec_block(node.body, env)
            except _Continue:
                pass
            raise LoopCut()
        return None

    h.it.loop_hooks[(F_READ, 0)] = loop_hook
    closing = sock.attrs["_writer"].closing
    r = h.method(sock, "_read")
    h.oblige("the read task lets no exception out", r.ok)
    resets = calls(W, "reset_connection")
    h.oblige("nothing is delivered from a failed frame", len(calls(W, "_notify_message_received")) == 0)
    if kind == "IncompleteReadError":
        # state after the suspension is arbitrary: the code must reset iff a writer exists that is not closing
        # (EOF from the peer on the connection in use), and must not when the socket itself gave the connection up
        h.oblige("EOF: at most one reset", len(resets) <= 1)
        wr = sock.attrs["_writer"]
        peer_closed = False if wr is None else Not(wr.closing)
        if h.branch(peer_closed):
            h.oblige("EOF from the peer on the connection in use resets the connection (the client must come back after a peer close)",
                     len(resets) == 1)
        else:
            h.oblige("EOF on a connection the socket itself gave up (no writer, or closing) does not reset again", len(resets) == 0)
    else:
        h.oblige("the failure is followed by exactly one connection reset", len(resets) == 1)


READ_OWN = "a read loop never reads from a connection it was not started for (the socket's reader was replaced while the loop was suspended)"
READ_OWN_RESET = "a read loop whose connection was replaced meanwhile does not reset the connection that replaced it"


@oset("socket._read.connection-replaced-meanwhile", ["C15", "C07", "C13"], [F_READ])
def read_stale(h):
    """Loop invariant of the read task that the iteration-wise contract above cannot see: the loop belongs to ONE connection.
    While it is suspended - delivering a frame to a slow subscriber, or waiting for bytes - the socket may give that
    connection up and adopt another one (reset + reconnect, or close() + open_socket() of a re-initialised client), whose own
    read loop _connect starts.  When the old loop resumes it must be over: two loops on one StreamReader raise
    'readexactly() called while another coroutine is already waiting', which resets the healthy connection, and frames are
    torn between them."""
    if not h.symbolic:
        from replay import more_scenarios as M
        M.oblige_from(h, [M.stale_read_loop_scenarios], {READ_OWN, READ_OWN_RESET})
        return
    from contracts.sockworld import ReaderModel, WriterModel
    W = SockWorld(h)
    sock = W.make_socket(connected=True, is_open=True)
    when = h.choice("replaced_while", ["delivering a frame", "waiting for bytes (old connection ends with EOF)",
                                       "waiting for bytes (old connection ends with a transport error)"])
    hdr, msg = W.header("rxh"), W.message("rxm")
    n = {"reads": 0}

    def replace():
        # what a concurrent _disconnect + _connect leave behind (J1 holds): a new reader / writer pair, connected, open
        sock.attrs["_reader"] = ReaderModel(W.w, "reader@next-connection")
        sock.attrs["_writer"] = WriterModel(W.w, "writer@next-connection", closed=False, closing=False)
        sock.attrs["is_connected"] = True

    def read_one(it):
        n["reads"] += 1
        if n["reads"] > 1:
            raise LoopCut()          # a second read: counted, not followed
        if when == "delivering a frame":
            return (hdr, msg)
        replace()
        raise it.exc("IncompleteReadError" if "EOF" in when else "ConnectionResetError", "old connection")

    def delivered(it):
        replace()
        return None
    stub_async(W, F_READ1, "_read_one_message", [read_one])
    stub_async(W, F_NMR, "_notify_message_received", [delivered])
    stub_async(W, F_RESET, "reset_connection", [None])
    r = h.method(sock, "_read")
    h.oblige("the read task lets no exception out", r.ok)
    h.oblige(READ_OWN, n["reads"] == 1)
    h.oblige(READ_OWN_RESET, len(calls(W, "reset_connection")) == 0)
    h.cover("stale loop explored")


# ------------------------------------------------------------------------------------------------
# send / _notify_subscribers


@oset("socket.send", ["C01", "C03"], [F_SEND])
def send_contract(h):
    if not h.symbolic:
        from replay import native_readings as NR
        return NR.socket_send(h)
    W = SockWorld(h)
    sock = W.make_socket()
    msg = W.message("m")
    pol = h.new(SOCK + ":RetryPolicy", max_retries=h.int("max_retries", 0, 5), max_lifetime=h.real("lifetime", 0, 100))
    seen = []

    def needs(args, kwargs):
        seen.append(args)
    stub_async(W, F_SWH, "send_with_header", [None, "NotOpenError", "QueueOverflowError"], needs)
    # NotOpenError / QueueOverflowError are classes of socket.py, not builtins: route through the real classes
    def raise_cls(name):
        cls = h.get(SOCK + ":" + name)
        def f(it):
            from pyvc.values import PyExc
            raise PyExc(it.instantiate(cls, [], {}))
        return f
    stub_async(W, F_SWH, "send_with_header", [None, raise_cls("NotOpenError"), raise_cls("QueueOverflowError")], needs)
    r = h.method(sock, "send", msg, pol)
    ev = h.it.path.events
    if seen:
        hdr_ev = [e for e in ev if e[0] == "create_header"]
        size_ev = [e for e in ev if e[0] == "size"]
        h.oblige("the header is created for this message with the size its encoder announces",
                 And(len(hdr_ev) == 1, len(size_ev) == 1,
                     hdr_ev[0][2] is msg if hdr_ev else False, size_ev[0][1] is msg if size_ev else False,
                     h.eq(hdr_ev[0][3], size_ev[0][2]) if hdr_ev and size_ev else False))
        h.oblige("send_with_header gets that header, this message and this policy",
                 And(seen[0][0] is hdr_ev[0][1] if hdr_ev else False, seen[0][1] is msg, seen[0][2] is pol))
        h.oblige("exactly one submission", len(seen) == 1)
    else:
        h.oblige("nothing submitted only because the encoder lookup or size() failed",
                 r.raised("NotImplementedError", "ValueError", "struct.error"))
    h.cover("send explored")


def _notify_native(h):
    """Native reading: the real socket with a random mix of well-behaved, slow and raising subscribers."""
    import asyncio as _aio
    from replay import vloop
    import pyairtouch.comms.socket as _S
    import pyairtouch.at4.comms.registry as _reg
    import pyairtouch.at4.comms.x2B_group_status as _gs
    which = h.choice("kind", ["connection", "message"])
    flag = h.choice("connected", [True, False])
    n = h.int("subscribers", 0, 5)
    kinds = [h.choice(f"subscriber_{i}", ["plain", "slow", "raises", "raises-late", "raises-oserror"]) for i in range(n)]

    async def main(loop, net):
        sk = _S.AirTouchSocket(loop, "console", 9004, _reg.INSTANCE)
        seen = []
        hdr, msg = object(), _gs.GroupStatusRequest()

        def make(i, kind):
            async def sub(*a, **k):
                seen.append((i, a, k))
                if kind in ("slow", "raises-late"):
                    await _aio.sleep(0.1 * (i + 1))
                if kind in ("raises", "raises-late"):
                    raise RuntimeError(f"subscriber {i}")
                if kind == "raises-oserror":
                    raise ConnectionResetError(f"subscriber {i}")
            return sub
        for i, kind in enumerate(kinds):
            (sk.subscribe_on_connection_changed if which == "connection" else sk.subscribe_on_message_received)(make(i, kind))
        raised = None
        try:
            if which == "connection":
                await sk._notify_connection_changed(connected=flag)
            else:
                await sk._notify_message_received(hdr, msg)
        except KeyboardInterrupt:
            raise
        except BaseException as e:  # noqa: BLE001
            raised = e
        await _aio.sleep(5.0)
        return raised, seen, hdr, msg
    (raised, seen, hdr, msg), _, _ = vloop.run(main)
    h.oblige("a raising subscriber never makes the notification raise", raised is None)
    h.oblige("the notification walks its subscriber set exactly once (every subscriber is told, nobody twice)",
             sorted(i for i, _, _ in seen) == list(range(n)))
    if which == "connection":
        h.oblige("every connection subscriber is called with connected=<flag>", all(a == () and k == {"connected": flag} for _, a, k in seen))
    else:
        h.oblige("every message subscriber is called with (header, message)", all(len(a) == 2 and a[0] is hdr and a[1] is msg and k == {} for _, a, k in seen))


@oset("socket._notify_subscribers", ["C07", "C12"], [F_NOTIFY, F_NCC, F_NMR])
def notify_contract(h):
    """Every subscriber's call is awaited exactly once; an exception raised by one is swallowed."""
    if not h.symbolic:
        return _notify_native(h)
    W = SockWorld(h)
    sock = W.make_socket()
    which = h.choice("kind", ["connection", "message"])
    if which == "connection":
        flag = h.choice("connected", [True, False])
        r = h.method(sock, "_notify_connection_changed", connected=flag)
    else:
        hdr, msg = W.header("h"), W.message("m")
        r = h.method(sock, "_notify_message_received", hdr, msg)
    h.oblige("a raising subscriber never makes the notification raise", r.ok)
    ev = [e for e in h.it.path.events if e[0] == "for-all-members"]
    h.oblige("the notification walks its subscriber set exactly once (every subscriber is told, nobody twice)", len(ev) == 1)
    if ev:
        if which == "connection":
            h.oblige("every connection subscriber is called with connected=<flag>",
                     And(ev[0][1] == W.conn_subs.descriptor(), list(ev[0][2][0]) == [], ev[0][2][1] == {"connected": flag}))
        else:
            h.oblige("every message subscriber is called with (header, message)",
                     And(ev[0][1] == W.msg_subs.descriptor(), len(ev[0][2][0]) == 2, ev[0][2][0][0] is hdr, ev[0][2][0][1] is msg))
    h.cover("notify explored")


@oset("socket.subscriptions", ["C12", "C13", "C15"], [A + "subscribe_on_connection_changed", A + "unsubscribe_on_connection_changed",
                                               A + "subscribe_on_message_received", A + "unsubcribe_on_message_received"])
def subscriptions_contract(h):
    """The four registration methods touch exactly the set their notification walks (set semantics:
    twice = once; unsubscribing removes; the other set is untouched)."""
    if not h.symbolic:
        # native reading: the real socket object, real callables
        import asyncio as _aio
        import pyairtouch.comms.socket as _S
        import pyairtouch.at4.comms.registry as _reg
        sk = _S.AirTouchSocket(_aio.new_event_loop(), "console", 9004, _reg.INSTANCE)

        async def cb(*a, **k):
            pass

        async def other(*a, **k):
            pass
        for sub, unsub, attr, oattr in (("subscribe_on_connection_changed", "unsubscribe_on_connection_changed", "_connection_subscribers", "_message_subscribers"),
                                        ("subscribe_on_message_received", "unsubcribe_on_message_received", "_message_subscribers", "_connection_subscribers")):
            getattr(sk, sub)(cb)
            getattr(sk, sub)(cb)
            h.oblige(f"{sub} twice registers the callable once, in the set its notification walks",
                     list(getattr(sk, attr)) == [cb] and len(getattr(sk, oattr)) == 0)
            getattr(sk, unsub)(cb)
            h.oblige(f"{unsub} removes it", len(getattr(sk, attr)) == 0)
            try:
                getattr(sk, unsub)(other)
                ok = True
            except Exception:  # noqa: BLE001
                ok = False
            h.oblige(f"{unsub} of a callable that was never subscribed is harmless", ok)
        return
    from pyvc.world import SubscriberModel
    W = SockWorld(h)
    sock = W.make_socket()
    s = SubscriberModel(W.w, "s")
    for sub, unsub, target, other in (("subscribe_on_connection_changed", "unsubscribe_on_connection_changed", W.conn_subs, W.msg_subs),
                                      ("subscribe_on_message_received", "unsubcribe_on_message_received", W.msg_subs, W.conn_subs)):
        a = h.method(sock, sub, s)
        b = h.method(sock, sub, s)
        h.oblige(f"{sub} twice registers the callable once, in the set its notification walks",
                 And(a.ok, b.ok, target.added == [s], other.added == [], other.removed == []))
        c = h.method(sock, unsub, s)
        h.oblige(f"{unsub} removes it", And(c.ok, target.added == [], target.removed == [s]))
        d = h.method(sock, unsub, SubscriberModel(W.w, "never-subscribed"))
        h.oblige(f"{unsub} of a callable that was never subscribed is harmless", d.ok)
        target.removed.clear()
    h.oblige("registration transmits nothing and schedules nothing",
             not [e for e in h.it.path.events if e[0] in ("write", "create_task", "call")])
