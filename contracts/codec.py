"""Generic codec obligations shared by the per-message contract files (C03, C05, C17)."""
from __future__ import annotations

from pyvc.sym import And, Or, Not, Implies, ite

AT4 = "pyairtouch.at4.comms."
AT5 = "pyairtouch.at5.comms."

# exceptions a decoder may use to *reject* a payload (C05 "or rejected", C17): all are
# subclasses of Exception, which the read loop turns into a connection reset.
REJECT = ("DecodeError", "ValueError", "struct.error", "IndexError", "KeyError")


def at4_header(h, message_id, message_length, to=0x80, frm=0xB0, packet_id=None):
    pid = h.int("packet_id", 0, 255) if packet_id is None else packet_id
    return h.new(AT4 + "hdr:At4Header", to_address=to, from_address=frm, packet_id=pid,
                 message_id=message_id, message_length=message_length)


def at4_subheader(h, message_id, message_length):
    return h.new(AT4 + "x1F_ext:ExtendedMessageSubHeader", message_id=message_id, message_length=message_length)


def at5_header(h, message_id, message_length, to=0x80, frm=0xB0, packet_id=None):
    pid = h.int("packet_id", 0, 255) if packet_id is None else packet_id
    return h.new(AT5 + "hdr:At5Header", to_address=to, from_address=frm, packet_id=pid,
                 message_id=message_id, message_length=message_length)


def at5_ext_subheader(h, message_id, message_length):
    return h.new(AT5 + "x1F_ext:ExtendedMessageSubHeader", message_id=message_id, message_length=message_length)


def at5_c0_subheader(h, sub_id, non_repeat_length, repeat_length, repeat_count):
    return h.new(AT5 + "xC0_ctrl_status:ControlStatusSubHeader", sub_message_id=sub_id,
                 non_repeat_length=non_repeat_length, repeat_length=repeat_length, repeat_count=repeat_count)


def roundtrip_plain(h, enc_cls, dec_cls, msg, mk_header, message_id, expect=None):
    """C03 for one codec with the size/encode/decode interface (AT4 messages, AT4/AT5 extended
    sub-messages).  mk_header(h, message_id, length) builds the header the receive path would
    reconstruct.  `expect` (default msg) is the message decode must return."""
    enc = h.new(enc_cls)
    dec = h.new(dec_cls)
    s = h.method(enc, "size", msg)
    h.oblige("size() does not raise on a valid message", s.ok)
    if not s.ok:
        return None
    size = s.value
    hdr = mk_header(h, message_id, size)
    e = h.method(enc, "encode", hdr, msg)
    h.oblige("encode() does not raise on a valid message", e.ok)
    if not e.ok:
        return None
    out = e.value
    h.oblige("announced size == number of payload bytes produced", h.eq(h.length(out), size))
    d = h.method(dec, "decode", out, hdr)
    h.oblige("decode() accepts the encoder's output", d.ok)
    if not d.ok:
        return out
    res = d.value
    h.oblige("decoded message equals the original", h.eq(h.attr(res, "message"), msg if expect is None else expect))
    h.oblige("nothing left over", h.eq(h.length(h.attr(res, "remaining")), 0))
    ac = h.method(res, "assert_complete")
    h.oblige("assert_complete passes", ac.ok)
    h.cover("roundtrip completes")
    return out


def roundtrip_err_info_any_length(h, mod, mk_header, message_id):
    """C03 for the error-information codec over *every* string length (unbounded: the text is a
    symbolic-length UTF-8 buffer).  1..255 bytes: exact round trip and vendor layout (AC number, length byte,
    text); more than 255 bytes cannot be announced by the length byte: encode refuses with ValueError."""
    info = h.string_any("error_info", min_bytes=1)
    nbytes = h.length(h.utf8_view(info))
    ac = h.int("ac_number", 0, 255)
    msg = h.new(mod + ":AcErrorInformationMessage", ac_number=ac, error_info=info)
    enc, dec = h.new(mod + ":AcErrorInformationEncoder"), h.new(mod + ":AcErrorInformationDecoder")
    s = h.method(enc, "size", msg)
    h.oblige("size() does not raise", s.ok)
    if not s.ok:
        return
    h.oblige("announced size = AC number + length byte + text bytes", h.eq(s.value, 2 + nbytes))
    hdr = mk_header(h, message_id, s.value)
    e = h.method(enc, "encode", hdr, msg)
    if h.branch(nbytes > 255):
        h.oblige("a text longer than the length byte can announce is refused (ValueError), never truncated or wrapped", e.raised("ValueError"))
        h.cover("too long refused")
        return
    h.oblige("encode() does not raise for a text of 1..255 bytes", e.ok)
    if not e.ok:
        return
    out = h.frozen(e.value)
    h.oblige("announced size == number of payload bytes produced", h.eq(h.length(out), s.value))
    head, tail = h.split_at(out, 2)
    h.oblige("wire: AC number, then the text length", And(head[0] == ac, head[1] == nbytes))
    h.oblige("wire: then exactly the UTF-8 bytes of the text", h.eq(tail, h.utf8_view(info)))
    d = h.method(dec, "decode", out, hdr)
    h.oblige("decode() accepts the encoder's output", d.ok)
    if not d.ok:
        return
    res = d.value
    h.oblige("decoded message equals the original", h.eq(h.attr(res, "message"), msg))
    h.oblige("nothing left over", h.eq(h.length(h.attr(res, "remaining")), 0))
    h.oblige("assert_complete passes", h.method(res, "assert_complete").ok)
    h.cover("roundtrip completes")


def roundtrip_c0(h, enc_cls, dec_cls, msg, sub_id, expect=None):
    """C03 for an AT5 0xC0 sub-codec (non_repeat_size / repeat_count / repeat_size / encode)."""
    enc = h.new(enc_cls)
    dec = h.new(dec_cls)
    nr = h.method(enc, "non_repeat_size", msg)
    rc = h.method(enc, "repeat_count", msg)
    rs = h.method(enc, "repeat_size", msg)
    h.oblige("size functions do not raise on a valid message", And(nr.ok, rc.ok, rs.ok))
    if not (nr.ok and rc.ok and rs.ok):
        return None
    hdr = at5_c0_subheader(h, sub_id, nr.value, rs.value, rc.value)
    e = h.method(enc, "encode", hdr, msg)
    h.oblige("encode() does not raise on a valid message", e.ok)
    if not e.ok:
        return None
    out = e.value
    h.oblige("non_repeat + count * repeat == number of payload bytes produced",
             h.eq(h.length(out), nr.value + rc.value * rs.value))
    d = h.method(dec, "decode", out, hdr)
    h.oblige("decode() accepts the encoder's output", d.ok)
    if not d.ok:
        return out
    res = d.value
    h.oblige("decoded message equals the original", h.eq(h.attr(res, "message"), msg if expect is None else expect))
    h.oblige("nothing left over", h.eq(h.length(h.attr(res, "remaining")), 0))
    h.cover("roundtrip completes")
    return out


def only_rejects(h, r, allowed=REJECT):
    """The outcome is a normal return or one of the rejection exceptions."""
    return Or(r.ok, r.raised(*allowed))
