"""The environment in which pyairtouch.comms.socket.AirTouchSocket is verified: stub codecs given by
their contracts (the socket is verified *modularly* against them), stream models, subscriber sets,
the object invariant and the interference (havoc) function.  DESIGN.md 2.6.
"""
from __future__ import annotations

from pyvc.values import unmodelled as _unmodelled  # noqa: E402
import z3

from pyvc import sym, aio
from pyvc.sym import And, Or, Not, Implies, ite, SBool, SInt
from pyvc.values import (Class, Instance, Builtin, BytesVal, ABytes, DequeVal, SetVal, Opaque, Unsupported, PyExc)
from pyvc.world import World, WriterModel, ReaderModel, AbsSet, SubscriberModel
from pyvc.pybuiltins import Rope
from contracts.common import crc_fold, crc_bytes_of

SOCK = "pyairtouch.comms.socket"
COMMS = "pyairtouch.comms"

_STUB_MSG = Class("StubMessage", [], {}, module="verif.stub")
_STUB_HDR = Class("StubHeader", [], {}, module="verif.stub")

# exceptions the *contracts* of the encoders allow (contracts/*_codecs: struct.error for a field
# outside its wire range, NotImplementedError for an unregistered (sub-)message id, ValueError)
ENCODE_EXCEPTIONS = ["ValueError", "NotImplementedError", "StructError"]
# exceptions the contracts of the decoders allow
DECODE_EXCEPTIONS = ["DecodeError", "ValueError", "StructError", "IndexError", "UnicodeDecodeError"]


class _Obj:
    """Tiny helper for native model objects with a method table."""

    def __init__(self, name, **methods):
        self._name = name
        self._methods = methods
        self.attrs = {}

    def __repr__(self):
        return f"<{self._name}>"

    def py_getattr(self, it, name):
        if name in self.attrs:
            return self.attrs[name]
        if name in self._methods:
            f = self._methods[name]
            return Builtin(f"{self._name}.{name}", lambda *a, **k: f(it, *a, **k))
        raise _unmodelled(self, name)

    def py_truth(self, it):
        return True


class SockWorld:
    def __init__(self, h, header_length=8):
        self.h = h
        self.it = it = h.it
        self.w = World(it)
        self.header_length = header_length
        self.n_msgs = 0
        self.frames = {}  # id(header) / (id(header), id(message)) -> symbolic buffers
        self.decoded = []
        self.comms = h.get(COMMS + ":")
        self._decode_err = h.get(COMMS + ":DecodeError")
        self.registry = self._make_registry()
        self.loop = aio.LoopModel()
        self.sock = None

    # ---- messages / headers / entries ---------------------------------------------------------
    def message(self, label=None):
        self.n_msgs += 1
        label = label or f"m{self.n_msgs}"
        m = Instance(_STUB_MSG, {"message_id": self.h.int(f"{label}_id", 0, 0xFFFF), "label": label})
        return m

    def header(self, label, message_length=None):
        ml = self.h.int(f"{label}_len", 0, 65535) if message_length is None else message_length
        return Instance(_STUB_HDR, {"message_id": self.h.int(f"{label}_mid", 0, 255), "message_length": ml, "label": label})

    def entry(self, label, retries=None, expiry=None):
        h = self.h
        r = h.int(f"{label}_retries", 0, None) if retries is None else retries
        e = h.real(f"{label}_expiry") if expiry is None else expiry
        return h.new(SOCK + ":_MessageQueueEntry", header=self.header(label + "_h"), message=self.message(label + "_m"),
                     retries_remaining=r, expiry=e)

    # ---- frame spec functions (uninterpreted: what the codec contracts say an encoder returns) ----
    def header_bytes(self, hdr):
        k = ("hb", id(hdr))
        if k not in self.frames:
            n = self.header_length
            arr = z3.Array(sym.fresh_name("HB_" + str(hdr.attrs.get("label"))), z3.IntSort(), z3.IntSort())
            self.frames[k] = ABytes(arr, 0, n, "HB(" + str(hdr.attrs.get("label")) + ")")
        return self.frames[k]

    def checksum_span(self, hdr):
        hb = self.header_bytes(hdr)
        return ABytes(hb.arr, 2, hb.ln - 2, hb.name + "[2:]")

    def payload_bytes(self, hdr, msg):
        k = ("pb", id(hdr), id(msg))
        if k not in self.frames:
            arr = z3.Array(sym.fresh_name("PB_" + str(msg.attrs.get("label"))), z3.IntSort(), z3.IntSort())
            self.frames[k] = ABytes(arr, 0, hdr.attrs["message_length"], "PB(" + str(msg.attrs.get("label")) + ")")
        return self.frames[k]

    def crc_bytes(self, hdr, msg):
        return crc_bytes_of(crc_fold([self.checksum_span(hdr), self.payload_bytes(hdr, msg)]))

    # ---- stub registry ---------------------------------------------------------------------------
    def _make_registry(self):
        W = self
        it = self.it
        h = self.h

        def raise_one(it2, names, label):
            k = W.w.nondet(len(names), label)
            raise it2.exc(names[k], label) if names[k] != "DecodeError" else PyExc(it2.instantiate(W._decode_err, ["stub"], {}))

        def create_from_message(it2, message, message_length):
            hdr = Instance(_STUB_HDR, {"message_id": it2.getattr(message, "message_id"), "message_length": message_length,
                                      "label": "hdr-of-" + str(message.attrs.get("label"))})
            W.w.event("create_header", hdr, message, message_length)
            return hdr

        def hdr_encode(it2, header):
            if W.w.nondet(2, "header encode outcome") == 1:
                raise it2.exc("StructError", "header field out of range")
            return h.new(COMMS + ":HeaderEncodeResult", header_bytes=W.header_bytes(header), checksum_data=W.checksum_span(header))

        def get_encoder(it2, message_id):
            W.w.event("get_encoder", message_id)
            if W.w.nondet(2, "get_encoder outcome") == 1:
                raise it2.exc("NotImplementedError", "no encoder")
            return enc

        def enc_size(it2, message):
            k = W.w.nondet(1 + len(ENCODE_EXCEPTIONS), "size outcome")
            if k > 0:
                raise it2.exc(ENCODE_EXCEPTIONS[k - 1], "size")
            s = h.int(f"size_{message.attrs.get('label')}", 0, 65535)
            W.w.event("size", message, s)
            return s

        def enc_encode(it2, header, message):
            k = W.w.nondet(1 + len(ENCODE_EXCEPTIONS), "encode outcome")
            if k > 0:
                raise it2.exc(ENCODE_EXCEPTIONS[k - 1], "encode")
            return W.payload_bytes(header, message)

        enc = _Obj("stub-encoder", size=enc_size, encode=enc_encode)

        def calculate(it2, buffer):
            parts = buffer.parts if isinstance(buffer, Rope) else [buffer]
            return BytesVal(crc_bytes_of(crc_fold(parts)))

        def validate(it2, buffer, checksum):
            n = it2.builtins["len"].fn(it2, checksum)
            if it2.path.branch(n != 2) if sym.is_sym(n) else n != 2:
                raise it2.exc("ValueError", "checksum must be 2 bytes")
            parts = buffer.parts if isinstance(buffer, Rope) else [buffer]
            exp = crc_bytes_of(crc_fold(parts))
            c = checksum.items if isinstance(checksum, BytesVal) else [checksum.at(0), checksum.at(1)]
            return And(c[0] == exp[0], c[1] == exp[1])

        crc = _Obj("crc", calculate=calculate, validate=validate)
        crc.attrs["checksum_length"] = 2

        def hdr_decode(it2, buffer):
            W.w.event("header_decode", buffer)
            k = W.w.nondet(3, "header decode outcome")
            if k == 1:
                raise PyExc(it2.instantiate(W._decode_err, ["bad prefix"], {}))
            if k == 2:
                raise it2.exc("StructError", "short header")
            n = W.header_length
            hdr = W.header(f"rx{len(W.decoded)}")
            res = h.new(COMMS + ":HeaderDecodeResult", header=hdr, remaining=it2.getitem(buffer, slice(n, None)),
                        checksum_data=it2.getitem(buffer, slice(2, n)))
            W.decoded.append(hdr)
            return res

        hdec = _Obj("stub-header-decoder", decode=hdr_decode)
        hdec.attrs["header_length"] = W.header_length

        def get_decoder(it2, message_id):
            W.w.event("get_decoder", message_id)
            return dec

        def dec_decode(it2, buffer, header):
            W.w.event("decode", buffer, header)
            k = W.w.nondet(1 + len(DECODE_EXCEPTIONS), "decode outcome")
            if k > 0:
                name = DECODE_EXCEPTIONS[k - 1]
                if name == "DecodeError":
                    raise PyExc(it2.instantiate(W._decode_err, ["stub"], {}))
                raise it2.exc(name, "decode")
            msg = W.message(f"rxmsg{len(W.decoded)}")
            rem_nonempty = W.w.nondet(2, "decode remaining")
            rem = BytesVal([]) if rem_nonempty == 0 else BytesVal([h.int(f"rem{len(W.decoded)}", 0, 255)])
            return h.new(COMMS + ":MessageDecodeResult", message=msg, remaining=rem)

        dec = _Obj("stub-decoder", decode=dec_decode)
        reg = _Obj("stub-registry", get_encoder=get_encoder, get_decoder=get_decoder)
        reg.attrs.update(header_factory=_Obj("stub-header-factory", create_from_message=create_from_message),
                         header_encoder=_Obj("stub-header-encoder", encode=hdr_encode), header_decoder=hdec,
                         checksum_calculator=crc)
        return reg

    # ---- the socket object -------------------------------------------------------------------------
    def make_socket(self, *, queue=None, connected=None, is_open=None):
        """An AirTouchSocket in an arbitrary state satisfying the object invariant."""
        h = self.h
        q = DequeVal(queue if queue is not None else [])
        self.conn_subs = AbsSet(self.w, "connection_subscribers")
        self.msg_subs = AbsSet(self.w, "message_subscribers")
        self.sock = h.raw(SOCK + ":AirTouchSocket", _loop=self.loop, host=Opaque("host"), port=Opaque("port"),
                          _registry=self.registry, is_open=False, is_connected=False, _background_tasks=SetVal(),
                          _reader=None, _writer=None, _message_queue=q,
                          _connection_subscribers=self.conn_subs, _message_subscribers=self.msg_subs)
        self.set_state(connected=connected, is_open=is_open, tag="init")
        return self.sock

    def set_state(self, connected=None, is_open=None, tag="s"):
        """(Re)establish an arbitrary invariant state of the connection fields.
        Invariant J1 (holds at every suspension point of socket.py): is_connected <=> _reader is not None
        <=> _writer is not None."""
        h = self.h
        s = self.sock
        n = self.w.suspensions
        if connected is None:
            connected = self.w.nondet(2, f"connected? ({tag})") == 1
        s.attrs["is_connected"] = connected
        s.attrs["is_open"] = h.bool(f"is_open@{tag}{n}") if is_open is None else is_open
        if connected:
            s.attrs["_reader"] = ReaderModel(self.w, f"reader@{tag}{n}")
            s.attrs["_writer"] = WriterModel(self.w, f"writer@{tag}{n}", closed=False,
                                             closing=h.bool(f"closing@{tag}{n}"))
        else:
            s.attrs["_reader"] = None
            s.attrs["_writer"] = None
        return connected

    def check_invariant_at_suspensions(self):
        """Owicki-Gries obligation: the socket's own code re-establishes J1 before every suspension
        (so assuming J1 after a suspension is justified).  Checked on the state the coroutine leaves
        behind, before the interference replaces it."""
        h = self.h

        def check(reason):
            s = self.sock
            if s is None:
                return
            c = s.attrs["is_connected"]
            r, w = s.attrs["_reader"], s.attrs["_writer"]
            ok = And(sym.eq(c, True) if not isinstance(c, bool) else c, r is not None, w is not None) if (r is not None or w is not None) else Not(c)
            both = (r is None) == (w is None)
            h.oblige("J1 holds at every suspension point: is_connected <=> a reader and a writer are present",
                     And(both, ok if (r is not None or w is not None) else Not(c)), kind="invariant")
        self.w.havocs.insert(0, check)

    def enable_interference(self, queue_model=None):
        """From now on every suspension replaces the connection state by an arbitrary invariant state."""
        def havoc(reason):
            self.set_state(tag="havoc")
            if queue_model is not None:
                queue_model(reason)
        self.w.havocs.append(havoc)


    def clock(self):
        return aio.now(self.it)

    def queue_items(self):
        return list(self.sock.attrs["_message_queue"].items)


def make_world(h, **kw):
    if h.symbolic:
        return SockWorld(h, **kw)
    from contracts.sockworld_native import NativeSockWorld
    return NativeSockWorld(h, **kw)


def writes_of(world, writer=None):
    return [e for e in world.events("write") if writer is None or e[1] is writer]
