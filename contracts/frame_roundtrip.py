"""C03, whole-frame composition: what AirTouchSocket.send / _write put on the wire for a message is accepted
by _read_one_message of a socket using the same registry and yields an equal header and message, nothing
left over - through the *real* registries, header codecs and message codecs (CRC by its contract,
contracts/c06_crc.py).  Representative message kinds of both generations incl. both wrappers; the general
statement is the composition of the per-class codec contracts with the _write / _read_one_message contracts.
"""
from pyvc.values import unmodelled as _unmodelled  # noqa: E402
from pyvc import aio, sym
from pyvc.sym import And, Or, Not, Implies
from pyvc.vc import oset
from pyvc.values import BytesVal, DequeVal, SetVal, Opaque, Builtin
from pyvc.world import World, WriterModel, AbsSet
from contracts.c06_crc import use_calculate_contract
from contracts.at4_ctrl_status import gen_group_control, gen_ac_status_data, X2D
from contracts.codec import AT4, AT5

SOCK = "pyairtouch.comms.socket"


class FrameReader:
    """StreamReader serving exactly one recorded frame (a list of byte terms)."""

    def __init__(self, world, items):
        self.w = world
        self.items = list(items)
        self.pos = 0

    def py_truth(self, it):
        return True

    def py_getattr(self, it, name):
        if name == "readexactly":
            def readexactly(n):
                def run(it2):
                    aio.suspend(it2, ("readexactly",))
                    left = len(self.items) - self.pos
                    if sym.is_sym(n):
                        for c in range(left + 1):
                            if it2.path.branch(n == c):
                                k = c
                                break
                        else:
                            raise it2.exc("IncompleteReadError", "frame shorter than announced")
                    else:
                        k = n
                        if k > left:
                            raise it2.exc("IncompleteReadError", "frame shorter than announced")
                    out = BytesVal(self.items[self.pos:self.pos + k])
                    self.pos += k
                    return out
                return aio.Awaitable("readexactly", run)
            return Builtin("reader.readexactly", readexactly)
        raise _unmodelled(self, name)


def messages(h, kind):
    if kind == "at4-group-control":
        return "pyairtouch.at4.comms.registry", gen_group_control(h)[0]
    if kind == "at4-ac-status-2":
        return "pyairtouch.at4.comms.registry", h.new(X2D + ":AcStatusMessage", [gen_ac_status_data(h, i) for i in range(2)])
    if kind == "at4-ext-version-request":
        return "pyairtouch.at4.comms.registry", h.new(AT4 + "x1F_ext:ExtendedMessage", h.new(AT4 + "x1FFF30_console_ver:ConsoleVersionRequest"))
    if kind == "at4-ext-ability-request":
        return "pyairtouch.at4.comms.registry", h.new(AT4 + "x1F_ext:ExtendedMessage", h.new(AT4 + "x1FFF11_ac_ability:AcAbilityRequest", h.int("ac", 0, 3)))
    if kind == "at5-zone-control":
        Z = AT5 + "xC020_zone_ctrl"
        rec = h.new(Z + ":ZoneControlData", zone_number=h.int("zone", 0, 15), zone_power=h.enum("zp", Z + ":ZonePowerControl"),
                    zone_setting=h.new(Z + ":ZoneDamperControl", h.int("pct", 0, 100)))
        return "pyairtouch.at5.comms.registry", h.new(AT5 + "xC0_ctrl_status:ControlStatusMessage", h.new(Z + ":ZoneControlMessage", [rec]))
    if kind == "at5-ac-status-request":
        return "pyairtouch.at5.comms.registry", h.new(AT5 + "xC0_ctrl_status:ControlStatusMessage", h.new(AT5 + "xC023_ac_status:AcStatusRequest"))
    if kind == "at5-ext-zone-names-request":
        return "pyairtouch.at5.comms.registry", h.new(AT5 + "x1F_ext:ExtendedMessage", h.new(AT5 + "x1FFF13_zone_names:ZoneNamesRequest", "ALL"))
    raise KeyError(kind)


KINDS = ["at4-group-control", "at4-ac-status-2", "at4-ext-version-request", "at4-ext-ability-request",
         "at5-zone-control", "at5-ac-status-request", "at5-ext-zone-names-request"]


@oset("frame.send-then-receive", ["C03", "C01", "C13"],
      [SOCK + ":AirTouchSocket.send", SOCK + ":AirTouchSocket.send_with_header", SOCK + ":AirTouchSocket._write",
       SOCK + ":AirTouchSocket._read_one_message", SOCK + ":AirTouchSocket._drain_message_queue"],
      assumptions=["Crc16Modbus.calculate by its contract (proved in crc16.calculate)"])
def send_then_receive(h):
    if not h.symbolic:
        from replay import native_readings as NR
        return NR.frame_send_then_receive(h, messages, KINDS)
    kind = h.choice("message_kind", KINDS)
    regmod, msg = messages(h, kind)
    reg = h.get(regmod + ":INSTANCE")
    h.setattr(h.attr(reg, "header_factory"), "_next_packet_id", h.int("next_packet_id", 0, 255))
    use_calculate_contract(h)
    w = World(h.it)
    wr = WriterModel(w, "tx")
    tx = h.raw(SOCK + ":AirTouchSocket", _loop=aio.LoopModel(), host=Opaque("h"), port=Opaque("p"), _registry=reg, is_open=True,
               is_connected=True, _background_tasks=SetVal(), _reader=Opaque("r"), _writer=wr, _message_queue=DequeVal(),
               _connection_subscribers=AbsSet(w, "c"), _message_subscribers=AbsSet(w, "m"))
    pol = h.get(SOCK + ":RETRY_IDEMPOTENT")
    # no transport failure in this scenario
    orig_nondet = w.nondet
    w.nondet = lambda n, label: 0 if label in ("drain outcome", "readexactly outcome") else orig_nondet(n, label)
    r = h.method(tx, "send", msg, pol)
    h.oblige("send of a valid message succeeds", r.ok)
    writes = [e for e in w.events("write") if e[1] is wr]
    h.oblige("exactly one frame (three writes) reaches the wire", len(writes) == 3)
    if len(writes) != 3:
        return
    frame = []
    for e in writes:
        frame.extend(h.items(e[2]))
    rx = h.raw(SOCK + ":AirTouchSocket", _loop=aio.LoopModel(), host=Opaque("h"), port=Opaque("p"), _registry=reg, is_open=True,
               is_connected=True, _background_tasks=SetVal(), _reader=FrameReader(w, frame), _writer=WriterModel(w, "rxw"),
               _message_queue=DequeVal(), _connection_subscribers=AbsSet(w, "c2"), _message_subscribers=AbsSet(w, "m2"))
    r2 = h.method(rx, "_read_one_message")
    h.oblige("the receive path accepts the frame (no exception)", r2.ok)
    if not r2.ok:
        return
    h.oblige("...and delivers it (prefix, lengths and check bytes accepted)", r2.value is not None)
    if r2.value is None:
        return
    hdr, got = r2.value
    h.oblige("the received message equals the one sent", h.eq(got, msg))
    sent_hdr = None
    h.oblige("the received header carries the message type and the announced payload length",
             And(h.attr(hdr, "message_id") == h.attr(msg, "message_id"), h.attr(hdr, "from_address") == 0xB0,
                 h.attr(hdr, "message_length") == len(frame) - (8 if regmod.startswith("pyairtouch.at4") else 20) - 2))
    h.oblige("nothing is left over on the stream", rx.attrs["_reader"].pos == len(frame))
    h.cover("frame round trip")
