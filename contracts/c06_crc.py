"""C06 (part 1): Crc16Modbus.calculate / validate against the reference CRC-16/MODBUS.

Unbounded in the buffer length: the real `for val in buffer` loop is verified with the loop
invariant  crc_k == CRC(buffer[:k])  where CRC is the bitwise reference of spec/crc_spec.py.
The preservation obligation is the table-vs-bitwise step lemma over 16+8-bit vectors, with the
256-entry table read from the source literal of /repo/pyairtouch/comms/crc16.py.
"""
import z3

from pyvc import sym
from pyvc.sym import SBV, And, Or, Not, Implies, ite
from pyvc.vc import oset
from pyvc.loops import ForInvariant
from spec import crc_spec
from contracts.common import CRC_FROM, bv16, crc_of_view, crc_bytes_of, crc_fold

CRC_MOD = "pyairtouch.comms.crc16"
CALC = CRC_MOD + ":Crc16Modbus.calculate"
VALID = CRC_MOD + ":Crc16Modbus.validate"


def _crc_loop_contract():
    """Loop contract of the byte loop, relative to the register value c0 the loop is entered with:
    crc_k == CRC_from(c0, buffer[:k]).  In `calculate(buffer)` of the pinned tree c0 is the literal 0xFFFF, which
    makes this the reference CRC of the prefix; stating it relative to c0 lets the same contract carry a byte loop
    that is entered with a running register (a refactoring into `update(buffer, crc)` and a tuple of parts)."""
    from pyvc.values import ABytes, BytesVal

    def hook(it, node, env):
        iterable = it.eval(node.iter, env)
        if isinstance(iterable, (BytesVal, bytes, bytearray)) and _is_crc_byte_loop(CRC_MOD + ":", node):
            # a buffer of known length (symbolic byte values): the loop by its contract - exit state of the invariant,
            # crc == CRC_from(entry register, buffer); the contract itself is discharged for every buffer in crc16.calculate
            from pyvc.loops import havoc_assigned
            c0 = env.lookup("crc")
            if not isinstance(c0, (int, SBV)) or isinstance(c0, bool):
                return NotImplemented
            havoc_assigned(it, node, env, keep=["crc"])
            env.vars["crc"] = crc_fold([iterable], c0)
            return None
        if not isinstance(iterable, ABytes):
            return NotImplemented  # a concrete sequence (a tuple of parts): iterated as it is
        c0 = env.lookup("crc")
        if isinstance(c0, SBV) and c0.w > 16:
            return NotImplemented
        c0t = bv16(c0)

        def fresh(it_, var, label):
            return SBV(z3.BitVec(sym.fresh_name("crc_" + label), 16))

        def define(it_, k, view):
            # ground instances of the recursive definition of the reference CRC
            if k == "init":
                it_.path.assume(crc_of_view(view, 0, c0) == SBV(c0t), "definition: CRC over the empty prefix is the entry register (0xFFFF at the start)")
            elif k is not None:
                b = view.at(k)
                step = crc_spec.byte_step(crc_of_view(view, k, c0), SBV(z3.Int2BV(b.t, 16)))
                it_.path.assume(crc_of_view(view, k + 1, c0) == step,
                                "definition: CRC(prefix k+1) = byte_step(CRC(prefix k), byte k) (bitwise reference)")

        def inv(it_, k, st, view):
            crc = st["crc"]
            if isinstance(crc, int):
                crc = SBV(z3.BitVecVal(crc, 16))
            # the register never exceeds 16 bits, and equals the reference over the prefix
            return And(crc.w <= 16, crc == crc_of_view(view, k, c0))

        return ForInvariant("crc-loop", ["crc"], fresh, inv, define=define)(it, node, env)

    return hook


def _is_crc_byte_loop(fullname, node):
    """Any `for <v> in <...>` of the crc16 module whose body updates a local called crc."""
    import ast
    if not fullname.startswith(CRC_MOD + ":") or not isinstance(node, ast.For):
        return False
    for n in ast.walk(node):
        if isinstance(n, (ast.AugAssign, ast.Assign)):
            tg = [n.target] if isinstance(n, ast.AugAssign) else n.targets
            if any(isinstance(t, ast.Name) and t.id == "crc" for t in tg) and any(
                    isinstance(x, ast.Subscript) for x in ast.walk(n.value)):
                return True
    return False


def install_crc_loop_contract(h):
    hk = _crc_loop_contract()
    h.it.loop_hooks[(CALC, 0)] = hk
    if not any(p is _is_crc_byte_loop for p, _ in h.it.loop_matchers):
        h.it.loop_matchers.append((_is_crc_byte_loop, hk))


def expected_check_bytes(h, buf):
    if h.symbolic:
        return crc_bytes_of(crc_of_view(buf))
    return list(crc_spec.check_bytes(buf))


@oset("crc16.calculate", ["C06", "C03", "C04"], [CALC],
      assumptions=["bytes objects hold values 0..255 (CPython invariant)"])
def calculate_contract(h):
    buf = h.abytes("buffer", max_len=None)
    calc = h.new(CRC_MOD + ":Crc16Modbus")
    if h.symbolic:
        install_crc_loop_contract(h)
    r = h.method(calc, "calculate", buf)
    h.oblige("never raises", r.ok)
    if not r.ok:
        return
    items = h.items(r.value)
    h.oblige("returns exactly two bytes", len(items) == 2)
    if len(items) != 2:
        return
    exp = expected_check_bytes(h, buf)
    h.oblige("equals CRC-16/MODBUS of the buffer, high byte first", And(items[0] == exp[0], items[1] == exp[1]))
    h.cover("calculate returns")


@oset("crc16.calculate.parts", ["C06"], [CALC],
      assumptions=["bytes objects hold values 0..255 (CPython invariant)"])
def calculate_parts_contract(h):
    """The checksum over data handed over in parts.  The pinned calculate() takes one buffer and refuses a tuple of
    buffers with TypeError; a calculate() that accepts its data in parts must return the CRC-16/MODBUS of the joined
    bytes (the check bytes cover 'address through payload' whatever way the caller hands them over).  Every byte loop
    of the module is under the entry-relative loop contract."""
    b1 = h.abytes("part1", max_len=None)
    b2 = h.abytes("part2", max_len=None)
    calc = h.new(CRC_MOD + ":Crc16Modbus")
    shape = h.native_choice("boundary_register", ["as drawn", "0x0000 at the part boundary", "0xFFFF at the part boundary"])
    if not h.symbolic and shape != "as drawn":
        # native search only: a running register that reaches a special value exactly at the part boundary is a
        # 1-in-65536 event for random data; two appended bytes steer it there (the step function is a bijection on
        # the low byte for a fixed input byte pair, so some pair always exists)
        want = 0x0000 if shape.startswith("0x0000") else 0xFFFF
        base = bytes(b1)
        T = [crc_spec.byte_step(i, 0) for i in range(256)]  # table of the *reference* (byte_step(c, v) = (c >> 8) ^ T[(c ^ v) & 0xFF])
        c0 = crc_spec.crc16_modbus(base)
        found = None
        for v1 in range(256):
            c1 = (c0 >> 8) ^ T[(c0 ^ v1) & 0xFF]
            for v2 in range(256):
                if (c1 >> 8) ^ T[(c1 ^ v2) & 0xFF] == want:
                    found = bytes([v1, v2])
                    break
            if found:
                break
        if found and crc_spec.crc16_modbus(base + found) == want:
            b1 = base + found
    if h.symbolic:
        install_crc_loop_contract(h)
    r = h.method(calc, "calculate", (b1, b2))
    h.oblige("data in parts: refused with TypeError, or no exception at all", Or(r.ok, r.raised("TypeError")))
    if not r.ok:
        h.cover("data in parts is refused")
        return
    items = h.items(r.value)
    h.oblige("data in parts: exactly two check bytes", len(items) == 2)
    if len(items) != 2:
        return
    if h.symbolic:
        exp = crc_bytes_of(crc_fold([b1, b2]))
    else:
        exp = list(crc_spec.check_bytes(bytes(b1) + bytes(b2)))
    h.oblige("data in parts: the check bytes are CRC-16/MODBUS of the joined bytes, high byte first",
             And(items[0] == exp[0], items[1] == exp[1]))


def use_calculate_contract(h):
    """Modular use of the contract above at call sites: calculate(buffer) -> check bytes of CRC(buffer)."""
    from pyvc.values import BytesVal, ABytes
    from pyvc.pybuiltins import Rope

    def hook(it, fn, args, kwargs):
        buf = args[1] if len(args) > 1 else kwargs["buffer"]
        if not isinstance(buf, (Rope, BytesVal, ABytes, bytes, bytearray)):
            # outside the contract's precondition (one byte buffer): the callee's body is executed instead, its byte
            # loop under the loop contract above
            install_crc_loop_contract(h)
            return NotImplemented
        parts = buf.parts if isinstance(buf, Rope) else [buf]
        reg = crc_fold(parts)
        return BytesVal(crc_bytes_of(reg))

    h.it.call_hooks[CALC] = hook


@oset("crc16.validate", ["C06"], [VALID])
def validate_contract(h):
    """validate(buffer, checksum) <=> checksum == check bytes of CRC(buffer); ValueError iff len != 2."""
    buf = h.abytes("buffer")
    n = h.choice("checksum_len", [0, 1, 2, 3])
    chk = h.bytes("checksum", n)
    rel = h.native_choice("checksum_relation", ["as drawn", "exact", "bytes swapped", "first byte right", "second byte right", "one bit off"])
    if not h.symbolic and n == 2 and rel != "as drawn":
        # native search only: random check bytes almost never come near the real CRC; steer them there
        e = list(crc_spec.check_bytes(bytes(buf)))
        c0 = list(chk)
        chk = bytes({"exact": e, "bytes swapped": e[::-1], "first byte right": [e[0], c0[1]], "second byte right": [c0[0], e[1]],
                     "one bit off": [e[0] ^ (1 << (c0[0] % 8)), e[1]]}[rel])
    calc = h.new(CRC_MOD + ":Crc16Modbus")
    if h.symbolic:
        use_calculate_contract(h)
    r = h.method(calc, "validate", buf, chk)
    if n != 2:
        h.oblige("wrong checksum length is rejected with ValueError", r.raised("ValueError"))
        return
    h.oblige("never raises for a 2-byte checksum", r.ok)
    if not r.ok:
        return
    exp = crc_bytes_of(crc_fold([buf])) if h.symbolic else list(crc_spec.check_bytes(buf))
    c = h.items(chk)
    same = And(c[0] == exp[0], c[1] == exp[1])
    h.oblige("True iff the checksum equals the CRC of the buffer", ite(same, h.eq(r.value, True), h.eq(r.value, False)))


# ---- properties of the reference itself that C06's "error patterns CRC-16 detects" relies on ----


@oset("crc.lemma.step-injective", ["C06"], [], kind="lemma")
def lemma_step_injective(h):
    """For a fixed byte the register update is injective: two different registers never merge."""
    if not h.symbolic:
        return
    a = SBV(z3.BitVec("ra", 16))
    b = SBV(z3.BitVec("rb", 16))
    v = SBV(z3.BitVec("v", 16))
    h.assume(v <= 255)
    h.path.inputs.update({"ra": a, "rb": b, "v": v})
    h.oblige("byte_step(a, v) == byte_step(b, v) implies a == b",
             Implies(crc_spec.byte_step(a, v) == crc_spec.byte_step(b, v), a == b))


@oset("crc.lemma.byte-difference-propagates", ["C06"], [], kind="lemma")
def lemma_byte_difference(h):
    """From the same register, two different bytes give different registers (any error confined to one byte
    changes the register; with injectivity of the following steps it changes the final CRC)."""
    if not h.symbolic:
        return
    c = SBV(z3.BitVec("c", 16))
    v = SBV(z3.BitVec("v", 16))
    w = SBV(z3.BitVec("w", 16))
    h.assume(And(v <= 255, w <= 255))
    h.path.inputs.update({"c": c, "v": v, "w": w})
    h.oblige("byte_step(c, v) == byte_step(c, w) implies v == w",
             Implies(crc_spec.byte_step(c, v) == crc_spec.byte_step(c, w), v == w))


@oset("crc.lemma.affine", ["C06"], [], kind="lemma", tier="thorough", timeout_ms=170000)
def lemma_affine(h):
    """The register update is affine over GF(2): the difference of two runs depends only on the
    differences of the registers and of the bytes."""
    if not h.symbolic:
        return
    c, d, v, w = (SBV(z3.BitVec(n, 16)) for n in ("c", "d", "v", "w"))
    h.assume(And(v <= 255, w <= 255))
    h.path.inputs.update({"c": c, "d": d, "v": v, "w": w})
    h.oblige("byte_step(c,v) ^ byte_step(d,w) == byte_step(c^d, v^w) ^ byte_step(0,0)",
             (crc_spec.byte_step(c, v) ^ crc_spec.byte_step(d, w)) == (crc_spec.byte_step(c ^ d, v ^ w) ^ crc_spec.byte_step(0, 0)))


@oset("crc.lemma.two-byte-kernel", ["C06"], [], kind="lemma")
def lemma_two_byte_kernel(h):
    """With the affine lemma: an error confined to two adjacent bytes (every burst of <= 9 bits, every
    byte-aligned 16-bit window) is invisible only if the linear image of (e1, e2) is zero - it never is."""
    if not h.symbolic:
        return
    e1, e2 = (SBV(z3.BitVec(n, 16)) for n in ("e1", "e2"))
    h.assume(And(e1 <= 255, e2 <= 255, Or(e1 != 0, e2 != 0)))
    h.path.inputs.update({"e1": e1, "e2": e2})
    zero = crc_spec.byte_step(crc_spec.byte_step(0, 0), 0)
    h.oblige("linear image of a non-zero two-byte error is non-zero",
             crc_spec.byte_step(crc_spec.byte_step(0, e1), e2) != zero)
