"""Module loader: parses the real source under REPO and interprets module bodies."""
from __future__ import annotations

import ast
import hashlib
import os

from . import stdlib, pybuiltins
from .values import Module, Unsupported, Builtin, TypeDummy, Class
from .interp import Env, Interp

REPO = os.environ.get("PYVC_REPO", "/repo")


class Loader:
    def __init__(self, repo=None, extra_models=None):
        self.repo = repo or REPO
        self.modules = {}
        self.loading = set()
        self.builtins = pybuiltins.make_builtins()
        self.source_sha = {}
        self.asts = {}
        self.mod_interp = None
        self._install_models(extra_models or {})

    def _install_models(self, extra):
        b = self.builtins
        self.modules["struct"] = stdlib.make_struct_module(b)
        self.modules["enum"] = stdlib.make_enum_module(b)
        self.modules["dataclasses"] = stdlib.make_dataclasses_module()
        self.modules["typing"] = stdlib.make_typing_module("typing")
        self.modules["typing_extensions"] = stdlib.make_typing_module("typing_extensions")
        self.modules["logging"] = stdlib.make_logging_module()
        self.modules["pyairtouch.comms.log"] = stdlib.make_repo_log_module()
        self.modules["contextlib"] = stdlib.make_contextlib_module()
        coll, abc = stdlib.make_collections_module()
        self.modules["collections"] = coll
        self.modules["collections.abc"] = abc
        self.modules["functools"] = stdlib.make_functools_module()
        self.modules["itertools"] = stdlib.make_itertools_module()
        self.modules["operator"] = stdlib.make_operator_module()
        self.modules["datetime"] = stdlib.make_datetime_module()
        from . import aio
        self.modules["asyncio"] = aio.make_asyncio_module(b)
        self.modules["socket"] = aio.make_socket_module()
        for k, v in extra.items():
            self.modules[k] = v

    def finish_enum(self, it, cls):
        stdlib.finish_enum(it, cls)

    def path_of(self, name):
        base = os.path.join(self.repo, *name.split("."))
        if os.path.isdir(base) and os.path.exists(os.path.join(base, "__init__.py")):
            return os.path.join(base, "__init__.py"), True
        if os.path.exists(base + ".py"):
            return base + ".py", False
        return None, False

    def submodule(self, mod, name, it=None):
        full = f"{mod.name}.{name}"
        if full in self.modules:
            return self.modules[full]
        p, _ = self.path_of(full)
        if p is None:
            return None
        return self.load(full, it)

    def load(self, name, it=None):
        if name in self.modules:
            return self.modules[name]
        path, is_pkg = self.path_of(name)
        if path is None:
            # a module of the standard library (or an installed distribution) without a model: importing it is harmless,
            # using anything from it is Unsupported at the point of use (Interp.getattr on a module without path)
            import importlib.util
            try:
                known = not name.startswith("pyairtouch") and importlib.util.find_spec(name.split(".")[0]) is not None
            except (ImportError, ValueError):
                known = False
            if not known:
                raise Unsupported(f"import of unmodelled module {name}")
            mod = Module(name)
            mod.unmodelled_stub = True
            self.modules[name] = mod
            return mod
        # parents first
        if "." in name:
            parent = self.load(name.rsplit(".", 1)[0], it)
        src = open(path, "rb").read()
        self.source_sha[os.path.relpath(path, self.repo)] = hashlib.sha256(src).hexdigest()
        tree = ast.parse(src.decode("utf-8"), filename=path)
        mod = Module(name, path=path)
        mod.is_package = is_pkg
        mod.ns["__name__"] = name
        mod.ns["__module_obj__"] = mod
        mod.ns["__qualname_prefix__"] = ""
        self.modules[name] = mod
        self.asts[name] = tree
        if "." in name:
            parent.ns.setdefault(name.rsplit(".", 1)[1], mod)
        interp = self.mod_interp or Interp(self)
        self.mod_interp = interp
        env = Env(None, mod.ns)
        saved = interp.frames
        interp.frames = []
        try:
            interp.exec_block(tree.body, env)
        finally:
            interp.frames = saved
        return mod

    def function(self, fullname):
        """Resolve 'pkg.mod:Class.method' to (Function, owner Class or None)."""
        from .values import Function, Property, StaticMethod, ClassMethod
        modname, qual = fullname.split(":")
        mod = self.load(modname)
        obj = mod
        owner = None
        for part in qual.split("."):
            if isinstance(obj, Module):
                obj = obj.ns[part]
            elif isinstance(obj, Class):
                owner = obj
                v = obj.lookup(part)
                obj = v
            else:
                raise KeyError(fullname)
        if isinstance(obj, Property):
            obj = obj.fget
        if isinstance(obj, (StaticMethod, ClassMethod)):
            obj = obj.f
        return obj, owner
