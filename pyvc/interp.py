"""AST interpreter of pyvc: executes the real source of /repo on concrete and symbolic values.

The interpreter is a small Python: classes, dataclasses, enums, properties, closures,
match statements, exceptions, async functions.  With all inputs concrete it is an
ordinary (slow) interpreter and is compared against CPython on every run (conformance);
with symbolic inputs it forks at every branch on a symbolic condition and records the
path condition.  Paths are enumerated by deterministic re-execution with a decision
prefix (no state copying).
"""
from __future__ import annotations

import ast
import fractions
import os

import z3

from . import sym
from .sym import (SBool, SInt, SBV, SReal, And, Or, Not, Implies, eq, truth as scalar_truth,
                  mkbool, is_sym)
from . import purity
from .values import UnionT
from .values import (Unsupported, PyExc, MISSING, Class, TypeDummy, Instance, EnumMember, SEnum,
                     all_dc_fields, Function, Builtin, BoundMethod, Property, StaticMethod,
                     ClassMethod, Module, Coroutine, BytesVal, ABytes, SStr, DequeVal, SetVal,
                     Opaque, GuardedList, byte_range)


class _Return(Exception):
    def __init__(self, v):
        self.v = v


class _Break(Exception):
    pass


class _Continue(Exception):
    pass


_SIG_CACHE = {}


def _real_operands(a, b):
    """Sample values of the CPython types two interpreter values stand for (None if unknown): used to ask CPython itself
    whether an operator is defined for that pair of types."""
    def sample(x):
        if x is None:
            return (None,)
        if isinstance(x, bool):
            return (True,)
        if isinstance(x, int):
            return (1,)
        if isinstance(x, float):
            return (1.0,)
        if isinstance(x, str):
            return ("a",)
        if isinstance(x, (list, tuple, dict)):
            return (type(x)(),)
        return None
    sa, sb = sample(a), sample(b)
    if sa is None or sb is None:
        return None
    return sa[0], sb[0]


class PathEnd(Exception):
    """Stop exploring this path (infeasible assumption or end of a loop-body proof)."""


class LoopCut(Exception):
    """An arbitrary loop iteration completed normally: the coroutine is not followed further.
    The harness turns it into a normal outcome so that the proof script can state what the
    iteration did."""


class Env:
    __slots__ = ("vars", "parent")

    def __init__(self, parent=None, vars=None):
        self.vars = vars if vars is not None else {}
        self.parent = parent

    def lookup(self, name):
        e = self
        while e is not None:
            if name in e.vars:
                return e.vars[name]
            e = e.parent
        return MISSING


# -------------------------------------------------------------------------------------
# obligations and the path context


class Obligation:
    def __init__(self, name, status, detail=None, model=None, secs=0.0, backend="z3", kind="post"):
        self.name = name
        self.status = status  # discharged | failed | unknown
        self.detail = detail
        self.model = model
        self.secs = secs
        self.backend = backend
        self.kind = kind

    def __repr__(self):
        return f"Obl({self.name}: {self.status})"


_VARS_CACHE = {}


def term_vars(t):
    """Ids of the free symbols (constants and uninterpreted functions) of a z3 term, cached."""
    k = t.get_id()
    r = _VARS_CACHE.get(k)
    if r is not None:
        return r[1]
    out = set()
    seen = set()
    stack = [t]
    while stack:
        x = stack.pop()
        i = x.get_id()
        if i in seen:
            continue
        seen.add(i)
        c = _VARS_CACHE.get(i)
        if c is not None:
            out |= c[1]
            continue
        if z3.is_app(x):
            d = x.decl()
            if d.kind() == z3.Z3_OP_UNINTERPRETED:
                out.add(d.name())
            stack.extend(x.children())
        elif z3.is_quantifier(x):
            stack.append(x.body())
    r = frozenset(out)
    if len(_VARS_CACHE) > 200000:
        _VARS_CACHE.clear()
    _VARS_CACHE[k] = (t, r)  # keep the term alive: z3 recycles ast ids of collected terms
    return r


_FINE_CACHE = {}


def term_vars_fine(t):
    """Like term_vars, but a read `Select(A, idx)` of an array constant counts as the pseudo-symbol
    (A, idx) and its index is not descended into.  Only used to pick a *subset* of the path condition
    for a first, cheap proof attempt (any subset of hypotheses is sound for proving)."""
    k = t.get_id()
    r = _FINE_CACHE.get(k)
    if r is not None:
        return r[1]
    out = set()
    seen = set()
    stack = [t]
    while stack:
        x = stack.pop()
        i = x.get_id()
        if i in seen:
            continue
        seen.add(i)
        if z3.is_app(x):
            d = x.decl()
            if d.kind() == z3.Z3_OP_SELECT and z3.is_const(x.arg(0)) and x.arg(0).decl().kind() == z3.Z3_OP_UNINTERPRETED:
                out.add((x.arg(0).decl().name(), x.arg(1).get_id()))
                continue
            if d.kind() == z3.Z3_OP_UNINTERPRETED:
                out.add(d.name())
            stack.extend(x.children())
        elif z3.is_quantifier(x):
            stack.append(x.body())
    r = frozenset(out)
    if len(_FINE_CACHE) > 200000:
        _FINE_CACHE.clear()
    _FINE_CACHE[k] = (t, r)
    return r


class Path:
    FEAS_TIMEOUT_MS = 5000
    OBL_TIMEOUT_MS = 20000

    def __init__(self, decisions=()):
        self.decisions = list(decisions)
        self.pos = 0
        self.trail = []
        self.pc = []
        self.pc_kind = []  # 'a' assumption / 'b' branch, parallel to pc
        self.decided = {}  # id(cond) -> (cond, decision): a condition decided once stays decided on this path
        self.solver = None  # (constraint-independence slicing: a fresh solver per query)
        self.pending = []
        self.obligations = []
        self.events = []
        self.ghost = {}
        self.inputs = {}  # name -> symbolic value (for model extraction / replay)
        self.notes = []
        self.solver_secs = 0.0
        self.assumed = []  # descriptions of assumptions made on this path
        self.xcheck = []   # SMT-LIB text of queries the primary solver answered `unsat` (sampled; thorough tier)
        self._ix = (None, 0, set(), set(), [])  # index of self.pc: (list object, length indexed, term ids, symbol names, symbols per conjunct)

    def pc_index(self):
        """(ids of the conjuncts of the path condition, symbols they mention, symbols per conjunct);
        maintained incrementally - the path condition only grows by append (a replaced list is re-indexed)."""
        lst, n, ids, syms, per = self._ix
        if lst is not self.pc or n > len(self.pc):
            lst, n, ids, syms, per = self.pc, 0, set(), set(), []
        if n < len(self.pc):
            for c in self.pc[n:]:
                ids.add(c.get_id())
                v = term_vars(c)
                per.append(v)
                syms |= v
            self._ix = (lst, len(self.pc), ids, syms, per)
        return ids, syms, per

    def inherit_index(self, parent):
        """self.pc was just set to a copy of parent.pc: copy the parent's index instead of rebuilding it."""
        ids, syms, per = parent.pc_index()
        if len(per) == len(self.pc):
            self._ix = (self.pc, len(self.pc), set(ids), set(syms), list(per))

    # -- assumptions ---------------------------------------------------------------
    def assume(self, c, why=None):
        if c is True:
            return
        if c is False:
            raise PathEnd()
        t = sym.tobool_t(c)
        self.pc.append(t)
        self.pc_kind.append("a")
        if why:
            self.assumed.append(why)

    def relevant(self, t, vars_of=term_vars):
        """Constraint-independence slicing: the path-condition conjuncts that share symbols
        (transitively) with t.  Sound because the path condition as a whole is satisfiable
        (every branch taken was checked feasible), so conjuncts over disjoint symbols cannot
        affect the satisfiability of t."""
        vs = set(vars_of(t))
        pending = list(zip(self.pc, self.pc_index()[2])) if vars_of is term_vars else [(c, vars_of(c)) for c in self.pc]
        chosen = []
        changed = True
        while changed and pending:
            changed = False
            rest = []
            for c, cv in pending:
                if not cv or (cv & vs):
                    if cv:
                        chosen.append(c)
                        if not cv <= vs:
                            vs |= cv
                            changed = True
                    # variable-free conjuncts are constants; keep them out
                else:
                    rest.append((c, cv))
            pending = rest
        return chosen

    def feasible(self, extra=None):
        import time
        t0 = time.time()
        if extra is not None and self.pc:
            # syntactic fast path (terms are hash-consed): the negation of `extra` is a conjunct of the
            # path condition -> infeasible; `extra` itself is one -> as feasible as the path condition
            # (satisfiable by construction: every branch taken was checked)
            neg = extra.arg(0) if z3.is_not(extra) else None
            ids, syms, _ = self.pc_index()
            if (neg is not None and neg.get_id() in ids) or z3.Not(extra).get_id() in ids:
                return False
            if extra.get_id() in ids:
                return True
            # a Boolean variable (or its negation) that no conjunct of the path condition mentions can
            # take either value (the path condition is satisfiable by construction)
            core = neg if neg is not None else extra
            if z3.is_const(core) and core.decl().kind() == z3.Z3_OP_UNINTERPRETED:
                nm = core.decl().name()
                if nm not in syms:
                    return True
        s = z3.Solver()
        s.set("timeout", self.FEAS_TIMEOUT_MS)
        if extra is None:
            for c in self.pc:
                s.add(c)
        else:
            for c in self.relevant(extra):
                s.add(c)
            s.add(extra)
        r = s.check()
        self.solver_secs += time.time() - t0
        return r != z3.unsat

    # -- branching -----------------------------------------------------------------
    def branch(self, cond) -> bool:
        if isinstance(cond, bool):
            return cond
        t0 = sym.tobool_t(cond)
        # the condition is literally a conjunct of the path condition (e.g. the UTF-8 validity of
        # bytes that were assumed valid): true on this path, no solver call, no decision consumed
        # (terms are hash-consed: same live term <=> same ast id)
        if self.pc and t0.get_id() in self.pc_index()[0]:
            return True
        c = z3.simplify(t0)
        if z3.is_true(c):
            return True
        if z3.is_false(c):
            return False
        memo = self.decided.get(c.get_id())
        if memo is not None and memo[0].eq(c):
            return memo[1]
        if self.pos < len(self.decisions):
            d = self.decisions[self.pos]
            self.pos += 1
        else:
            ft = self.feasible(c)
            ff = self.feasible(z3.Not(c))
            if ft and ff:
                self.pending.append(self.trail + [False])
                d = True
            elif ft:
                d = True
            elif ff:
                d = False
            else:
                raise PathEnd()
            self.decisions.append(d)
            self.pos += 1
        self.trail.append(d)
        t = c if d else z3.Not(c)
        self.pc.append(t)
        self.pc_kind.append("b")
        self.decided[c.get_id()] = (c, d)
        return d

    def choose(self, n, label="choice") -> int:
        """Nondeterministic choice among n alternatives (all explored)."""
        if n <= 1:
            return 0
        if self.pos < len(self.decisions):
            d = self.decisions[self.pos]
            self.pos += 1
        else:
            for k in range(1, n):
                self.pending.append(self.trail + [k])
            d = 0
            self.decisions.append(d)
            self.pos += 1
        self.trail.append(d)
        return d

    # -- obligations -----------------------------------------------------------------
    XCHECK_MAX = int(__import__("os").environ.get("PYVC_XCHECK", "0"))   # thorough tier: sample of discharged queries for a second solver

    def _xrecord(self, solver):
        if self.XCHECK_MAX and len(self.xcheck) < self.XCHECK_MAX:
            try:
                self.xcheck.append(solver.to_smt2())
            except Exception:  # noqa: BLE001
                pass

    def oblige(self, name, cond, kind="post", detail=None):
        import time
        if cond is True:
            self.obligations.append(Obligation(name, "discharged", detail, backend="syntactic", kind=kind))
            return True
        if cond is False:
            t = z3.BoolVal(False)
        else:
            t = sym.tobool_t(cond)
        # a conjunction is discharged conjunct by conjunct, each against its own slice of the
        # path condition (independent records then cost linear, not exponential, time)
        conjuncts = []
        stack = [z3.simplify(t)]
        while stack:
            x = stack.pop()
            if z3.is_and(x):
                stack.extend(reversed(x.children()))
            else:
                conjuncts.append(x)
        total = 0.0
        worst = "unsat"
        model = None
        smt2 = None
        for cj in conjuncts:
            if z3.is_true(cj):
                continue
            s = z3.Solver()
            s.set("timeout", self.OBL_TIMEOUT_MS)
            nt = z3.Not(cj)
            # a literally false obligation shares no symbol with the path condition: take all of it so
            # that the counter-model is a model of the path (needed for the native replay)
            hyps = self.pc if z3.is_false(cj) else self.relevant(nt)
            if not z3.is_false(cj) and len(hyps) > 8:
                # first attempt with a finer slice (array cells instead of whole arrays): proving from a
                # subset of the hypotheses is sound; anything but `unsat` falls through to the full slice
                fine = self.relevant(nt, term_vars_fine)
                if len(fine) < len(hyps):
                    s0 = z3.Solver()
                    s0.set("timeout", 2000)
                    for p in fine:
                        s0.add(p)
                    s0.add(nt)
                    t0 = time.time()
                    r0 = s0.check()
                    total += time.time() - t0
                    if r0 == z3.unsat:
                        self._xrecord(s0)
                        continue
            for p in hyps:
                s.add(p)
            s.add(nt)
            t0 = time.time()
            r = s.check()
            total += time.time() - t0
            if r == z3.unsat:
                self._xrecord(s)
            if r == z3.sat:
                worst = "sat"
                model = s.model()
                # the slice leaves symbols outside it unconstrained (e.g. the length of a payload
                # whose bytes are in the slice): complete the counterexample against the whole
                # path condition so that it can be replayed natively
                if len(s.assertions()) < len(self.pc) + 1:
                    s_full = z3.Solver()
                    s_full.set("timeout", 5000)
                    for p in self.pc:
                        s_full.add(p)
                    s_full.add(nt)
                    if s_full.check() == z3.sat:
                        s = s_full
                        model = s.model()
                # prefer a small counterexample: try to pin loop indices / lengths down
                for iname, iv in self.inputs.items():
                    if isinstance(iv, SInt) and (iname.endswith(":k") or "len" in iname or "count" in iname):
                        for bound in (0, 1, 2, 16):
                            s.push()
                            s.add(iv.t <= bound)
                            s.set("timeout", 3000)
                            if s.check() == z3.sat:
                                model = s.model()
                                break
                            s.pop()
                break
            if r != z3.unsat:
                worst = "unknown"
                smt2 = s.to_smt2()
        dt = total
        self.solver_secs += dt
        if worst == "unsat":
            self.obligations.append(Obligation(name, "discharged", detail, secs=dt, kind=kind))
            self.assume(cond)
            return True
        if worst == "sat":
            self.obligations.append(Obligation(name, "failed", detail, model=self.extract_model(model), secs=dt, kind=kind))
            self.assume(cond)  # continue under the assumption so failures do not cascade
            return False
        ob = Obligation(name, "unknown", detail, secs=dt, kind=kind)
        ob.smt2 = smt2
        self.obligations.append(ob)
        self.assume(cond)
        return None

    def extract_model(self, m):
        out = {}
        for k, v in self.inputs.items():
            try:
                out[k] = concretize_value(m, v)
            except Exception as e:  # pragma: no cover
                out[k] = f"<unprintable: {e}>"
        return out

    def event(self, *e):
        self.events.append(e)


def concretize_value(m, v):
    """Turn a symbolic value into a JSON-able concrete description under model m."""
    if is_sym(v):
        return sym.concretize(m, v)
    if isinstance(v, SEnum):
        val = sym.concretize(m, v.value)
        for mem in v.cls.members.values():
            if mem.value == val:
                return {"__enum__": f"{v.cls.module}:{v.cls.qualname}", "name": mem.name}
        return {"__enum__": f"{v.cls.module}:{v.cls.qualname}", "value": val}
    if isinstance(v, EnumMember):
        return {"__enum__": f"{v.cls.module}:{v.cls.qualname}", "name": v.name}
    if isinstance(v, BytesVal):
        return {"__bytes__": [concretize_value(m, i) for i in v.items], "mutable": v.mutable}
    if isinstance(v, ABytes):
        n = concretize_value(m, v.ln)
        off = concretize_value(m, v.off)
        n = min(int(n), 64)
        return {"__bytes__": [m.eval(z3.Select(v.arr, z3.IntVal(off + i)), model_completion=True).as_long() % 256
                              for i in range(n)]}
    if isinstance(v, SStr):
        return {"__str_utf8__": [concretize_value(m, i) for i in v.data.items]}
    if isinstance(v, Instance):
        d = {"__class__": f"{v.cls.module}:{v.cls.qualname}"}
        for k, a in v.attrs.items():
            d[k] = concretize_value(m, a)
        return d
    if isinstance(v, (list, tuple)):
        return [concretize_value(m, i) for i in v]
    if isinstance(v, dict):
        return {"__dict__": [[concretize_value(m, k), concretize_value(m, a)] for k, a in v.items()]}
    if isinstance(v, SetVal):
        return {"__set__": [concretize_value(m, i) for i in v.items]}
    if isinstance(v, DequeVal):
        return {"__deque__": [concretize_value(m, i) for i in v.items]}
    if isinstance(v, (int, float, str, bool)) or v is None:
        return v
    if isinstance(v, bytes):
        return {"__bytes__": list(v)}
    return repr(v)


# -------------------------------------------------------------------------------------


def loop_ordinals(fnode):
    """Map id(loop node) -> ordinal in source order within one function body."""
    out = {}
    n = [0]

    def visit(node):
        for ch in ast.iter_child_nodes(node):
            if isinstance(ch, (ast.FunctionDef, ast.AsyncFunctionDef, ast.Lambda, ast.ClassDef)):
                continue
            if isinstance(ch, (ast.For, ast.While, ast.AsyncFor)):
                out[id(ch)] = n[0]
                n[0] += 1
            visit(ch)

    visit(fnode)
    return out


class Frame:
    __slots__ = ("func", "env", "exc_stack")

    def __init__(self, func, env):
        self.func = func
        self.env = env
        self.exc_stack = []


class Interp:
    MAX_DEPTH = 60
    WHILE_CAP = 40

    def __init__(self, loader):
        self.loader = loader
        self.path = Path()
        self.call_hooks = {}  # fullname -> fn(interp, func, args, kwargs) -> value | NotImplemented
        self.loop_hooks = {}  # (fullname, ordinal) -> fn(interp, node, env, frame)
        self.loop_matchers = []  # (predicate(fullname, node), hook): loop contracts located by the shape of the loop, not its position
        self.await_hook = None  # fn(interp, awaitable) called for suspending library awaitables
        self.frames = []
        self.depth = 0
        self._loop_ord_cache = {}
        self.builtins = loader.builtins
        self.log_calls = False
        self.merge_pure = True
        self.in_merge = False
        self.exact_floats = False  # True: float literals are exact rationals (reference evaluation for float.exactness)

    # ------------------------------------------------------------------ utilities
    def exc(self, cls_name, *args):
        cls = self.builtins[cls_name]
        return PyExc(self.make_exc(cls, list(args)))

    def make_exc(self, cls, args):
        inst = Instance(cls, {"args": tuple(args)})
        return inst

    def isinstance_(self, obj, cls):
        if isinstance(cls, tuple):
            return any(self.isinstance_(obj, c) for c in cls)
        if isinstance(cls, UnionT) and cls.members is not None:
            return any((obj is None) if m is None else self.isinstance_(obj, m) for m in cls.members)
        if isinstance(cls, TypeDummy):
            raise Unsupported("isinstance against a typing construct whose members are not modelled")
        c = self.class_of(obj)
        if c is None:
            return False
        if isinstance(cls, Class):
            return c.is_subclass(cls)
        return False

    def class_of(self, obj):
        B = self.builtins
        if isinstance(obj, Instance):
            return obj.cls
        if isinstance(obj, SEnum):
            return obj.cls
        if isinstance(obj, (bool, SBool)):
            return B["bool"]
        if isinstance(obj, (int, SInt, SBV)):
            return B["int"]
        if isinstance(obj, (float, SReal, fractions.Fraction)):
            return B["float"]
        if isinstance(obj, (str, SStr)):
            return B["str"]
        if isinstance(obj, (BytesVal,)):
            return B["bytearray"] if obj.mutable else B["bytes"]
        if isinstance(obj, (bytes, ABytes)):
            return B["bytes"]
        if isinstance(obj, bytearray):
            return B["bytearray"]
        if isinstance(obj, list) or isinstance(obj, GuardedList):
            return B["list"]
        if isinstance(obj, tuple):
            return B["tuple"]
        if isinstance(obj, dict):
            return B["dict"]
        if isinstance(obj, SetVal):
            return B["set"]
        if obj is None:
            return B["NoneType"]
        pc = getattr(obj, "py_class", None)
        if pc is not None:
            return pc(self) if callable(pc) else pc
        return None

    # ------------------------------------------------------------------ truthiness / equality
    def truth(self, x):
        if isinstance(x, (bool, SBool)):
            return x
        if is_sym(x):
            return scalar_truth(x)
        if x is None:
            return False
        if isinstance(x, (int, float, str, bytes, bytearray, list, tuple, dict)):
            return bool(x)
        if isinstance(x, BytesVal):
            return len(x.items) > 0
        if isinstance(x, ABytes):
            return x.ln > 0
        if isinstance(x, SStr):
            return len(x.data.items) > 0
        if isinstance(x, (SetVal, DequeVal)):
            return len(x.items) > 0
        if isinstance(x, GuardedList):
            return Or(*[g for g, _ in x.pairs])
        if isinstance(x, Instance):
            f = x.cls.lookup("__bool__")
            if f is not MISSING:
                return self.truth(self.call(BoundMethod(f, x), [], {}))
            f = x.cls.lookup("__len__")
            if f is not MISSING:
                return self.call(BoundMethod(f, x), [], {}) != 0
            return True
        t = getattr(x, "py_truth", None)
        if t is not None:
            return t(self)
        return True

    def test(self, x) -> bool:
        """Evaluate truthiness and fork if symbolic."""
        return self.path.branch(self.truth(x))

    def py_eq(self, a, b):
        if a is b:
            if isinstance(a, float) and a != a:
                return False
            return True
        if a is None or b is None:
            return False
        if is_sym(a) or is_sym(b):
            if isinstance(a, (SEnum, Instance)) or isinstance(b, (SEnum, Instance)):
                return False
            return eq(a, b)
        if isinstance(a, (SEnum, EnumMember)) or isinstance(b, (SEnum, EnumMember)):
            return self.enum_eq(a, b)
        if isinstance(a, Instance) and isinstance(b, Instance):
            f = a.cls.lookup("__eq__")
            if f is not MISSING and isinstance(f, Function):
                return self.call(BoundMethod(f, a), [b], {})
            if a.cls.is_dataclass and a.cls.dc_eq:
                if a.cls is not b.cls:
                    return False
                return And(*[self.py_eq(a.attrs.get(n), b.attrs.get(n)) for n, _, _ in all_dc_fields(a.cls)])
            return False
        if isinstance(a, Instance) or isinstance(b, Instance):
            return False
        # model objects that define their own equality (ropes, structured datagrams, time values ...)
        pe = getattr(a, "py_eq", None)
        if pe is not None:
            return pe(self, b)
        pe = getattr(b, "py_eq", None)
        if pe is not None:
            return pe(self, a)
        if isinstance(a, (BytesVal, ABytes)):
            return a.eq(b) if isinstance(b, (BytesVal, ABytes, bytes, bytearray)) else False
        if isinstance(b, (BytesVal, ABytes)):
            return b.eq(a) if isinstance(a, (bytes, bytearray)) else False
        if isinstance(a, SStr):
            return a.eq(b)
        if isinstance(b, SStr):
            return b.eq(a)
        if isinstance(a, (list, tuple)) and isinstance(b, (list, tuple)):
            if isinstance(a, list) != isinstance(b, list):
                return False
            if len(a) != len(b):
                return False
            return And(*[self.py_eq(x, y) for x, y in zip(a, b)])
        if isinstance(a, dict) and isinstance(b, dict):
            if len(a) != len(b):
                return False
            cs = []
            if any(is_sym(k) for k in a) or any(is_sym(k) for k in b):
                # symbolic keys: the keys of one dict are pairwise distinct on this path (setitem
                # forks on equality before it adds an entry; inputs carry it as an assumption), so
                # with equal sizes  a == b  <=>  every item of a has an equal item in b
                for k, v in a.items():
                    cs.append(Or(*[And(self.py_eq(k, kb), self.py_eq(v, vb)) for kb, vb in b.items()]))
                return And(*cs)
            for k, v in a.items():
                if k not in b:
                    return False
                cs.append(self.py_eq(v, b[k]))
            return And(*cs)
        if isinstance(a, SetVal) and isinstance(b, SetVal):
            if len(a) != len(b):
                return False
            return all(x in b for x in a.items)
        if isinstance(a, DequeVal) and isinstance(b, DequeVal):
            return self.py_eq(a.items, b.items)
        if isinstance(a, GuardedList) or isinstance(b, GuardedList):
            raise Unsupported("== on guarded list")
        pe = getattr(a, "py_eq", None)
        if pe is not None:
            return pe(self, b)
        pe = getattr(b, "py_eq", None)
        if pe is not None:
            return pe(self, a)
        try:
            r = a == b
        except Exception:
            return False
        if isinstance(r, bool):
            return r
        return False

    def enum_eq(self, a, b):
        if not isinstance(a, (SEnum, EnumMember)) or not isinstance(b, (SEnum, EnumMember)):
            return False
        if a.cls is not b.cls:
            return False
        if isinstance(a, EnumMember) and isinstance(b, EnumMember):
            return a is b
        return eq(a.value, b.value)

    def contains(self, container, item):
        if isinstance(container, GuardedList):
            return Or(*[And(g, self.py_eq(v, item)) for g, v in container.pairs])
        if isinstance(container, (list, tuple)):
            return Or(*[self.py_eq(v, item) for v in container])
        if isinstance(container, dict):
            return Or(*[self.py_eq(k, item) for k in container.keys()])
        if isinstance(container, SetVal):
            return Or(*[self.py_eq(k, item) for k in container.items])
        if isinstance(container, DequeVal):
            return Or(*[self.py_eq(k, item) for k in container.items])
        if isinstance(container, (BytesVal, bytes, bytearray)):
            c = container if isinstance(container, BytesVal) else BytesVal.of(container)
            if isinstance(item, (BytesVal, bytes, bytearray)):
                it = item if isinstance(item, BytesVal) else BytesVal.of(item)
                n, k = len(c.items), len(it.items)
                if k == 0:
                    return True
                return Or(*[And(*[eq(c.items[i + j], it.items[j]) for j in range(k)]) for i in range(n - k + 1)])
            return Or(*[eq(v, item) for v in c.items])
        if isinstance(container, str) and isinstance(item, str):
            return item in container
        if isinstance(container, range):
            if isinstance(item, (int, float)):
                return item in container
            if isinstance(item, (SInt, SBV)):
                x = item.to_int() if isinstance(item, SBV) else item
                st = container.step
                if len(container) == 0:
                    return False
                lo, hi = (container.start, container[-1]) if st > 0 else (container[-1], container.start)
                inside = And(x >= lo, x <= hi)
                return inside if abs(st) == 1 else And(inside, eq((x - container.start) % abs(st), 0))
            raise Unsupported("'in' on range with a non-integer symbolic value")
        pc = getattr(container, "py_contains", None)
        if pc is not None:
            return pc(self, item)
        raise Unsupported(f"'in' on {type(container).__name__}")

    def _missing_attribute(self, cls, name, what):
        """The lookup found nothing.  That is an AttributeError only if the *real* class would lack the attribute too: a class
        interpreted completely from the package source.  A class with members this interpreter does not see - generated by
        dataclass / NamedTuple / Enum machinery, or inherited from a library base that is only modelled - is outside the
        modelled subset for that attribute: undecided, never a verdict."""
        for c in cls.mro:
            if c.name == "object":
                continue
            if getattr(c, "node", None) is None or c.is_enum or c.is_dataclass or getattr(c, "is_namedtuple", False) \
                    or getattr(c, "unmodelled_base", None):
                raise Unsupported(f"attribute {name!r} of {what}: the class has generated or library-provided members "
                                  f"({c.name}) that are not modelled")
        raise self.exc("AttributeError", f"{what} has no attribute {name}")

    # ------------------------------------------------------------------ attribute access
    def getattr(self, obj, name):
        if isinstance(obj, EnumMember):
            if name in ("name", "value", "_name_", "_value_"):
                return obj.attrs[name]
        if isinstance(obj, SEnum):
            if name in ("value", "_value_"):
                return obj.value
            if name == "name":
                return Opaque("enum-name")
            v = obj.cls.lookup(name)
            if v is MISSING:
                self._missing_attribute(obj.cls, name, obj.cls.name)
            return self._bind(v, obj, obj.cls)
        if isinstance(obj, Instance):
            if name in obj.attrs:
                return obj.attrs[name]
            if name == "__class__":
                return obj.cls
            v = obj.cls.lookup(name)
            if v is MISSING:
                if name == "__dict__":
                    return dict(obj.attrs)
                if getattr(obj.cls, "is_namedtuple", False) and name in ("_replace", "_asdict", "_fields"):
                    fields = [n for n, _, _ in all_dc_fields(obj.cls)]
                    if name == "_fields":
                        return tuple(fields)
                    if name == "_asdict":
                        return Builtin("namedtuple._asdict", lambda: {f: obj.attrs[f] for f in fields})
                    return Builtin("namedtuple._replace",
                                   lambda **kw: self.instantiate(obj.cls, [], {f: kw.get(f, obj.attrs[f]) for f in fields}))
                self._missing_attribute(obj.cls, name, obj.cls.name)
            return self._bind(v, obj, obj.cls)
        if isinstance(obj, Class):
            if name == "__name__":
                return obj.name
            if name == "__qualname__":
                return obj.qualname
            if obj.is_enum and name in obj.members:
                return obj.members[name]
            v = obj.lookup(name)
            if v is MISSING:
                if name == "__match_args__" and obj.is_dataclass:
                    return tuple(n for n, _, _ in all_dc_fields(obj))
                if getattr(obj, "is_namedtuple", False) and name in ("_make", "_fields"):
                    if name == "_fields":
                        return tuple(n for n, _, _ in all_dc_fields(obj))
                    return Builtin("namedtuple._make", lambda items: self.instantiate(obj, list(self.iterate(items)), {}))
                self._missing_attribute(obj, name, "type " + obj.name)
            if isinstance(v, ClassMethod):
                return BoundMethod(v.f, obj)
            if isinstance(v, StaticMethod):
                return v.f
            return v
        if isinstance(obj, Module):
            if name in obj.ns:
                return obj.ns[name]
            sub = self.loader.submodule(obj, name)
            if sub is not None:
                return sub
            if obj.path is None:
                # a library module that is only modelled: the real one may well have the attribute
                raise Unsupported(f"{obj.name}.{name} is not modelled by the interpreter")
            raise self.exc("AttributeError", f"module {obj.name} has no attribute {name}")
        ga = getattr(obj, "py_getattr", None)
        if ga is not None:
            return ga(self, name)
        from . import pybuiltins
        return pybuiltins.native_getattr(self, obj, name)

    def _bind(self, v, obj, cls):
        if isinstance(v, Function):
            return BoundMethod(v, obj)
        if isinstance(v, Builtin) and getattr(v, "is_method", False):
            return BoundMethod(v, obj)
        if isinstance(v, Property):
            return self.call(v.fget, [obj], {})
        if isinstance(v, StaticMethod):
            return v.f
        if isinstance(v, ClassMethod):
            return BoundMethod(v.f, cls)
        return v

    def setattr(self, obj, name, value):
        if isinstance(obj, Instance):
            if obj.cls.is_dataclass and obj.cls.dc_frozen and not getattr(obj, "_init", False):
                raise PyExc(self.make_exc(self.builtins["AttributeError"], [f"cannot assign to field {name!r}"]))
            obj.attrs[name] = value
            return
        if isinstance(obj, Class):
            obj.ns[name] = value
            return
        if isinstance(obj, Module):
            obj.ns[name] = value
            return
        sa = getattr(obj, "py_setattr", None)
        if sa is not None:
            return sa(self, name, value)
        raise Unsupported(f"setattr on {type(obj).__name__}")

    # ------------------------------------------------------------------ calls
    def call(self, fn, args, kwargs):
        if isinstance(fn, BoundMethod):
            return self.call(fn.func, [fn.self_obj] + list(args), kwargs)
        if isinstance(fn, Function):
            hook = self.call_hooks.get(fn.fullname)
            if hook is not None:
                r = hook(self, fn, args, kwargs)
                if r is not NotImplemented:
                    return r
            if fn.is_async:
                co = Coroutine(fn, lambda: self.run_function(fn, args, kwargs))
                co.args, co.kwargs = list(args), dict(kwargs)
                return co
            # (nested pure calls are merged too - inner first - so that a pure helper that calls n pure
            # two-way helpers is one path with ite terms instead of 2^n paths)
            if self.merge_pure and _any_sym(args, kwargs) and purity.func_pure(self, fn):
                r = self.merged_call(fn, args, kwargs)
                if r is not NotImplemented:
                    return r
            return self.run_function(fn, args, kwargs)
        if isinstance(fn, Builtin):
            # a call shape the *model* does not accept (an argument or keyword of the real builtin that the model lacks) is
            # outside the modelled subset - never a crash of the checker and never an interpreted TypeError
            try:
                import inspect as _inspect
                sig = _SIG_CACHE.get(fn.fn)
                if sig is None:
                    sig = _SIG_CACHE[fn.fn] = _inspect.signature(fn.fn)
                sig.bind(*(([self] if fn.needs_interp else []) + list(args)), **kwargs)
            except TypeError as e:
                raise Unsupported(f"builtin {fn.name}: call shape not modelled ({e})")
            except ValueError:
                pass   # no signature available (C function): just call
            if fn.needs_interp:
                return fn.fn(self, *args, **kwargs)
            return fn.fn(*args, **kwargs)
        if isinstance(fn, Class):
            return self.instantiate(fn, args, kwargs)
        pc = getattr(fn, "py_call", None)
        if pc is not None:
            return pc(self, args, kwargs)
        if isinstance(fn, TypeDummy):
            return fn
        raise Unsupported(f"call of {fn!r}")

    def merged_call(self, fn, args, kwargs):
        """Call a side-effect-free function on symbolic arguments without forking the caller:
        all paths through the callee are explored locally and, when every path returns a scalar,
        merged into one if-then-else term.  Sound because the callee is pure (pyvc/purity.py)."""
        parent = self.path
        outcomes = []
        work = [[]]
        names0 = sym._ctr[0]
        was_in_merge = self.in_merge
        self.in_merge = True
        try:
            while work:
                prefix = work.pop()
                if len(outcomes) > 64:
                    return NotImplemented
                child = Path(prefix)
                child.pc = list(parent.pc)
                child.inherit_index(parent)
                child.pc_kind = list(parent.pc_kind)
                child.inputs = parent.inputs
                child.ghost = parent.ghost
                base = len(parent.pc)
                self.path = child
                try:
                    v = self.run_function(fn, args, kwargs)
                    ok = True
                except PyExc:
                    ok = False
                except PathEnd:
                    ok = None
                finally:
                    self.path = parent
                parent.solver_secs += child.solver_secs
                work.extend(child.pending)
                if ok is None:
                    continue
                if not ok or child.obligations or child.events:
                    return NotImplemented
                conds = [t for t, kd in zip(child.pc[base:], child.pc_kind[base:]) if kd == "b"]
                assumes = [t for t, kd in zip(child.pc[base:], child.pc_kind[base:]) if kd == "a"]
                outcomes.append((conds, assumes, v, list(child.assumed)))
        finally:
            self.in_merge = was_in_merge
        if not outcomes:
            raise PathEnd()
        vals = [o[2] for o in outcomes]
        if all(v is None for v in vals):
            merged = None
        elif all(isinstance(v, (bool, SBool)) for v in vals) or all(_is_scalar_num(v) for v in vals):
            merged = vals[-1]
            for conds, _, v, _ in reversed(outcomes[:-1]):
                merged = sym.ite(And(*[mkbool(c) for c in conds]), v, merged)
        elif len(outcomes) == 1:
            merged = vals[0]
        else:
            sym._ctr[0] = names0
            return NotImplemented
        for conds, assumes, _, why in outcomes:
            if assumes:
                parent.assume(Implies(And(*[mkbool(c) for c in conds]), And(*[mkbool(a) for a in assumes])))
            for w in why:
                if w not in parent.assumed:
                    parent.assumed.append(w)
        return merged

    def bind_args(self, fn, args, kwargs):
        a = fn.node.args
        env_vars = {}
        params = [p.arg for p in a.posonlyargs] + [p.arg for p in a.args]
        args = list(args)
        kwargs = dict(kwargs)
        n = len(params)
        for i, name in enumerate(params):
            if i < len(args):
                if name in kwargs:
                    raise self.exc("TypeError", f"multiple values for {name}")
                env_vars[name] = args[i]
            elif name in kwargs:
                env_vars[name] = kwargs.pop(name)
            else:
                di = i - (n - len(fn.defaults))
                if di >= 0:
                    env_vars[name] = fn.defaults[di]
                else:
                    raise self.exc("TypeError", f"{fn.qualname}() missing argument {name}")
        if len(args) > n:
            if a.vararg:
                env_vars[a.vararg.arg] = tuple(args[n:])
            else:
                raise self.exc("TypeError", f"{fn.qualname}() takes {n} positional arguments but {len(args)} were given")
        elif a.vararg:
            env_vars[a.vararg.arg] = ()
        for i, p in enumerate(a.kwonlyargs):
            if p.arg in kwargs:
                env_vars[p.arg] = kwargs.pop(p.arg)
            elif fn.kwdefaults[i] is not MISSING:
                env_vars[p.arg] = fn.kwdefaults[i]
            else:
                raise self.exc("TypeError", f"{fn.qualname}() missing keyword argument {p.arg}")
        if a.kwarg:
            env_vars[a.kwarg.arg] = kwargs
        elif kwargs:
            raise self.exc("TypeError", f"{fn.qualname}() got unexpected keyword {list(kwargs)}")
        return env_vars

    def run_function(self, fn, args, kwargs):
        if self.depth > self.MAX_DEPTH:
            raise Unsupported("recursion depth")
        ex = getattr(self.loader, "executed", None)
        if ex is not None:
            ex.add(fn.fullname)
        env = Env(fn.env, self.bind_args(fn, args, kwargs))
        if isinstance(fn.node, ast.Lambda):
            fr = Frame(fn, env)
            self.frames.append(fr)
            self.depth += 1
            try:
                return self.eval(fn.node.body, env)
            finally:
                self.depth -= 1
                self.frames.pop()
        fr = Frame(fn, env)
        self.frames.append(fr)
        self.depth += 1
        try:
            self.exec_block(fn.node.body, env)
            return None
        except _Return as r:
            return r.v
        finally:
            self.depth -= 1
            self.frames.pop()

    def instantiate(self, cls, args, kwargs):
        B = self.builtins
        if any(getattr(c, "unmodelled_base", None) for c in cls.mro):
            raise Unsupported(f"instantiating {cls.name}: a base class ({[getattr(c, 'unmodelled_base', None) for c in cls.mro if getattr(c, 'unmodelled_base', None)][0]}) is not modelled")
        if cls.is_enum:
            return self.enum_lookup(cls, args[0])
        native = cls.ns.get("__native_new__")
        if native is None:
            for c in cls.mro:
                if "__native_new__" in c.ns:
                    native = c.ns["__native_new__"]
                    break
                if "__init__" in c.ns or "__new__" in c.ns:
                    break
        if native is not None:
            return native(self, cls, args, kwargs)
        inst = Instance(cls)
        init = cls.lookup("__init__")
        if init is not MISSING and isinstance(init, (Function, Builtin)):
            inst._init = True
            try:
                if isinstance(init, Function):
                    self.call(init, [inst] + list(args), kwargs)
                else:
                    init.fn(self, inst, *args, **kwargs)
            finally:
                inst._init = False
        elif cls.is_subclass(B["BaseException"]):
            inst.attrs["args"] = tuple(args)
        elif args or kwargs:
            raise self.exc("TypeError", f"{cls.name}() takes no arguments")
        return inst

    def enum_lookup(self, cls, value):
        if isinstance(value, (EnumMember,)) and value.cls is cls:
            return value
        if isinstance(value, SEnum) and value.cls is cls:
            return value
        if is_sym(value):
            if isinstance(value, SBV):
                value = value.to_int()
            members = list(cls.members.values())
            if not all(isinstance(m.value, int) for m in members):
                raise Unsupported("symbolic lookup in a non-integer enum")
            valid = Or(*[value == m.value for m in members])
            # a pure `_missing_` that yields one fixed member for every unknown value: no fork,
            # the result is the member  ite(valid, value, fallback)
            miss = cls.lookup("_missing_")
            if (miss is not MISSING and isinstance(miss, ClassMethod) and isinstance(miss.f, Function)
                    and not self.in_merge and purity.func_pure(self, miss.f)):
                r = self.merged_call(miss.f, [cls, value], {})
                if isinstance(r, EnumMember) and r.cls is cls and isinstance(r.value, int) and not isinstance(r.value, bool):
                    v = sym.ite(valid, value, r.value)
                    return r if isinstance(v, int) else SEnum(cls, v)
            if self.path.branch(valid):
                return SEnum(cls, value)
            return self._enum_missing(cls, value)
        for m in cls.members.values():
            if type(m.value) is type(value) and m.value == value or (isinstance(value, (int, float)) and not isinstance(value, bool) and isinstance(m.value, (int, float)) and m.value == value):
                return m
        return self._enum_missing(cls, value)

    def _enum_missing(self, cls, value):
        miss = cls.lookup("_missing_")
        if miss is not MISSING and isinstance(miss, ClassMethod):
            r = self.call(miss.f, [cls, value], {})
            if r is not None:
                return r
        raise self.exc("ValueError", Opaque(f"not a valid {cls.name}"))

    # ------------------------------------------------------------------ statements
    def exec_block(self, stmts, env):
        for s in stmts:
            self.exec(s, env)

    def exec(self, node, env):
        m = getattr(self, "x_" + type(node).__name__, None)
        if m is None:
            raise Unsupported(f"statement {type(node).__name__}")
        return m(node, env)

    def x_Expr(self, node, env):
        if isinstance(node.value, ast.Constant):
            return
        self.eval(node.value, env)

    def x_Pass(self, node, env):
        pass

    def x_Return(self, node, env):
        raise _Return(self.eval(node.value, env) if node.value is not None else None)

    def x_Break(self, node, env):
        raise _Break()

    def x_Continue(self, node, env):
        raise _Continue()

    def x_Assign(self, node, env):
        v = self.eval(node.value, env)
        for t in node.targets:
            self.assign(t, v, env)

    def x_AnnAssign(self, node, env):
        if node.value is not None:
            self.assign(node.target, self.eval(node.value, env), env)
        elif "__annotations_fields__" in env.vars and isinstance(node.target, ast.Name):
            env.vars["__annotations_fields__"].append(node.target.id)
        if node.value is not None and "__annotations_fields__" in env.vars and isinstance(node.target, ast.Name):
            env.vars["__annotations_fields__"].append(node.target.id)

    def x_AugAssign(self, node, env):
        cur = self.eval(_load(node.target), env)
        rhs = self.eval(node.value, env)
        if isinstance(node.op, ast.Add) and isinstance(cur, BytesVal) and cur.mutable:
            cur.items.extend(self._bytes_items(rhs))
            return
        if isinstance(node.op, ast.Add) and isinstance(cur, list):
            cur.extend(self.iterate(rhs))
            return
        self.assign(node.target, self.binop(node.op, cur, rhs), env)

    def x_Delete(self, node, env):
        for t in node.targets:
            if isinstance(t, ast.Subscript):
                obj = self.eval(t.value, env)
                idx = self.eval(t.slice, env)
                self.delitem(obj, idx)
            elif isinstance(t, ast.Name):
                env.vars.pop(t.id, None)
            else:
                raise Unsupported("del target")

    def delitem(self, obj, idx):
        if isinstance(obj, DequeVal) or isinstance(obj, list):
            items = obj.items if isinstance(obj, DequeVal) else obj
            if is_sym(idx):
                raise Unsupported("del with symbolic index")
            try:
                del items[idx]
            except IndexError:
                raise self.exc("IndexError", ("deque" if isinstance(obj, DequeVal) else "list assignment") + " index out of range")
            return
        if isinstance(obj, dict):
            if is_sym(idx):
                raise Unsupported("del of a dict entry with symbolic key")
            try:
                del obj[idx]
            except KeyError:
                raise self.exc("KeyError", idx)
            return
        d = getattr(obj, "py_delitem", None)
        if d is not None:
            return d(self, idx)
        raise Unsupported(f"del on {type(obj).__name__}")

    def assign(self, target, v, env):
        if isinstance(target, ast.Name):
            env.vars[target.id] = v
        elif isinstance(target, ast.Attribute):
            self.setattr(self.eval(target.value, env), target.attr, v)
        elif isinstance(target, ast.Subscript):
            obj = self.eval(target.value, env)
            idx = self.eval(target.slice, env)
            self.setitem(obj, idx, v)
        elif isinstance(target, (ast.Tuple, ast.List)):
            items = self.iterate(v)
            star = [i for i, e in enumerate(target.elts) if isinstance(e, ast.Starred)]
            if star:
                raise Unsupported("starred assignment")
            if len(items) != len(target.elts):
                raise self.exc("ValueError", "unpack length mismatch")
            for t, x in zip(target.elts, items):
                self.assign(t, x, env)
        else:
            raise Unsupported(f"assignment target {type(target).__name__}")

    def setitem(self, obj, idx, v):
        if isinstance(obj, list):
            if is_sym(idx):
                raise Unsupported("list store with symbolic index")
            try:
                obj[idx] = v
            except IndexError:
                raise self.exc("IndexError", "list assignment index out of range")
            return
        if isinstance(obj, dict):
            if is_sym(idx) or any(is_sym(k) for k in obj.keys()):
                for k in list(obj.keys()):
                    if self.path.branch(self.py_eq(k, idx)):
                        obj[k] = v
                        return
                # the key differs from every present key on this path (each equality was forked
                # on above and is now refuted in the path condition): a new entry, in insertion order
                obj[idx] = v
                return
            obj[self._hashable(idx)] = v
            return
        if isinstance(obj, BytesVal) and obj.mutable:
            if isinstance(idx, slice):
                raise Unsupported("bytearray slice store")
            obj.items[idx] = v
            return
        s = getattr(obj, "py_setitem", None)
        if s is not None:
            return s(self, idx, v)
        raise Unsupported(f"item store on {type(obj).__name__}")

    def _hashable(self, k):
        return k

    def x_If(self, node, env):
        if self.test(self.eval(node.test, env)):
            self.exec_block(node.body, env)
        else:
            self.exec_block(node.orelse, env)

    def _loop_key(self, node):
        fr = self.frames[-1] if self.frames else None
        if fr is None or fr.func is None:
            return None
        fid = id(fr.func.node)
        if fid not in self._loop_ord_cache:
            self._loop_ord_cache[fid] = loop_ordinals(fr.func.node)
        ordn = self._loop_ord_cache[fid].get(id(node))
        return (fr.func.fullname, ordn)

    def _matched_hook(self, key, node):
        hook = self.loop_hooks.get(key)
        if hook is None and key is not None:
            for pred, hk in self.loop_matchers:
                if pred(key[0], node):
                    return hk
        return hook

    def x_For(self, node, env):
        key = self._loop_key(node)
        hook = self._matched_hook(key, node)
        if hook is not None:
            r = hook(self, node, env)
            if r is not NotImplemented:
                return
        it = self.eval(node.iter, env)
        pf = getattr(it, "py_for", None)
        if pf is not None:
            return pf(self, node, env)
        if isinstance(it, GuardedList):
            for g, v in it.pairs:
                if self.path.branch(g):
                    self.assign(node.target, v, env)
                    try:
                        self.exec_block(node.body, env)
                    except _Break:
                        return
                    except _Continue:
                        continue
            self.exec_block(node.orelse, env)
            return
        items = self.iterate(it, loop_key=key)
        for v in items:
            self.assign(node.target, v, env)
            try:
                self.exec_block(node.body, env)
            except _Break:
                return
            except _Continue:
                continue
        self.exec_block(node.orelse, env)

    def x_While(self, node, env):
        key = self._loop_key(node)
        hook = self._matched_hook(key, node)
        if hook is not None:
            r = hook(self, node, env)
            if r is not NotImplemented:
                return
        n = 0
        while True:
            if not self.test(self.eval(node.test, env)):
                self.exec_block(node.orelse, env)
                return
            n += 1
            if n > self.WHILE_CAP:
                raise Unsupported(f"while loop {key} exceeded {self.WHILE_CAP} iterations without a loop contract")
            try:
                self.exec_block(node.body, env)
            except _Break:
                return
            except _Continue:
                continue

    def iterate(self, it, loop_key=None):
        """Concrete list of the elements of an iterable, or Unsupported."""
        if it is None or isinstance(it, (bool, int, float)):
            raise self.exc("TypeError", f"'{type(it).__name__}' object is not iterable")
        if isinstance(it, (list, tuple)):
            return list(it)
        if isinstance(it, Class) and it.is_enum:
            # iterating an Enum class: its members in definition order, aliases left out
            seen, out = [], []
            for m in it.members.values():
                if not any(m is x for x in seen):
                    seen.append(m)
                    out.append(m)
            return out
        if type(it) is Instance and getattr(it.cls, "is_namedtuple", False):
            from .values import all_dc_fields
            return [it.attrs.get(f[0]) for f in all_dc_fields(it.cls)]
        if isinstance(it, range):
            return list(it)
        if isinstance(it, dict):
            return list(it.keys())
        if isinstance(it, BytesVal):
            return list(it.items)
        if isinstance(it, (bytes, bytearray)):
            return list(it)
        if isinstance(it, (SetVal, DequeVal)):
            return list(it.items)
        if isinstance(it, str):
            return list(it)
        if isinstance(it, GuardedList):
            out = []
            for g, v in it.pairs:
                if self.path.branch(g):
                    out.append(v)
            return out
        f = getattr(it, "py_iter", None)
        if f is not None:
            return f(self)
        if isinstance(it, ABytes):
            raise Unsupported(f"iteration over a symbolic-length buffer without a loop contract ({loop_key})")
        raise Unsupported(f"iteration over {type(it).__name__} ({loop_key})")

    def x_Raise(self, node, env):
        if node.exc is None:
            fr = self.frames[-1] if self.frames else None
            if fr is not None and fr.exc_stack:
                raise PyExc(fr.exc_stack[-1])
            for f in reversed(self.frames):
                if f.exc_stack:
                    raise PyExc(f.exc_stack[-1])
            raise self.exc("RuntimeError", "No active exception to reraise")
        e = self.eval(node.exc, env)
        if isinstance(e, Class):
            e = self.instantiate(e, [], {})
        if node.cause is not None:
            self.eval(node.cause, env)
        raise PyExc(e)

    def x_Assert(self, node, env):
        if not self.test(self.eval(node.test, env)):
            raise self.exc("AssertionError")

    def exc_matches(self, excval, handler_type):
        if isinstance(handler_type, tuple):
            return any(self.exc_matches(excval, h) for h in handler_type)
        if isinstance(handler_type, Class):
            return excval.cls.is_subclass(handler_type)
        return False

    def x_Try(self, node, env):
        fr = self.frames[-1] if self.frames else None
        try:
            try:
                self.exec_block(node.body, env)
            except PyExc as pe:
                handled = False
                for h in node.handlers:
                    ht = self.eval(h.type, env) if h.type is not None else self.builtins["BaseException"]
                    if self.exc_matches(pe.value, ht):
                        handled = True
                        if h.name:
                            env.vars[h.name] = pe.value
                        if fr is not None:
                            fr.exc_stack.append(pe.value)
                        try:
                            self.exec_block(h.body, env)
                        finally:
                            if fr is not None:
                                fr.exc_stack.pop()
                        break
                if not handled:
                    raise
            else:
                self.exec_block(node.orelse, env)
        finally:
            if node.finalbody:
                self.exec_block(node.finalbody, env)

    def x_With(self, node, env, is_async=False):
        self._with_items(node.items, 0, node.body, env, is_async)

    def x_AsyncWith(self, node, env):
        self.x_With(node, env, is_async=True)

    def _with_items(self, items, i, body, env, is_async):
        if i == len(items):
            self.exec_block(body, env)
            return
        cm = self.eval(items[i].context_expr, env)
        enter = getattr(cm, "cm_enter", None)
        if enter is None:
            raise Unsupported(f"context manager {cm!r}")
        v = enter(self)
        if items[i].optional_vars is not None:
            self.assign(items[i].optional_vars, v, env)
        try:
            self._with_items(items, i + 1, body, env, is_async)
        except PyExc as pe:
            if not cm.cm_exit(self, pe.value):
                raise
        except (_Return, _Break, _Continue):
            cm.cm_exit(self, None)
            raise
        else:
            cm.cm_exit(self, None)

    def x_FunctionDef(self, node, env, is_async=False):
        fn = self.make_function(node, env, is_async)
        v = fn
        for d in reversed(node.decorator_list):
            dec = self.eval(d, env)
            v = self.call(dec, [v], {})
        env.vars[node.name] = v

    def x_AsyncFunctionDef(self, node, env):
        self.x_FunctionDef(node, env, is_async=True)

    def make_function(self, node, env, is_async):
        a = node.args
        defaults = [self.eval(d, env) for d in a.defaults]
        kwdefaults = [self.eval(d, env) if d is not None else MISSING for d in a.kw_defaults]
        module = env.lookup("__module_obj__")
        qual_prefix = env.lookup("__qualname_prefix__")
        name = getattr(node, "name", "<lambda>")
        qualname = (qual_prefix + "." if qual_prefix is not MISSING and qual_prefix else "") + name
        fenv = env
        # methods close over the scope enclosing the class body, not the class namespace
        if "__class_body__" in env.vars:
            fenv = env.parent
        fn = Function(node, fenv, module, qualname, defaults, kwdefaults, is_async)
        fn.local_prefix = qualname + ".<locals>"
        return fn

    def x_ClassDef(self, node, env):
        bases = [self.eval(b, env) for b in node.bases]
        module = env.lookup("__module_obj__")
        qual_prefix = env.lookup("__qualname_prefix__")
        qualname = (qual_prefix + "." if qual_prefix is not MISSING and qual_prefix else "") + node.name
        cenv = Env(env, {"__class_body__": True, "__qualname_prefix__": qualname, "__annotations_fields__": []})
        # enum auto() counter
        cenv.vars["__auto_counter__"] = [0]
        self.exec_block(node.body, cenv)
        ns = {k: v for k, v in cenv.vars.items() if k not in ("__class_body__", "__qualname_prefix__", "__annotations_fields__", "__auto_counter__")}
        cls = Class(node.name, bases, ns, module=module.name if isinstance(module, Module) else "?", qualname=qualname)
        cls.annotated = list(dict.fromkeys(cenv.vars["__annotations_fields__"]))
        cls.node = node
        for v in ns.values():
            if isinstance(v, Function) and v.owner is None:
                v.owner = cls
            elif isinstance(v, (StaticMethod, ClassMethod)) and isinstance(v.f, Function):
                v.f.owner = cls
            elif isinstance(v, Property) and isinstance(v.fget, Function):
                v.fget.owner = cls
        if cls.is_enum:
            self.loader.finish_enum(self, cls)
        if any(getattr(b, "is_namedtuple_base", False) for b in cls.bases):
            # class X(NamedTuple): positional, immutable, compared by value, iterable and indexable in field order
            from .stdlib import _dataclass_apply
            _dataclass_apply(self, cls, frozen=True, eq_=True)
            cls.is_namedtuple = True
        for b in bases:
            if not isinstance(b, (Class, TypeDummy)):
                cls.unmodelled_base = repr(b)   # instantiating it is outside the modelled subset
        for kw in node.keywords:
            pass
        v = cls
        for d in reversed(node.decorator_list):
            dec = self.eval(d, env)
            v = self.call(dec, [v], {})
        env.vars[node.name] = v

    def x_Import(self, node, env):
        for a in node.names:
            mod = self.loader.load(a.name, self)
            if a.asname:
                env.vars[a.asname] = mod
            else:
                top = a.name.split(".")[0]
                env.vars[top] = self.loader.load(top, self)

    def x_ImportFrom(self, node, env):
        modname = node.module or ""
        if node.level:
            cur = env.lookup("__module_obj__")
            pkg = cur.name.split(".")
            if not getattr(cur, "is_package", False):
                pkg = pkg[:-1]
            if node.level > 1:
                pkg = pkg[: -(node.level - 1)]
            modname = ".".join(pkg + ([modname] if modname else []))
        mod = self.loader.load(modname, self)
        for a in node.names:
            if a.name == "*":
                raise Unsupported("import *")
            if a.name in mod.ns:
                v = mod.ns[a.name]
            else:
                sub = self.loader.submodule(mod, a.name, self)
                if sub is None:
                    if mod.path is None:
                        from .values import UnmodelledName
                        env.vars[a.asname or a.name] = UnmodelledName(f"{modname}.{a.name}")
                        continue
                    raise self.exc("ImportError", f"cannot import {a.name} from {modname}")
                v = sub
            env.vars[a.asname or a.name] = v

    def x_Global(self, node, env):
        raise Unsupported("global")

    def x_Nonlocal(self, node, env):
        raise Unsupported("nonlocal")

    # -- match ---------------------------------------------------------------------
    def x_Match(self, node, env):
        subject = self.eval(node.subject, env)
        for case in node.cases:
            binds = {}
            if self.match_pattern(case.pattern, subject, env, binds):
                env.vars.update(binds)
                if case.guard is not None and not self.test(self.eval(case.guard, env)):
                    continue
                self.exec_block(case.body, env)
                return

    def match_pattern(self, pat, subject, env, binds) -> bool:
        if isinstance(pat, ast.MatchAs):
            if pat.pattern is not None and not self.match_pattern(pat.pattern, subject, env, binds):
                return False
            if pat.name is not None:
                binds[pat.name] = subject
            return True
        if isinstance(pat, ast.MatchOr):
            for p in pat.patterns:
                b2 = {}
                if self.match_pattern(p, subject, env, b2):
                    binds.update(b2)
                    return True
            return False
        if isinstance(pat, ast.MatchValue):
            v = self.eval(pat.value, env)
            return self.path.branch(self.py_eq(subject, v))
        if isinstance(pat, ast.MatchSingleton):
            return subject is pat.value
        if isinstance(pat, ast.MatchClass):
            cls = self.eval(pat.cls, env)
            if not self.isinstance_(subject, cls):
                return False
            if pat.patterns:
                if isinstance(cls, Class) and cls.name in ("bytes", "bytearray", "int", "str", "float", "bool") and cls.module == "builtins":
                    if len(pat.patterns) != 1:
                        raise Unsupported("builtin class pattern arity")
                    if not self.match_pattern(pat.patterns[0], subject, env, binds):
                        return False
                else:
                    margs = self.getattr(cls, "__match_args__")
                    if len(pat.patterns) > len(margs):
                        raise self.exc("TypeError", "too many positional sub-patterns")
                    for sp, an in zip(pat.patterns, margs):
                        if not self.match_pattern(sp, self.getattr(subject, an), env, binds):
                            return False
            for an, sp in zip(pat.kwd_attrs, pat.kwd_patterns):
                if not self.match_pattern(sp, self.getattr(subject, an), env, binds):
                    return False
            return True
        if isinstance(pat, ast.MatchSequence):
            if not isinstance(subject, (list, tuple)):
                return False
            if any(isinstance(p, ast.MatchStar) for p in pat.patterns):
                raise Unsupported("star pattern")
            if len(subject) != len(pat.patterns):
                return False
            return all(self.match_pattern(p, s, env, binds) for p, s in zip(pat.patterns, subject))
        raise Unsupported(f"pattern {type(pat).__name__}")

    # ------------------------------------------------------------------ expressions
    def eval(self, node, env):
        m = getattr(self, "e_" + type(node).__name__, None)
        if m is None:
            raise Unsupported(f"expression {type(node).__name__}")
        return m(node, env)

    def e_Constant(self, node, env):
        v = node.value
        if isinstance(v, bytes):
            return BytesVal.of(v)
        if isinstance(v, float) and self.exact_floats:
            return fractions.Fraction(str(v))
        return v

    def e_Name(self, node, env):
        v = env.lookup(node.id)
        if v is MISSING:
            v = self.builtins.get(node.id, MISSING)
            if v is MISSING:
                import builtins as _bi
                if hasattr(_bi, node.id):
                    raise Unsupported(f"builtin {node.id} is not modelled by the interpreter")
                raise self.exc("NameError", node.id)
        return v

    def e_Attribute(self, node, env):
        return self.getattr(self.eval(node.value, env), node.attr)

    def e_Tuple(self, node, env):
        return tuple(self._elts(node.elts, env))

    def e_List(self, node, env):
        return self._elts(node.elts, env)

    def e_Set(self, node, env):
        return SetVal(self._elts(node.elts, env))

    def _elts(self, elts, env):
        out = []
        for e in elts:
            if isinstance(e, ast.Starred):
                out.extend(self.iterate(self.eval(e.value, env)))
            else:
                out.append(self.eval(e, env))
        return out

    def e_Dict(self, node, env):
        d = {}
        for k, v in zip(node.keys, node.values):
            if k is None:
                d.update(self.eval(v, env))
            else:
                d[self.eval(k, env)] = self.eval(v, env)
        return d

    def e_JoinedStr(self, node, env):
        parts = []
        opaque = False
        for p in node.values:
            if isinstance(p, ast.Constant):
                parts.append(p.value)
            else:
                v = self.eval(p.value, env)
                if isinstance(v, (int, float, str, bool)) and not opaque:
                    spec = ""
                    if p.format_spec is not None:
                        s = self.e_JoinedStr(p.format_spec, env)
                        if isinstance(s, str):
                            spec = s
                        else:
                            opaque = True
                            continue
                    if p.conversion == ord("r"):
                        v = repr(v)
                    elif p.conversion == ord("s"):
                        v = str(v)
                    try:
                        parts.append(format(v, spec))
                    except Exception:
                        opaque = True
                else:
                    opaque = True
        if opaque:
            return Opaque("fstring")
        return "".join(parts)

    def e_Lambda(self, node, env):
        a = node.args
        defaults = [self.eval(d, env) for d in a.defaults]
        kwdefaults = [self.eval(d, env) if d is not None else MISSING for d in a.kw_defaults]
        module = env.lookup("__module_obj__")
        fn = Function(node, env, module, "<lambda>", defaults, kwdefaults, False)
        fn.name = "<lambda>"
        return fn

    def e_IfExp(self, node, env):
        if self.test(self.eval(node.test, env)):
            return self.eval(node.body, env)
        return self.eval(node.orelse, env)

    def e_BoolOp(self, node, env):
        is_and = isinstance(node.op, ast.And)
        v = None
        for i, e in enumerate(node.values):
            v = self.eval(e, env)
            if i == len(node.values) - 1:
                return v
            t = self.test(v)
            if is_and and not t:
                return v
            if not is_and and t:
                return v
        return v

    def e_UnaryOp(self, node, env):
        v = self.eval(node.operand, env)
        if isinstance(node.op, ast.Not):
            return Not(self.truth(v))
        if isinstance(node.op, ast.USub):
            return -v
        if isinstance(node.op, ast.UAdd):
            return +v
        if isinstance(node.op, ast.Invert):
            if isinstance(v, int):
                return ~v
            raise Unsupported("~ on symbolic")
        raise Unsupported("unary op")

    def e_BinOp(self, node, env):
        return self.binop(node.op, self.eval(node.left, env), self.eval(node.right, env))

    def _bytes_items(self, v):
        if isinstance(v, BytesVal):
            return v.items
        if isinstance(v, (bytes, bytearray)):
            return list(v)
        if isinstance(v, list):
            return v
        raise Unsupported(f"bytes items of {type(v).__name__}")

    def binop(self, op, a, b):
        if isinstance(op, ast.BitOr) and (isinstance(a, (Class, UnionT)) or isinstance(b, (Class, UnionT))):
            return UnionT.of(a, b)
        if isinstance(a, TypeDummy) or isinstance(b, TypeDummy):
            return TypeDummy()
        if isinstance(op, ast.BitOr) and (isinstance(a, Class) or isinstance(b, Class) or (a is None and isinstance(b, (Class, TypeDummy))) or (b is None and isinstance(a, (Class, TypeDummy)))):
            return TypeDummy()
        if isinstance(a, bytes):
            a = BytesVal.of(a)
        if isinstance(b, bytes):
            b = BytesVal.of(b)
        if isinstance(op, ast.Add):
            if isinstance(a, BytesVal) and isinstance(b, BytesVal):
                return BytesVal(a.items + b.items, a.mutable)
            if isinstance(a, (BytesVal, ABytes)) or isinstance(b, (BytesVal, ABytes)):
                from . import pybuiltins
                return pybuiltins.bytes_concat(self, a, b)
            if isinstance(a, list) and isinstance(b, list):
                return a + b
            if isinstance(a, tuple) and isinstance(b, tuple):
                return a + b
            if isinstance(a, str) and isinstance(b, str):
                return a + b
            if isinstance(a, (SStr, str)) and isinstance(b, (SStr, str)):
                from . import pybuiltins
                return pybuiltins.str_concat(a, b)
            r = _num(a) + _num(b)
            return r
        pb = getattr(a, "py_binop", None)
        if pb is not None:
            return pb(self, op, b)
        if isinstance(op, ast.BitOr) and isinstance(a, dict) and isinstance(b, dict):
            return {**a, **b}           # PEP 584: right operand wins, insertion order of the left one first
        if isinstance(op, (ast.BitOr, ast.BitAnd, ast.Sub, ast.BitXor)) and isinstance(a, SetVal) and isinstance(b, SetVal):
            raise Unsupported(f"set operator {type(op).__name__} is not modelled")
        # operators that bytes / str / list / None / instances do not have: the interpreted TypeError, not a checker error
        # (only where CPython itself refuses this pair of operand types; anything else is outside the modelled subset)
        if not isinstance(op, (ast.Add, ast.Mult, ast.Mod)):
            real = _real_operands(a, b)
            if real is not None:
                import operator as _op
                fn = {ast.Sub: _op.sub, ast.BitOr: _op.or_, ast.BitAnd: _op.and_, ast.BitXor: _op.xor, ast.LShift: _op.lshift, ast.RShift: _op.rshift,
                      ast.Div: _op.truediv, ast.FloorDiv: _op.floordiv, ast.Pow: _op.pow, ast.MatMult: _op.matmul}.get(type(op))
                if fn is not None:
                    try:
                        fn(*real)
                        supported = True
                    except TypeError:
                        supported = False
                    except Exception:  # noqa: BLE001  (ZeroDivisionError etc.: the types do support it)
                        supported = True
                    if supported and any(isinstance(x, (list, tuple, dict, str)) or x is None for x in (a, b)):
                        raise Unsupported(f"operator {type(op).__name__} on {type(real[0]).__name__} and {type(real[1]).__name__} is not modelled")
            for x in (a, b):
                if x is None or isinstance(x, (BytesVal, ABytes, SStr, str, list, tuple, dict, Instance)) and not isinstance(x, EnumMember) \
                        and getattr(x, "py_sub", None) is None and not hasattr(x, "py_binop"):
                    if isinstance(x, Instance) and any(x.cls.lookup(m) is not MISSING for m in ("__sub__", "__rsub__", "__or__", "__and__", "__lt__", "__truediv__", "__floordiv__")):
                        continue
                    raise self.exc("TypeError", f"unsupported operand type(s) for {type(op).__name__}")
        if isinstance(op, ast.Sub):
            pb = getattr(a, "py_sub", None)
            if pb is not None:
                return pb(self, b)
            return _num(a) - _num(b)
        if isinstance(op, ast.Mult):
            if isinstance(a, BytesVal) and isinstance(b, int):
                return BytesVal(a.items * max(b, 0), a.mutable)
            if isinstance(b, BytesVal) and isinstance(a, int):
                return BytesVal(b.items * max(a, 0), b.mutable)
            if isinstance(a, BytesVal) or isinstance(b, BytesVal):
                raise Unsupported("bytes repetition by a symbolic count")
            if isinstance(a, (list, str)) and isinstance(b, int):
                return a * b
            pb = getattr(a, "py_mul", None)
            if pb is not None:
                return pb(self, b)
            return _num(a) * _num(b)
        if isinstance(op, ast.Div):
            pb = getattr(a, "py_truediv", None)
            if pb is not None:
                return pb(self, b)
            a, b = _num(a), _num(b)
            if isinstance(b, (int, float)) and not is_sym(a):
                if b == 0:
                    raise self.exc("ZeroDivisionError")
                return a / b
            if is_sym(b):
                if self.path.branch(b == 0):
                    raise self.exc("ZeroDivisionError")
            elif b == 0:
                raise self.exc("ZeroDivisionError")
            if isinstance(a, SReal) or isinstance(a, SInt):
                return a / b
            return sym.mkreal(sym.real_t(a) / sym.real_t(b))
        if isinstance(op, ast.FloorDiv):
            pb = getattr(a, "py_floordiv", None)
            if pb is not None:
                return pb(self, b)
            if not is_sym(a) and not is_sym(b):
                if b == 0:
                    raise self.exc("ZeroDivisionError")
                return a // b
            if isinstance(a, SReal) and isinstance(b, int) and not isinstance(b, bool) and b > 0:
                # float // positive int constant (floats are exact reals here): floor, as a float
                return sym.mkreal(z3.ToReal(z3.ToInt(sym.real_t(a) / sym.real_t(b))))
            return _num(a) // b
        if isinstance(op, ast.Mod):
            if isinstance(a, str):
                return Opaque("%-format") if (is_sym(b) or isinstance(b, tuple) and any(is_sym(x) for x in b)) else a % b
            if not is_sym(a) and not is_sym(b):
                if b == 0:
                    raise self.exc("ZeroDivisionError")
                return a % b
            if isinstance(a, SReal) and isinstance(b, int) and not isinstance(b, bool) and b > 0:
                # float % positive int constant: a - b * floor(a / b)
                return sym.mkreal(sym.real_t(a) - sym.real_t(b) * z3.ToReal(z3.ToInt(sym.real_t(a) / sym.real_t(b))))
            return _num(a) % b
        if isinstance(op, ast.LShift):
            if not is_sym(a) and not is_sym(b):
                return a << b
            if is_sym(b) and isinstance(a, int):
                # 1 << symbolic offset: enumerate small offsets
                raise Unsupported("shift by a symbolic amount")
            return _num(a) << b
        if isinstance(op, ast.RShift):
            if not is_sym(a) and not is_sym(b):
                return a >> b
            return _num(a) >> b
        if isinstance(op, ast.BitAnd):
            if isinstance(a, SetVal) and isinstance(b, SetVal):
                return SetVal([x for x in a.items if x in b])
            return _num(a) & _num(b)
        if isinstance(op, ast.BitOr):
            if isinstance(a, SetVal) and isinstance(b, SetVal):
                return SetVal(a.items + b.items)
            if isinstance(a, dict) and isinstance(b, dict):
                return {**a, **b}
            return _num(a) | _num(b)
        if isinstance(op, ast.BitXor):
            return _num(a) ^ _num(b)
        if isinstance(op, ast.Pow):
            if not is_sym(a) and not is_sym(b):
                return a ** b
            raise Unsupported("** on symbolic")
        raise Unsupported(f"binary operator {type(op).__name__}")

    def e_Compare(self, node, env):
        left = self.eval(node.left, env)
        result = True
        for op, rn in zip(node.ops, node.comparators):
            right = self.eval(rn, env)
            r = self.compare(op, left, right)
            result = And(result, r)
            if result is False:
                return False
            left = right
        return result

    def compare(self, op, a, b):
        if isinstance(op, ast.Eq):
            return self.py_eq(a, b)
        if isinstance(op, ast.NotEq):
            return Not(self.py_eq(a, b))
        if isinstance(op, ast.Is):
            return self.identical(a, b)
        if isinstance(op, ast.IsNot):
            return Not(self.identical(a, b))
        if isinstance(op, ast.In):
            return self.contains(b, a)
        if isinstance(op, ast.NotIn):
            return Not(self.contains(b, a))
        pc = getattr(a, "py_compare", None)
        if pc is not None:
            return pc(self, op, b)
        a, b = _num(a), _num(b)
        if isinstance(op, ast.Lt):
            return a < b
        if isinstance(op, ast.LtE):
            return a <= b
        if isinstance(op, ast.Gt):
            return a > b
        if isinstance(op, ast.GtE):
            return a >= b
        raise Unsupported("comparison operator")

    def identical(self, a, b):
        if a is b:
            return True
        if isinstance(a, (SEnum, EnumMember)) and isinstance(b, (SEnum, EnumMember)):
            return self.enum_eq(a, b)
        if isinstance(a, bool) and isinstance(b, bool):
            return a == b
        if isinstance(a, (bool, SBool)) and isinstance(b, (bool, SBool)):
            return eq(a, b) if isinstance(a, SBool) else eq(b, a)
        return False

    def e_Call(self, node, env):
        fn = self.eval(node.func, env)
        args = []
        for a in node.args:
            if isinstance(a, ast.Starred):
                args.extend(self.iterate(self.eval(a.value, env)))
            else:
                args.append(self.eval(a, env))
        kwargs = {}
        for k in node.keywords:
            if k.arg is None:
                kwargs.update(self.eval(k.value, env))
            else:
                kwargs[k.arg] = self.eval(k.value, env)
        # zero-arg super()
        if fn is self.builtins.get("super") and not args:
            fr = self.frames[-1]
            selfobj = next(iter(fr.env.vars.values()))
            return _Super(fr.func.owner, selfobj)
        return self.call(fn, args, kwargs)

    def e_Await(self, node, env):
        v = self.eval(node.value, env)
        return self.await_value(v)

    def await_value(self, v):
        if isinstance(v, Coroutine):
            if v.started:
                raise self.exc("RuntimeError", "cannot reuse already awaited coroutine")
            v.started = True
            return v.run()
        aw = getattr(v, "aw_await", None)
        if aw is not None:
            return aw(self)
        raise Unsupported(f"await on {v!r}")

    def e_Subscript(self, node, env):
        obj = self.eval(node.value, env)
        if isinstance(obj, (Class, TypeDummy)):
            return obj
        idx = self.eval(node.slice, env)
        return self.getitem(obj, idx)

    def e_Slice(self, node, env):
        lo = self.eval(node.lower, env) if node.lower is not None else None
        hi = self.eval(node.upper, env) if node.upper is not None else None
        st = self.eval(node.step, env) if node.step is not None else None
        if is_sym(lo) or is_sym(hi) or is_sym(st):
            return SymSlice(lo, hi, st)
        return slice(lo, hi, st)

    def getitem(self, obj, idx):
        from . import pybuiltins
        return pybuiltins.getitem(self, obj, idx)

    def e_ListComp(self, node, env):
        if len(node.generators) == 1:
            src = self.eval(node.generators[0].iter, env)
            lc = getattr(src, "py_listcomp", None)
            if lc is not None:
                return lc(self, node, node.generators[0], env)
        if len(node.generators) == 1 and node.generators[0].ifs:
            g = node.generators[0]
            it = self.eval(g.iter, env)
            if not isinstance(it, GuardedList):
                items = self.iterate(it)
                cenv = Env(env)
                pairs = []
                symbolic = False
                for v in items:
                    self.assign(g.target, v, cenv)
                    cond = True
                    for c in g.ifs:
                        cond = And(cond, self.truth(self.eval(c, cenv)))
                    if cond is False:
                        continue
                    if cond is not True:
                        symbolic = True
                    pairs.append((cond, self.eval(node.elt, cenv)))
                if symbolic:
                    return GuardedList(pairs)
                return [v for _, v in pairs]
        out = []
        self._comp(node.generators, 0, env, lambda e: out.append(self.eval(node.elt, e)))
        return out

    def e_GeneratorExp(self, node, env):
        return self.e_ListComp(node, env)

    def e_SetComp(self, node, env):
        if len(node.generators) == 1 and node.generators[0].ifs and not node.generators[0].is_async:
            # symbolic filter over a concrete universe: a guarded set instead of 2^n paths
            from .gsets import guarded_setcomp
            r = guarded_setcomp(self, node, env)
            if r is not NotImplemented:
                return r
        out = []
        self._comp(node.generators, 0, env, lambda e: out.append(self.eval(node.elt, e)))
        return SetVal(out)

    def e_DictComp(self, node, env):
        out = {}

        def add(e):
            out[self.eval(node.key, e)] = self.eval(node.value, e)

        self._comp(node.generators, 0, env, add)
        return out

    def _comp(self, gens, i, env, emit):
        if i == len(gens):
            emit(env)
            return
        g = gens[i]
        it = self.eval(g.iter, env)
        hook = getattr(it, "py_comprehension", None)
        if hook is not None:
            raise Unsupported("comprehension over abstract collection (needs model)")
        for v in self.iterate(it):
            cenv = Env(env)
            self.assign(g.target, v, cenv)
            if all(self.test(self.eval(c, cenv)) for c in g.ifs):
                self._comp(gens, i + 1, cenv, emit)

    def e_Starred(self, node, env):
        raise Unsupported("starred expression")

    def e_NamedExpr(self, node, env):
        v = self.eval(node.value, env)
        self.assign(node.target, v, env)
        return v


def _any_sym(args, kwargs):
    for a in list(args) + list(kwargs.values()):
        if is_sym(a) or isinstance(a, SEnum):
            return True
        if isinstance(a, Instance) and not isinstance(a, EnumMember):
            return True
    return False


def _is_scalar_num(v):
    return isinstance(v, (int, float, SInt, SReal, SBV)) and not isinstance(v, bool)


class SymSlice:
    def __init__(self, lo, hi, st):
        self.lo, self.hi, self.st = lo, hi, st


class _Super:
    def __init__(self, cls, obj):
        self.cls = cls
        self.obj = obj

    def py_getattr(self, interp, name):
        inst_cls = self.obj.cls if isinstance(self.obj, Instance) else self.obj
        mro = inst_cls.mro
        i = mro.index(self.cls)
        for c in mro[i + 1:]:
            if name in c.ns:
                v = c.ns[name]
                if isinstance(v, Function):
                    return BoundMethod(v, self.obj)
                if isinstance(v, Builtin):
                    return BoundMethod(v, self.obj)
                return v
        interp._missing_attribute(self.cls, name, f"super({self.cls.name})")


def _load(target):
    import copy
    t = copy.copy(target)
    t.ctx = ast.Load()
    return t


def _num(x):
    if isinstance(x, SEnum):
        raise Unsupported("arithmetic on enum")
    return x
