"""Assumed contracts (models) of the asyncio primitives used by /repo.  DESIGN.md section 2.7.

Every model records an *effect event* on the path (`path.event(kind, ...)`), and every
awaitable that can suspend calls `interp.suspend(reason)` first, which is where the
coroutine rule havocs the shared state (section 2.6).  The models are assumptions: they are
listed in every evidence file that depends on them.
"""
from __future__ import annotations

from pyvc.values import unmodelled as _unmodelled  # noqa: E402
import z3

from . import sym
from .sym import And, Or, Not, eq, is_sym
from .values import (Unsupported, PyExc, MISSING, Class, Instance, Function, Builtin, BoundMethod,
                     Module, Coroutine, BytesVal, ABytes, SetVal, Opaque)


def suspend(it, reason):
    h = getattr(it, "await_hook", None)
    if h is not None:
        h(it, reason)


def now(it):
    return it.path.ghost.setdefault("now", _fresh_clock(it))


def _fresh_clock(it):
    t = sym.fresh_real("now")
    it.path.assume(t >= 0)
    it.path.inputs.setdefault("clock0", t)
    return t


def advance_clock(it, at_least=0, exactly=None):
    """Time passes only at suspension points."""
    cur = now(it)
    if exactly is not None:
        it.path.ghost["now"] = cur + exactly
        return
    t = sym.fresh_real("now")
    it.path.assume(t >= cur + at_least)
    it.path.ghost["now"] = t


class Awaitable:
    """A library awaitable: `fn(it)` runs when awaited."""

    def __init__(self, label, fn):
        self.label = label
        self.fn = fn
        self.awaited = False

    def aw_await(self, it):
        self.awaited = True
        return self.fn(it)

    def __repr__(self):
        return f"<awaitable {self.label}>"


class EventModel:
    def __init__(self, name="event"):
        self.name = name
        self.flag = False

    def py_getattr(self, it, name):
        if name == "set":
            return Builtin("Event.set", lambda: self._set(it, True))
        if name == "clear":
            return Builtin("Event.clear", lambda: self._set(it, False))
        if name == "is_set":
            return Builtin("Event.is_set", lambda: self.flag)
        if name == "wait":
            return Builtin("Event.wait", lambda: Awaitable("Event.wait", lambda it2: self._wait(it2)))
        raise _unmodelled(self, name)

    def _set(self, it, v):
        self.flag = v
        it.path.event("event.set" if v else "event.clear", self)

    def _wait(self, it):
        h = getattr(it, "event_wait_hook", None)
        if h is not None:
            return h(it, self)
        if it.path.branch(self.flag) if is_sym(self.flag) else self.flag:
            return True
        suspend(it, ("event.wait", self))
        # resumed: either it is set now, or the enclosing timeout fired (handled by hooks)
        self.flag = True
        return True

    def __repr__(self):
        return f"<Event {self.name} flag={self.flag}>"


class LoopModel:
    def py_getattr(self, it, name):
        if name == "time":
            return Builtin("loop.time", lambda: now(it))
        if name == "create_task":
            return Builtin("loop.create_task", lambda coro, **k: create_task(it, coro))
        if name == "create_datagram_endpoint":
            return Builtin("loop.create_datagram_endpoint", lambda *a, **k: _datagram_endpoint(it, *a, **k))
        raise _unmodelled(self, name)

    def __repr__(self):
        return "<loop>"


class TaskModel:
    def __init__(self, coro, n):
        self.coro = coro
        self.n = n
        self.cancelled = False
        self.done_callbacks = []

    def py_getattr(self, it, name):
        if name == "cancel":
            return Builtin("Task.cancel", lambda *a: self._cancel(it))
        if name == "add_done_callback":
            return Builtin("Task.add_done_callback", lambda cb: self.done_callbacks.append(cb))
        if name == "exception":
            return Builtin("Task.exception", lambda: None)
        if name == "done":
            return Builtin("Task.done", lambda: self.cancelled)
        raise _unmodelled(self, name)

    def _cancel(self, it):
        self.cancelled = True
        it.path.event("task.cancel", self)
        return True

    def aw_await(self, it):
        suspend(it, ("await-task", self))
        it.path.event("task.await", self)
        if self.cancelled:
            raise it.exc("CancelledError")
        return None

    def __repr__(self):
        return f"<Task #{self.n} {self.coro!r}>"


def create_task(it, coro):
    tasks = it.path.ghost.setdefault("tasks", [])
    t = TaskModel(coro, len(tasks))
    tasks.append(t)
    it.path.event("create_task", t)
    return t


class DatagramTransportModel:
    """asyncio.DatagramTransport: sendto() and close() never raise and never suspend."""

    def __init__(self):
        self.closed = 0

    def py_truth(self, it):
        return True

    def py_getattr(self, it, name):
        if name == "sendto":
            return Builtin("transport.sendto", lambda data, addr=None: it.path.event("sendto", data, addr, now(it)))
        if name == "close":
            def close():
                self.closed += 1
                it.path.event("transport.close")
            return Builtin("transport.close", close)
        raise _unmodelled(self, name)

    def __repr__(self):
        return "<datagram transport>"


def _datagram_endpoint(it, protocol_factory=None, *a, sock=None, **k):
    """Assumed contract of loop.create_datagram_endpoint(factory, sock=s): suspends, calls the factory once,
    returns (transport, protocol) for the given socket.  OS failures (OSError) are outside the model."""
    def run(it2):
        it2.path.event("create_datagram_endpoint", sock, k)
        suspend(it2, ("create_datagram_endpoint",))
        if protocol_factory is None:
            raise it2.exc("TypeError", "protocol_factory")
        proto = it2.call(protocol_factory, [], {})
        tr = DatagramTransportModel()
        it2.path.event("endpoint", tr, proto, sock)
        return (tr, proto)
    return Awaitable("create_datagram_endpoint", run)


class SocketModel:
    """socket.socket(...): records options and the bound address; bind() does not fail (assumption)."""

    def __init__(self, it, args, kwargs):
        self.args, self.kwargs = args, kwargs
        self.opts = []
        self.bound = []
        it.path.event("socket.socket", self)

    def py_truth(self, it):
        return True

    def py_getattr(self, it, name):
        if name == "setsockopt":
            return Builtin("socket.setsockopt", lambda *a: self.opts.append(tuple(a)))
        if name == "bind":
            return Builtin("socket.bind", lambda addr: self.bound.append(addr))
        if name in ("setblocking", "close"):
            return Builtin("socket." + name, lambda *a: None)
        raise _unmodelled(self, name)

    def __repr__(self):
        return "<socket>"


class TimeoutCM:
    """asyncio.timeout(delay): `when` is None or an absolute loop time."""

    def __init__(self, it, delay):
        self.delay = delay
        self.when = None

    def cm_enter(self, it):
        self.when = None if self.delay is None else now(it) + self.delay
        it.path.event("timeout.enter", self, self.when)
        stack = it.path.ghost.setdefault("timeouts", [])
        stack.append(self)
        return self

    def cm_exit(self, it, exc):
        it.path.ghost["timeouts"].remove(self)
        it.path.event("timeout.exit", self)
        return False

    def py_getattr(self, it, name):
        if name == "reschedule":
            return Builtin("Timeout.reschedule", lambda when: self._resched(it, when))
        if name == "when":
            return Builtin("Timeout.when", lambda: self.when)
        raise _unmodelled(self, name)

    def _resched(self, it, when):
        self.when = when
        it.path.event("timeout.reschedule", self, when)


def make_asyncio_module(b):
    m = Module("asyncio")
    m.ns["CancelledError"] = b["CancelledError"]
    m.ns["TimeoutError"] = b["TimeoutError"]
    m.ns["IncompleteReadError"] = b["IncompleteReadError"]
    m.ns["InvalidStateError"] = b["InvalidStateError"]
    for n in ("AbstractEventLoop", "StreamReader", "StreamWriter", "Task", "DatagramProtocol",
              "DatagramTransport", "BaseTransport", "Future", "Queue"):
        m.ns[n] = Class(n, [], {}, module="asyncio")
    m.ns["Event"] = Builtin("asyncio.Event", lambda: EventModel())
    m.ns["get_running_loop"] = Builtin("get_running_loop", lambda: LoopModel())
    m.ns["get_event_loop"] = Builtin("get_event_loop", lambda: LoopModel())

    def sleep(it, delay, result=None):
        def run(it2):
            suspend(it2, ("sleep", delay))
            advance_clock(it2, exactly=delay)
            it2.path.event("sleep", delay)
            return result
        return Awaitable("sleep", run)

    m.ns["sleep"] = Builtin("asyncio.sleep", sleep, True)
    m.ns["timeout"] = Builtin("asyncio.timeout", lambda it, delay: TimeoutCM(it, delay), True)

    def open_connection(it, host=None, port=None, **k):
        def run(it2):
            h = getattr(it2, "open_connection_hook", None)
            if h is None:
                raise Unsupported("asyncio.open_connection without a harness model")
            return h(it2, host, port)
        return Awaitable("open_connection", run)

    m.ns["open_connection"] = Builtin("asyncio.open_connection", open_connection, True)

    def as_completed(it, aws, **k):
        # yields each awaitable exactly once, in an unspecified order: contracts may not
        # depend on the order; we keep list order.
        if hasattr(aws, "py_for"):
            return aws
        items = list(it.iterate(aws))
        if 2 <= len(items) <= 3:
            # completion order is the scheduler's choice: every permutation is explored
            import itertools
            perms = list(itertools.permutations(items))
            return list(perms[it.path.choose(len(perms), "as_completed order")])
        return items

    m.ns["as_completed"] = Builtin("asyncio.as_completed", as_completed, True)

    def gather(it, *aws, **k):
        def run(it2):
            h = getattr(it2, "gather_hook", None)
            if h is not None:
                return h(it2, aws)
            return [it2.await_value(a) for a in aws]
        return Awaitable("gather", run)

    m.ns["gather"] = Builtin("asyncio.gather", gather, True)

    def wait_for(it, aw, timeout=None):
        def run(it2):
            h = getattr(it2, "wait_for_hook", None)
            if h is None:
                raise Unsupported("asyncio.wait_for without a harness model")
            return h(it2, aw, timeout)
        return Awaitable("wait_for", run)

    m.ns["wait_for"] = Builtin("asyncio.wait_for", wait_for, True)
    return m


def make_socket_module():
    m = Module("socket")
    for n in ("AF_INET", "SOCK_DGRAM", "IPPROTO_UDP", "SOL_SOCKET", "SO_BROADCAST", "SO_REUSEADDR"):
        m.ns[n] = Opaque("socket." + n)
    m.ns["socket"] = Builtin("socket.socket", lambda it, *a, **k: SocketModel(it, a, k), True)
    return m
