"""Guarded sets: a set over a *concrete* universe whose membership is symbolic.

`GuardedSet([(g_0, e_0), ...])` denotes { e_i | g_i }.  It models

  * a symbolic `set[int]` input of a proof script (`h.subset(name, universe)`), and
  * the value of a set comprehension `{elt for x in <concrete iterable> if <symbolic test>}`
    (interp.e_SetComp), e.g. the group bitmap of the AirTouch 4 AC ability record,

without forking once per element (2^16 paths for a 16-bit bitmap).  Iterating it with a `for`
statement whose body only (aug-)assigns pure scalar expressions to local names is executed by
*state merging*: the body runs once per candidate element and every assigned name becomes
ite(g_i, value-after, value-before).  That is sound because such a body has no effect other than the
assignments that are merged (checked syntactically with pyvc.purity) - anything else falls back to
forking on the guards, exactly like GuardedList.
"""
from __future__ import annotations

import ast

from . import sym
from .sym import And, Or, Not, is_sym
from .values import Unsupported, PyExc, MISSING, SetVal, Opaque


class GuardedSet:
    def __init__(self, pairs):
        self.pairs = list(pairs)  # (guard, concrete value)

    def __repr__(self):
        return f"GuardedSet({self.pairs})"

    # -- what the interpreter asks of a value -------------------------------------------------
    def py_class(self, it):
        return it.builtins["set"]

    def py_truth(self, it):
        return Or(*[g for g, _ in self.pairs])

    def py_len(self, it):
        acc = 0
        for v in self._values():
            acc = acc + sym.ite(self.guard_of(it, v), 1, 0)
        return acc

    def py_contains(self, it, item):
        return Or(*[And(g, it.py_eq(v, item)) for g, v in self.pairs])

    def py_iter(self, it):
        out = []
        for v in self._values():
            if it.path.branch(self.guard_of(it, v)):
                out.append(v)
        return out

    def _values(self):
        out = []
        for _, v in self.pairs:
            if not any(v is w or (type(v) is type(w) and v == w) for w in out):
                out.append(v)
        return out

    def indicator(self, it, g):
        """A 0/1 integer k with k == 1 <=> g (a definitional extension: k is fresh)."""
        if not hasattr(self, "_ind"):
            self._ind = []
        for gg, k in self._ind:
            if gg is g:
                return k
        k, _ = sym.fresh_int("ind")
        it.path.assume(And(k >= 0, k <= 1, Or(And(g, k == 1), And(Not(g), k == 0))))
        self._ind.append((g, k))
        return k

    def guard_of(self, it, e):
        """Membership condition of the concrete value e."""
        return Or(*[g for g, v in self.pairs if (v is e or (type(v) is type(e) and v == e))])

    def py_eq(self, it, o):
        if isinstance(o, SetVal):
            o = GuardedSet([(True, v) for v in o.items])
        if not isinstance(o, GuardedSet):
            return False
        for _, v in self.pairs + o.pairs:
            if is_sym(v):
                raise Unsupported("guarded set with symbolic elements")
        universe = self._values()
        for v in o._values():
            if not any(type(v) is type(w) and v == w for w in universe):
                universe.append(v)
        cs = []
        for e in universe:
            a, b = self.guard_of(it, e), o.guard_of(it, e)
            cs.append(Or(And(a, b), And(Not(a), Not(b))))
        return And(*cs)

    # -- for loops --------------------------------------------------------------------------
    def py_for(self, it, node, env):
        from .interp import _Break, _Continue
        names = _merge_names(it, node)
        if names is None:
            for g, v in self.pairs:
                if it.path.branch(g):
                    it.assign(node.target, v, env)
                    try:
                        it.exec_block(node.body, env)
                    except _Break:
                        return None
                    except _Continue:
                        continue
            it.exec_block(node.orelse, env)
            return None
        bitsum = {}  # name -> (value we produced, base int, {bit position: guard})
        for g, v in self.pairs:
            if g is False:
                continue
            before = {n: env.lookup(n) for n in names}
            ok = all(b is not MISSING for b in before.values())
            merged = {}
            if ok:
                it.assign(node.target, v, env)
                try:
                    it.exec_block(node.body, env)
                    for n in names:
                        after = env.lookup(n)
                        if after is before[n] or g is True:
                            merged[n] = after
                            continue
                        step = _const_step(before[n], after)
                        bs = _bitsum_step(bitsum.get(n), before[n], step, g)
                        if bs is not None:
                            # a sum of distinct powers of two, one per guard, *is* the bit-vector whose
                            # bit p is the guard of 2^p: same value, but bit tests on it need no arithmetic
                            merged[n] = bs[0]
                            bitsum[n] = bs
                        elif step is not None:
                            # the body adds a constant: before + step * [g], with [g] a 0/1 integer
                            # (linear arithmetic instead of a tower of if-then-else terms)
                            merged[n] = before[n] + step * self.indicator(it, g)
                        else:
                            merged[n] = sym.ite(g, after, before[n])
                except (PyExc, TypeError):
                    ok = False
            if ok:
                for n, val in merged.items():
                    env.vars[n] = val
                continue
            # not mergeable for this element: restore and fork on the guard
            for n, b in before.items():
                if b is MISSING:
                    env.vars.pop(n, None)
                else:
                    env.vars[n] = b
            if it.path.branch(g):
                it.assign(node.target, v, env)
                it.exec_block(node.body, env)
        if isinstance(node.target, ast.Name):
            env.vars[node.target.id] = Opaque("target of a merged loop over a guarded set")
        return None


def _bitsum_step(state, before, step, g):
    """before + step * [g] as a bit-vector, when before is a non-negative constant plus distinct powers
    of two each guarded by a condition (state, produced by the previous steps) and step is a further
    power of two whose bit is still clear.  Returns (SBV value, base, bits) or None."""
    import z3
    from .sym import SBV
    if step is None or step <= 0 or step & (step - 1):
        return None
    pos = step.bit_length() - 1
    if state is not None and state[0] is before:
        base, bits = state[1], dict(state[2])
    elif isinstance(before, int) and not isinstance(before, bool) and before >= 0:
        base, bits = before, {}
    else:
        return None
    if pos in bits or (base >> pos) & 1:
        return None
    bits[pos] = g
    width = max(max(bits) + 1, base.bit_length(), 1)
    parts = []
    for q in range(width - 1, -1, -1):
        if q in bits:
            parts.append(z3.If(sym.tobool_t(bits[q]), z3.BitVecVal(1, 1), z3.BitVecVal(0, 1)))
        else:
            parts.append(z3.BitVecVal((base >> q) & 1, 1))
    t = parts[0] if len(parts) == 1 else z3.Concat(*parts)
    return SBV(z3.simplify(t)), base, bits


def _const_step(before, after):
    """after - before when both are integers and the difference is a concrete constant, else None."""
    import z3
    from .sym import SInt, SBV
    if isinstance(before, bool) or isinstance(after, bool):
        return None
    if isinstance(before, SBV):
        before = before.to_int()
    if isinstance(after, SBV):
        after = after.to_int()
    if not isinstance(before, (int, SInt)) or not isinstance(after, (int, SInt)):
        return None
    d = z3.simplify(sym.int_t(after) - sym.int_t(before))
    if z3.is_int_value(d):
        return d.as_long()
    return None


def _merge_names(it, node):
    """Names assigned by a loop body that qualifies for state merging, or None."""
    from . import purity
    if node.orelse or not isinstance(node.target, ast.Name) or not it.frames:
        return None
    fn = it.frames[-1].func
    if fn is None:
        return None
    names = []
    for s in node.body:
        if isinstance(s, ast.AugAssign) and isinstance(s.target, ast.Name):
            tgt = s.target.id
        elif isinstance(s, ast.Assign) and len(s.targets) == 1 and isinstance(s.targets[0], ast.Name):
            tgt = s.targets[0].id
        else:
            return None
        try:
            if not purity._expr(it, fn, s.value):
                return None
        except Exception:  # noqa: BLE001
            return None
        if tgt == node.target.id:
            return None
        if tgt not in names:
            names.append(tgt)
    return names


def guarded_setcomp(it, node, env):
    """{elt for x in <concrete iterable> if <tests>} with symbolic tests -> GuardedSet (no forking).
    Returns NotImplemented when the comprehension does not have that shape."""
    from .interp import Env
    g = node.generators[0]
    src = it.eval(g.iter, env)
    if not isinstance(src, (list, tuple, range)):
        return NotImplemented
    pairs = []
    cenv = Env(env)
    symbolic = False
    for v in list(src):
        it.assign(g.target, v, cenv)
        cond = True
        for c in g.ifs:
            cond = And(cond, it.truth(it.eval(c, cenv)))
            if cond is False:
                break
        if cond is False:
            continue
        elt = it.eval(node.elt, cenv)
        if is_sym(elt):
            raise Unsupported("set comprehension with symbolic elements")
        if cond is not True:
            symbolic = True
        pairs.append((cond, elt))
    if symbolic:
        return GuardedSet(pairs)
    return SetVal([v for _, v in pairs])
