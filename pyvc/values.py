"""Object model of the pyvc interpreter: classes, instances, functions, bytes, strings."""
from __future__ import annotations

import z3

from . import sym
from .sym import SBool, SInt, SBV, SReal, And, Or, Not, eq, mkbool


class Unsupported(Exception):
    """Construct outside the verified subset: the obligation is undecided, never skipped."""


class PyExc(Exception):
    """An interpreted Python exception in flight."""

    def __init__(self, value):
        super().__init__(repr(value))
        self.value = value


MISSING = object()


def unmodelled(model, name):
    """An attribute a *model* object (asyncio stream, loop, stub, abstract container ...) does not provide: the real object
    most likely has it, so this is outside the modelled subset (undecided) - never an AttributeError of the code under test."""
    return Unsupported(f"{type(model).__name__}.{name} is not modelled")


class Class:
    def __init__(self, name, bases, ns, module="builtins", qualname=None):
        self.name = name
        self.qualname = qualname or name
        self.module = module
        self.bases = [b for b in bases if isinstance(b, Class)]
        self.ns = ns
        self.mro = self._linearize()
        self.is_dataclass = False
        self.dc_fields = []  # list of (name, default, default_factory)
        self.dc_frozen = False
        self.dc_eq = True
        self.is_enum = any(b.is_enum for b in self.bases) if self.bases else False
        self.members = {}  # enum name -> EnumMember

    def _linearize(self):
        # C3 is overkill here: depth-first, left-to-right, duplicates removed keeping the last
        out = [self]
        for b in self.bases:
            for c in b.mro:
                if c in out:
                    out.remove(c)
                out.append(c)
        return out

    def lookup(self, name):
        for c in self.mro:
            if name in c.ns:
                return c.ns[name]
        return MISSING

    def is_subclass(self, other) -> bool:
        return other in self.mro

    def __repr__(self):
        return f"<class {self.module}.{self.qualname}>"

    # type expressions at module level:  A | B | None, Generic[T]
    def __or__(self, o):
        return UnionT.of(self, o)

    def __ror__(self, o):
        return UnionT.of(o, self)

    def __getitem__(self, item):
        return self


class TypeDummy:
    """Stand-in for typing constructs; never inspected."""

    def __or__(self, o):
        return self

    def __ror__(self, o):
        return self

    def __getitem__(self, item):
        return self

    def __call__(self, *a, **k):
        return self

    def __repr__(self):
        return "<typing>"


class UnionT(TypeDummy):
    """`A | B` of classes (PEP 604): as an annotation it is never inspected, but isinstance(x, A | B) is the
    disjunction over the members, so they are kept.  members is None when a member is not a class (then
    isinstance against it is outside the modelled subset)."""

    def __init__(self, members):
        self.members = members

    @staticmethod
    def of(a, b):
        ms = []
        for x in (a, b):
            if isinstance(x, UnionT):
                if x.members is None:
                    return UnionT(None)
                ms.extend(x.members)
            elif isinstance(x, Class) or x is None:
                ms.append(x)
            else:
                return UnionT(None)
        return UnionT(tuple(ms))

    def __or__(self, o):
        return UnionT.of(self, o)

    def __ror__(self, o):
        return UnionT.of(o, self)

    def __repr__(self):
        return f"<union {self.members}>"


class Instance:
    def __init__(self, cls, attrs=None):
        self.cls = cls
        self.attrs = attrs if attrs is not None else {}

    def __repr__(self):
        if self.cls.is_dataclass:
            return f"{self.cls.name}({', '.join(f'{k}={self.attrs.get(k)!r}' for k, _, _ in all_dc_fields(self.cls))})"
        return f"<{self.cls.name} instance>"


class EnumMember(Instance):
    def __init__(self, cls, name, value):
        super().__init__(cls, {"name": name, "value": value, "_name_": name, "_value_": value})
        self.name = name
        self.value = value

    def __repr__(self):
        return f"{self.cls.name}.{self.name}"


class SEnum:
    """A symbolic member of a concrete enum class: value term ranges over member values."""

    def __init__(self, cls, value):
        self.cls = cls
        self.value = value  # SInt

    def __repr__(self):
        return f"SEnum({self.cls.name}, {self.value})"

    def domain(self):
        return Or(*[self.value == m.value for m in self.cls.members.values()])


def all_dc_fields(cls):
    out = []
    seen = set()
    for c in reversed(cls.mro):
        for f in c.dc_fields:
            if f[0] in seen:
                out = [g for g in out if g[0] != f[0]]
            seen.add(f[0])
            out.append(f)
    return out


class Function:
    def __init__(self, node, env, module, qualname, defaults, kwdefaults, is_async, owner=None):
        self.node = node
        self.env = env
        self.module = module  # Module
        self.qualname = qualname
        self.name = node.name if hasattr(node, "name") else "<lambda>"
        self.defaults = defaults
        self.kwdefaults = kwdefaults
        self.is_async = is_async
        self.owner = owner  # Class for methods

    @property
    def fullname(self):
        return f"{self.module.name}:{self.qualname}"

    def __repr__(self):
        return f"<function {self.fullname}>"


class Builtin:
    def __init__(self, name, fn, needs_interp=False):
        self.name = name
        self.fn = fn
        self.needs_interp = needs_interp

    def __repr__(self):
        return f"<builtin {self.name}>"


class BoundMethod:
    def __init__(self, func, self_obj):
        self.func = func
        self.self_obj = self_obj

    def __repr__(self):
        return f"<bound {self.func!r} of {self.self_obj!r}>"

    def __eq__(self, o):
        return isinstance(o, BoundMethod) and o.func is self.func and o.self_obj is self.self_obj

    def __hash__(self):
        return hash((id(self.func), id(self.self_obj)))


class Property:
    def __init__(self, fget):
        self.fget = fget


class StaticMethod:
    def __init__(self, f):
        self.f = f


class ClassMethod:
    def __init__(self, f):
        self.f = f


class Module:
    def __init__(self, name, ns=None, path=None):
        self.name = name
        self.ns = ns if ns is not None else {}
        self.path = path

    def __repr__(self):
        return f"<module {self.name}>"


class UnmodelledName:
    """A name imported from a library module the interpreter has no model for.  Importing it is harmless; *using* it is
    outside the modelled subset (Unsupported = undecided), so that only the code that uses it is affected."""

    def __init__(self, what):
        self.what = what

    def __repr__(self):
        return f"<unmodelled {self.what}>"

    def py_getattr(self, it, name):
        raise Unsupported(f"{self.what}.{name} is not modelled by the interpreter")

    def py_call(self, it, args, kwargs):
        raise Unsupported(f"{self.what} is not modelled by the interpreter")

    def py_truth(self, it):
        return True


class Coroutine:
    """An un-started call of an interpreted async function."""

    def __init__(self, func, env_builder, label=None):
        self.func = func
        self.run = env_builder  # callable executing the body
        self.label = label or (func.fullname if func else "?")
        self.started = False

    def __repr__(self):
        return f"<coroutine {self.label}>"


# ---------------------------------------------------------------------------------
# bytes


def byte_range(b):
    """Range constraint of one byte item."""
    if isinstance(b, int):
        return True
    if isinstance(b, SBV):
        return True
    return And(b >= 0, b <= 255)


class BytesVal:
    """bytes / bytearray of concrete length with (possibly symbolic) items."""

    def __init__(self, items, mutable=False):
        self.items = list(items)
        self.mutable = mutable

    @staticmethod
    def of(b, mutable=False):
        return BytesVal(list(b), mutable)

    def __len__(self):
        return len(self.items)

    def is_concrete(self):
        return all(isinstance(i, int) for i in self.items)

    def to_bytes(self):
        return bytes(self.items)

    def __repr__(self):
        if self.is_concrete():
            return ("bytearray(%r)" if self.mutable else "%r") % self.to_bytes()
        return f"BytesVal({self.items})"

    def eq(self, other):
        if isinstance(other, (bytes, bytearray)):
            other = BytesVal.of(other)
        if isinstance(other, ABytes):
            return other.eq(self)
        if not isinstance(other, BytesVal):
            return False
        if len(self.items) != len(other.items):
            return False
        return And(*[eq(a, b) for a, b in zip(self.items, other.items)])


class ABytes:
    """Immutable view [off, off+ln) of an SMT array of bytes; ln may be symbolic.

    Element range 0..255 is assumed lazily at every read (ctx.assume in the interpreter).
    """

    def __init__(self, arr, off, ln, name=None):
        self.arr = arr
        self.off = off
        self.ln = ln
        self.name = name or str(arr)

    def __repr__(self):
        return f"ABytes({self.name}[{self.off}:+{self.ln}])"

    def at(self, i):
        return SInt(z3.Select(self.arr, sym.int_t(self.off + i)))

    def same_base(self, o):
        return isinstance(o, ABytes) and o.arr.eq(self.arr)

    def eq(self, other):
        if isinstance(other, ABytes) and self.same_base(other):
            same_off = eq(self.off, other.off)
            same_len = eq(self.ln, other.ln)
            if same_off is True:
                return same_len
            # different views of one buffer: identical iff same offset and length, or both empty; other
            # coincidences of content are possible but unknown -> uninterpreted predicate
            f = z3.Function("same_bytes", z3.ArraySort(z3.IntSort(), z3.IntSort()), z3.IntSort(),
                            z3.ArraySort(z3.IntSort(), z3.IntSort()), z3.IntSort(), z3.IntSort(), z3.BoolSort())
            return And(same_len, Or(same_off, eq(self.ln, 0),
                                    mkbool(f(self.arr, sym.int_t(self.off), other.arr, sym.int_t(other.off), sym.int_t(self.ln)))))
        if isinstance(other, (BytesVal, bytes, bytearray)):
            o = other if isinstance(other, BytesVal) else BytesVal.of(other)
            n = len(o.items)
            return And(eq(self.ln, n), *[eq(self.at(i), o.items[i]) for i in range(n)])
        if isinstance(other, ABytes):
            # different buffers: equal lengths and equal contents; content equality of two unrelated symbolic
            # buffers is an uninterpreted predicate (nothing is known about it: either value is possible)
            f = z3.Function("same_bytes", z3.ArraySort(z3.IntSort(), z3.IntSort()), z3.IntSort(),
                            z3.ArraySort(z3.IntSort(), z3.IntSort()), z3.IntSort(), z3.IntSort(), z3.BoolSort())
            return And(eq(self.ln, other.ln),
                       mkbool(f(self.arr, sym.int_t(self.off), other.arr, sym.int_t(other.off), sym.int_t(self.ln))))
        return False


class SStr:
    """A symbolic str, represented by its UTF-8 encoding (a bijection str <-> valid UTF-8).

    `data` is a BytesVal.  Validity of the encoding is part of the representation
    invariant: an SStr is only ever created from (a) a precondition that says the bytes
    are valid UTF-8, or (b) `bytes.decode`, which raises UnicodeDecodeError on the
    path where the uninterpreted predicate valid_utf8 is false.
    """

    def __init__(self, data: BytesVal):
        self.data = data

    def __repr__(self):
        return f"SStr({self.data})"

    def eq(self, other):
        if isinstance(other, str):
            other = SStr(BytesVal.of(other.encode("utf-8")))
        if not isinstance(other, SStr):
            return False
        return self.data.eq(other.data)


class DequeVal:
    def __init__(self, items=()):
        self.items = list(items)

    def __repr__(self):
        return f"deque({self.items})"


class SetVal:
    """A set of hashable concrete-identity things (subscribers, ints, frozen instances)."""

    def __init__(self, items=()):
        self.items = []
        for i in items:
            self.add(i)

    def _idx(self, x):
        for k, y in enumerate(self.items):
            if y is x:
                return k
            if (type(x) is Instance and type(y) is Instance and x.cls is y.cls and x.cls.is_dataclass and x.cls.dc_eq
                    and x.cls.dc_frozen and x.cls.lookup("__eq__") is MISSING and x.cls.lookup("__hash__") is MISSING):
                # frozen dataclass with eq: hashed and compared by field values
                same = _dc_same(x, y)
                if same is None:
                    raise Unsupported("set membership of dataclass instances whose fields are not concretely comparable")
                if same:
                    return k
                continue
            try:
                if not sym.is_sym(x) and not sym.is_sym(y) and type(x) is type(y) and x == y:
                    return k
            except Exception:
                pass
        return -1

    def add(self, x):
        if self._idx(x) < 0:
            self.items.append(x)

    def discard(self, x):
        k = self._idx(x)
        if k >= 0:
            del self.items[k]

    def __contains__(self, x):
        return self._idx(x) >= 0

    def __len__(self):
        return len(self.items)

    def __repr__(self):
        return "{" + ", ".join(map(repr, self.items)) + "}"


_PLAIN = (str, int, float, bool, bytes, type(None))


def _dc_same(x, y):
    """Field-wise equality of two instances of one dataclass: True / False / None (not decidable here)."""
    unknown = False
    for name, _, _ in all_dc_fields(x.cls):
        a, b = x.attrs.get(name, MISSING), y.attrs.get(name, MISSING)
        if a is b:
            continue
        if isinstance(a, _PLAIN) and isinstance(b, _PLAIN):
            if a != b:
                return False
            continue
        if isinstance(a, EnumMember) and isinstance(b, EnumMember):
            return False  # distinct members (identity differs)
        unknown = True
    return None if unknown else True


def unhashable_dataclass(x):
    """A dataclass with eq=True that is not frozen sets __hash__ to None: instances cannot enter a set."""
    return (type(x) is Instance and x.cls.is_dataclass and x.cls.dc_eq and not x.cls.dc_frozen
            and x.cls.lookup("__hash__") is MISSING and not getattr(x.cls, "dc_unsafe_hash", False))


class Opaque:
    """An opaque value (formatted string, library object...) that must not influence control flow."""

    def __init__(self, what="opaque"):
        self.what = what

    def __repr__(self):
        return f"<{self.what}>"


class GuardedList:
    """A list whose i-th candidate element is present iff guard_i holds (order preserved).

    Produced by list comprehensions with a symbolic filter; supports `in`, `len`,
    iteration with forking.  Avoids 2^n path explosion for ability bitmaps.
    """

    def __init__(self, pairs):
        self.pairs = list(pairs)  # (guard, value)

    def __repr__(self):
        return f"GuardedList({self.pairs})"
