"""Loop contracts: the unbounded route.

A `ForInvariant` replaces the symbolic execution of one `for` loop of /repo by the Hoare rule

    init:      Inv(0, state_0)                                   (obligation)
    preserve:  forall k. 0 <= k < n and Inv(k, s) => Inv(k+1, body(s, item_k))   (obligation, arbitrary k)
    use:       after the loop the state is any s with Inv(n, s)   (assumption for the continuation)

The loop body that is executed for the preservation obligation is the real AST of the loop.
`break`/`continue`/`return` inside such a loop are not supported (undecided, never skipped).
"""
from __future__ import annotations

import z3

from . import sym
from .sym import And, Or, Not, SInt, is_sym
from .values import Unsupported, ABytes, BytesVal, byte_range
from .interp import PathEnd, _Break, _Continue, _Return


class ForInvariant:
    """Loop contract for `for <target> in <iterable>` keyed by (function fullname, loop ordinal).

    length(it, iterable)           -> number of iterations n (symbolic)
    item(it, iterable, k)          -> element bound to the loop target at iteration k
    state: list of local variable names carried around the loop
    fresh(it, name, k_label)       -> fresh symbolic value for a carried variable
    inv(it, k, state_dict, iterable) -> SBool
    """

    def __init__(self, name, state, fresh, inv, length=None, item=None, define=None):
        self.name = name
        self.state = state
        self.fresh = fresh
        self.inv = inv
        self.length = length or _default_length
        self.item = item or _default_item
        self.define = define  # optional: definitional instances to assume (it, k, iterable)

    def __call__(self, it, node, env):
        P = it.path
        iterable = it.eval(node.iter, env)
        n = self.length(it, iterable)
        cur = {v: env.lookup(v) for v in self.state}
        if self.define:
            self.define(it, "init", iterable)
        P.oblige(f"{self.name}/init", self.inv(it, 0, cur, iterable), kind="loop-init")
        which = P.choose(2, f"loop {self.name}")
        if which == 0:
            # arbitrary iteration
            k = SInt(z3.Int(sym.fresh_name("k")))
            P.assume(And(k >= 0, k < n))
            st = {v: self.fresh(it, v, "k") for v in self.state}
            for v, val in st.items():
                env.vars[v] = val
            if self.define:
                self.define(it, k, iterable)
            P.assume(self.inv(it, k, st, iterable))
            P.inputs[f"{self.name}:k"] = k
            for v, val in st.items():
                P.inputs[f"{self.name}:{v}@k"] = val
            it.assign(node.target, self.item(it, iterable, k), env)
            try:
                it.exec_block(node.body, env)
            except (_Break, _Continue, _Return):
                raise Unsupported(f"break/continue/return inside contracted loop {self.name}")
            new = {v: env.lookup(v) for v in self.state}
            P.oblige(f"{self.name}/preserve", self.inv(it, k + 1, new, iterable), kind="loop-preserve")
            raise PathEnd()
        # exit: any state satisfying Inv(n)
        P.assume(n >= 0)
        st = {v: self.fresh(it, v, "n") for v in self.state}
        if self.define:
            self.define(it, None, iterable)
        P.assume(self.inv(it, n, st, iterable))
        for v, val in st.items():
            env.vars[v] = val
        if node.orelse:
            it.exec_block(node.orelse, env)
        return None


def _default_length(it, iterable):
    from .pybuiltins import py_len, SymRange
    if isinstance(iterable, SymRange):
        if iterable.start != 0 or iterable.step != 1:
            raise Unsupported("loop contract over range with start/step")
        return sym.ite(iterable.stop >= 0, iterable.stop, 0) if is_sym(iterable.stop) else max(iterable.stop, 0)
    return py_len(it, iterable)


def _default_item(it, iterable, k):
    from .pybuiltins import SymRange
    if isinstance(iterable, ABytes):
        b = iterable.at(k)
        it.path.assume(byte_range(b))
        return b
    if isinstance(iterable, SymRange):
        return k
    raise Unsupported(f"loop contract item of {type(iterable).__name__}")
