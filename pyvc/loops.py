"""Loop contracts: the unbounded route.

A `ForInvariant` replaces the symbolic execution of one `for` loop of /repo by the Hoare rule

    init:      Inv(0, state_0)                                   (obligation)
    preserve:  forall k. 0 <= k < n and Inv(k, s) => Inv(k+1, body(s, item_k))   (obligation, arbitrary k)
    use:       after the loop the state is any s with Inv(n, s)   (assumption for the continuation)

The loop body that is executed for the preservation obligation is the real AST of the loop.
`break`/`continue`/`return` inside such a loop are not supported (undecided, never skipped).
"""
from __future__ import annotations

from pyvc.values import unmodelled as _unmodelled  # noqa: E402
import z3

from . import sym
from .sym import And, Or, Not, SInt, is_sym
from .values import Unsupported, ABytes, BytesVal, byte_range
from .interp import PathEnd, _Break, _Continue, _Return


class HavocValue:
    """Value of a local variable that the loop body assigns but the loop contract does not describe:
    after the loop it is arbitrary.  Any use that needs its content is undecided, never assumed."""

    def __init__(self, name):
        self.name = name

    def __repr__(self):
        return f"<arbitrary value of {self.name!r} after a contracted loop>"


def havoc_assigned(it, node, env, keep=()):
    """Frame rule of the loop contracts: every local name the loop (header or body) can assign and the contract
    does not carry is arbitrary after the loop."""
    import ast
    names = set()
    for n in ast.walk(node):
        if isinstance(n, ast.Name) and isinstance(n.ctx, (ast.Store, ast.Del)):
            names.add(n.id)
        elif isinstance(n, (ast.FunctionDef, ast.AsyncFunctionDef, ast.ClassDef)):
            names.add(n.name)
    for name in sorted(names):
        if name not in keep:
            env.vars[name] = HavocValue(name)


class ForInvariant:
    """Loop contract for `for <target> in <iterable>` keyed by (function fullname, loop ordinal).

    length(it, iterable)           -> number of iterations n (symbolic)
    item(it, iterable, k)          -> element bound to the loop target at iteration k
    state: list of local variable names carried around the loop
    fresh(it, name, k_label)       -> fresh symbolic value for a carried variable
    inv(it, k, state_dict, iterable) -> SBool
    """

    def __init__(self, name, state, fresh, inv, length=None, item=None, define=None):
        self.name = name
        self.state = state
        self.fresh = fresh
        self.inv = inv
        self.length = length or _default_length
        self.item = item or _default_item
        self.define = define  # optional: definitional instances to assume (it, k, iterable)

    def __call__(self, it, node, env):
        P = it.path
        iterable = it.eval(node.iter, env)
        n = self.length(it, iterable)
        cur = {v: env.lookup(v) for v in self.state}
        if self.define:
            self.define(it, "init", iterable)
        P.oblige(f"{self.name}/init", self.inv(it, 0, cur, iterable), kind="loop-init")
        which = P.choose(2, f"loop {self.name}")
        if which == 0:
            # arbitrary iteration
            k = SInt(z3.Int(sym.fresh_name("k")))
            P.assume(And(k >= 0, k < n))
            st = {v: self.fresh(it, v, "k") for v in self.state}
            for v, val in st.items():
                env.vars[v] = val
            if self.define:
                self.define(it, k, iterable)
            P.assume(self.inv(it, k, st, iterable))
            P.inputs[f"{self.name}:k"] = k
            for v, val in st.items():
                P.inputs[f"{self.name}:{v}@k"] = val
            it.assign(node.target, self.item(it, iterable, k), env)
            try:
                it.exec_block(node.body, env)
            except (_Break, _Continue, _Return):
                raise Unsupported(f"break/continue/return inside contracted loop {self.name}")
            new = {v: env.lookup(v) for v in self.state}
            P.oblige(f"{self.name}/preserve", self.inv(it, k + 1, new, iterable), kind="loop-preserve")
            raise PathEnd()
        # exit: any state satisfying Inv(n)
        P.assume(n >= 0)
        st = {v: self.fresh(it, v, "n") for v in self.state}
        if self.define:
            self.define(it, None, iterable)
        P.assume(self.inv(it, n, st, iterable))
        havoc_assigned(it, node, env, keep=self.state)
        for v, val in st.items():
            env.vars[v] = val
        if node.orelse:
            it.exec_block(node.orelse, env)
        return None


def _default_length(it, iterable):
    from .pybuiltins import py_len, SymRange
    if isinstance(iterable, SymRange):
        if iterable.start != 0 or iterable.step != 1:
            raise Unsupported("loop contract over range with start/step")
        return sym.ite(iterable.stop >= 0, iterable.stop, 0) if is_sym(iterable.stop) else max(iterable.stop, 0)
    return py_len(it, iterable)


def _default_item(it, iterable, k):
    from .pybuiltins import SymRange
    if isinstance(iterable, ABytes):
        b = iterable.at(k)
        it.path.assume(byte_range(b))
        return b
    if isinstance(iterable, SymRange):
        return k
    raise Unsupported(f"loop contract item of {type(iterable).__name__}")


class SpecList:
    """An abstract list: `n` leading elements that are, by the loop invariant, exactly the elements
    the contract's spec function assigns to indices 0..n-1 (tag names that spec), followed by the
    concretely known elements appended since.

    Two SpecLists with the same tag and the same n have the same leading elements *by definition*
    (both denote MAP(spec, range(n))), which is the induction hypothesis of the loop rule.
    """

    def __init__(self, tag, n, appended=()):
        self.tag = tag
        self.n = n
        self.appended = list(appended)

    def __repr__(self):
        return f"SpecList({self.tag}, n={self.n}, +{self.appended})"

    def py_getattr(self, it, name):
        from .values import Builtin
        if name == "append":
            return Builtin("SpecList.append", lambda x: self.appended.append(x))
        raise _unmodelled(self, name)

    def py_len(self, it):
        return self.n + len(self.appended)

    def py_truth(self, it):
        return (self.n + len(self.appended)) > 0

    def py_class(self, it):
        return it.builtins["list"]

    def py_eq(self, it, o):
        if isinstance(o, SpecList) and o.tag == self.tag and len(o.appended) == len(self.appended):
            return And(sym.eq(self.n, o.n), *[it.py_eq(a, b) for a, b in zip(self.appended, o.appended)])
        if isinstance(o, list) and not self.appended and not o:
            return sym.eq(self.n, 0)
        raise Unsupported("comparison of an abstract list with a different list")


class StateLoop:
    """Loop contract where the state at iteration k is *constructed* (not havocked-and-assumed):

    at(it, k, entry)            -> {var: value at the head of iteration k}; entry = values at loop entry
    check(it, k, entry, after)  -> obligations relating the state after the body to at(k+1)
    n(it, iterable, entry)      -> iteration count
    Works for `for` (item = k for range loops) and `while` loops (test is re-evaluated symbolically
    and must agree with k < n, which is an obligation).
    """

    def __init__(self, name, vars, n, at, check, item=None, define=None):
        self.name = name
        self.vars = vars
        self.n = n
        self.at = at
        self.check = check
        self.item = item
        self.define = define

    def __call__(self, it, node, env):
        import ast
        P = it.path
        is_for = isinstance(node, ast.For)
        iterable = it.eval(node.iter, env) if is_for else None
        entry = {v: env.lookup(v) for v in self.vars}
        n = self.n(it, iterable, entry, env)
        if self.define:
            self.define(it, "init", entry)
        which = P.choose(2, f"loop {self.name}")
        if which == 0:
            k = SInt(z3.Int(sym.fresh_name("k")))
            P.assume(And(k >= 0, k < n))
            P.inputs[f"{self.name}:k"] = k
            if self.define:
                self.define(it, k, entry)
            st = self.at(it, k, entry)
            for v, val in st.items():
                env.vars[v] = val
            if is_for:
                it.assign(node.target, self.item(it, iterable, k) if self.item else k, env)
            else:
                t = it.truth(it.eval(node.test, env))
                P.oblige(f"{self.name}/loop test holds while k < n", t, kind="loop-test")
            try:
                it.exec_block(node.body, env)
            except (_Break, _Continue, _Return):
                raise Unsupported(f"break/continue/return inside contracted loop {self.name}")
            after = {v: env.lookup(v) for v in self.vars}
            self.check(it, k, entry, after)
            raise PathEnd()
        P.assume(n >= 0)
        if self.define:
            self.define(it, None, entry)
        st = self.at(it, n, entry)
        havoc_assigned(it, node, env, keep=self.vars)
        for v, val in st.items():
            env.vars[v] = val
        if not is_for:
            t = it.truth(it.eval(node.test, env))
            P.oblige(f"{self.name}/loop test fails at k = n", Not(t), kind="loop-test")
        if node.orelse:
            it.exec_block(node.orelse, env)
        return None


class SpecDict:
    """An abstract dict, the mapping analogue of SpecList: the result of performing, in order, the
    stores  d[key_i] = value_i  for i = 0..n-1 that the loop contract's spec assigns to the first n
    iterations (tag names that spec), followed by the concretely known stores recorded since.
    Only `d[k] = v` is supported; reading it back is not (the contract states what the stores are).
    """

    def __init__(self, tag, n, stores=()):
        self.tag = tag
        self.n = n
        self.stores = list(stores)

    def __repr__(self):
        return f"SpecDict({self.tag}, n={self.n}, +{self.stores})"

    def py_setitem(self, it, idx, v):
        self.stores.append((idx, v))

    def py_class(self, it):
        return it.builtins["dict"]

    def py_eq(self, it, o):
        if isinstance(o, SpecDict) and o.tag == self.tag and len(o.stores) == len(self.stores):
            return And(sym.eq(self.n, o.n), *[And(it.py_eq(a[0], b[0]), it.py_eq(a[1], b[1]))
                                             for a, b in zip(self.stores, o.stores)])
        raise Unsupported("comparison of an abstract dict with a different dict")
