"""Syntactic purity analysis: which /repo functions can be summarised by merging their paths.

A function is *pure* here when its body consists only of docstrings, assignments to local names,
`if`, `return`, and expressions built from names, constants, attribute loads, arithmetic,
comparisons, boolean operators, conditional expressions, subscripts and calls to (a) a small set
of side-effect-free builtins, (b) other pure functions (module-level or methods of the same
class).  No attribute/subscript stores, no loops, no raise/try, no await.
"""
from __future__ import annotations

import ast

from .values import Function, Module, Class, MISSING, BoundMethod, Builtin, StaticMethod

PURE_BUILTINS = {"int", "len", "bool", "float", "abs", "min", "max", "round", "isinstance", "divmod"}
_cache = {}


def func_pure(it, fn) -> bool:
    key = id(fn.node)
    if key in _cache:
        return _cache[key]
    _cache[key] = False  # recursion guard
    ok = False
    try:
        if isinstance(fn.node, ast.Lambda):
            ok = _expr(it, fn, fn.node.body)
        elif not fn.is_async:
            ok = all(_stmt(it, fn, s) for s in fn.node.body)
    except Exception:  # noqa: BLE001
        ok = False
    _cache[key] = ok
    return ok


def _stmt(it, fn, s):
    if isinstance(s, ast.Expr):
        return isinstance(s.value, ast.Constant)
    if isinstance(s, ast.Return):
        return s.value is None or _expr(it, fn, s.value)
    if isinstance(s, ast.Assign):
        return all(isinstance(t, ast.Name) for t in s.targets) and _expr(it, fn, s.value)
    if isinstance(s, ast.AnnAssign):
        return isinstance(s.target, ast.Name) and (s.value is None or _expr(it, fn, s.value))
    if isinstance(s, ast.If):
        return _expr(it, fn, s.test) and all(_stmt(it, fn, x) for x in s.body) and all(_stmt(it, fn, x) for x in s.orelse)
    if isinstance(s, ast.Pass):
        return True
    return False


def _resolve(it, fn, node):
    """Statically resolve the callee of a call expression, or None."""
    if isinstance(node, ast.Name):
        if node.id in PURE_BUILTINS:
            return "builtin"
        v = fn.env.lookup(node.id) if fn.env is not None else MISSING
        if v is MISSING:
            v = fn.module.ns.get(node.id, MISSING) if isinstance(fn.module, Module) else MISSING
        return v if isinstance(v, Function) else None
    if isinstance(node, ast.Attribute) and isinstance(node.value, ast.Name):
        base = node.value.id
        if base == "self" and fn.owner is not None:
            v = fn.owner.lookup(node.attr)
            return v if isinstance(v, Function) else None
        m = fn.env.lookup(base) if fn.env is not None else MISSING
        if m is MISSING and isinstance(fn.module, Module):
            m = fn.module.ns.get(base, MISSING)
        if isinstance(m, Module):
            v = m.ns.get(node.attr)
            return v if isinstance(v, Function) else None
    return None


def _expr(it, fn, e):
    if isinstance(e, (ast.Constant, ast.Name)):
        return True
    if isinstance(e, ast.Attribute):
        return _expr(it, fn, e.value)
    if isinstance(e, ast.BinOp):
        return _expr(it, fn, e.left) and _expr(it, fn, e.right)
    if isinstance(e, ast.UnaryOp):
        return _expr(it, fn, e.operand)
    if isinstance(e, ast.BoolOp):
        return all(_expr(it, fn, v) for v in e.values)
    if isinstance(e, ast.Compare):
        return _expr(it, fn, e.left) and all(_expr(it, fn, c) for c in e.comparators)
    if isinstance(e, ast.IfExp):
        return _expr(it, fn, e.test) and _expr(it, fn, e.body) and _expr(it, fn, e.orelse)
    if isinstance(e, ast.Tuple):
        return all(_expr(it, fn, x) for x in e.elts)
    if isinstance(e, ast.Subscript):
        return _expr(it, fn, e.value) and _expr(it, fn, e.slice)
    if isinstance(e, ast.Slice):
        return all(x is None or _expr(it, fn, x) for x in (e.lower, e.upper, e.step))
    if isinstance(e, ast.Call):
        if any(isinstance(a, ast.Starred) for a in e.args) or any(k.arg is None for k in e.keywords):
            return False
        callee = _resolve(it, fn, e.func)
        if callee is None:
            return False
        if callee != "builtin" and not func_pure(it, callee):
            return False
        return all(_expr(it, fn, a) for a in e.args) and all(_expr(it, fn, k.value) for k in e.keywords)
    return False
