"""Symbolic scalar values for pyvc.

One text, two readings: every class here overloads the Python operators so that a
contract / spec function written as an ordinary Python expression can be evaluated
either on concrete Python values (native replay) or on these symbolic values (VC
generation).  Control flow can not be overloaded: specs use And/Or/Not/Implies/ite.

Encoding assumptions (see DESIGN.md section 2.3):
  * Python int  -> SMT Int (exact; Python ints do not overflow)
  * x & M, x | M (M constant), x << k, x >> k (k constant) -> div / mod / * by powers
    of two.  For x & M this is exact for *all* integers x (infinite two's complement:
    x & (2^w-1) == x mod 2^w with the non-negative remainder, and SMT-LIB `mod` with a
    positive modulus is exactly that; x >> k == floor(x / 2^k) == SMT `div` for a
    positive divisor).
  * x ^ y, x | y, x & y with two non-constant operands -> bit-vectors (SBV); only the
    CRC needs it.
  * Python float -> SMT Real.  Float literals are read through their shortest decimal
    repr (Fraction(str(f))).  This is the "decifloat" abstraction: machine arithmetic
    treated as mathematical; the lemmas that justify it on the k/10 grid are checked
    on CPython by exhaustive enumeration on every run (pyvc/floatlemmas.py).
"""
from __future__ import annotations

import fractions

import z3

_ctr = [0]


def fresh_name(prefix: str) -> str:
    _ctr[0] += 1
    return f"{prefix}!{_ctr[0]}"


def reset_names() -> None:
    _ctr[0] = 0


class SymBranchError(Exception):
    """Native Python tried to branch on a symbolic boolean."""


class Sym:
    __slots__ = ("t",)

    def __init__(self, t):
        self.t = t

    def __repr__(self):
        return f"{type(self).__name__}({self.t})"

    def __hash__(self):
        return hash(self.t)


def _simp(t):
    return z3.simplify(t)


class SBool(Sym):
    def __bool__(self):
        s = _simp(self.t)
        if z3.is_true(s):
            return True
        if z3.is_false(s):
            return False
        raise SymBranchError(f"branch on symbolic boolean: {s}")

    def __eq__(self, o):
        return SBool(self.t == tobool_t(o)) if isinstance(o, (bool, SBool)) else False

    def __ne__(self, o):
        return Not(self == o)

    __hash__ = Sym.__hash__

    def __and__(self, o):
        return And(self, o)

    __rand__ = __and__

    def __or__(self, o):
        return Or(self, o)

    __ror__ = __or__

    def __invert__(self):
        return Not(self)

    # bool is an int in Python: True + 1 == 2
    def _asint(self):
        return SInt(z3.If(self.t, z3.IntVal(1), z3.IntVal(0)))

    def __add__(self, o):
        return self._asint() + o

    __radd__ = __add__

    def __lshift__(self, o):
        return self._asint() << o

    def __mul__(self, o):
        return self._asint() * o

    __rmul__ = __mul__


def tobool_t(x):
    if isinstance(x, SBool):
        return x.t
    if isinstance(x, bool):
        return z3.BoolVal(x)
    if isinstance(x, z3.BoolRef):
        return x
    raise TypeError(f"not a boolean: {x!r}")


def mkbool(t):
    """Wrap a z3 bool, collapsing constants to Python bools."""
    if isinstance(t, bool):
        return t
    s = _simp(t)
    if z3.is_true(s):
        return True
    if z3.is_false(s):
        return False
    return SBool(s)


def And(*xs):
    ts = []
    for x in xs:
        if isinstance(x, (list, tuple)):
            x = And(*x)
        if x is True:
            continue
        if x is False:
            return False
        ts.append(tobool_t(x))
    if not ts:
        return True
    return mkbool(z3.And(*ts)) if len(ts) > 1 else mkbool(ts[0])


def Or(*xs):
    ts = []
    for x in xs:
        if isinstance(x, (list, tuple)):
            x = Or(*x)
        if x is False:
            continue
        if x is True:
            return True
        ts.append(tobool_t(x))
    if not ts:
        return False
    return mkbool(z3.Or(*ts)) if len(ts) > 1 else mkbool(ts[0])


def Not(x):
    if isinstance(x, bool):
        return not x
    return mkbool(z3.Not(tobool_t(x)))


def Implies(a, b):
    return Or(Not(a), b)


def Iff(a, b):
    return And(Implies(a, b), Implies(b, a))


def is_sym(x) -> bool:
    return isinstance(x, Sym)


def _frac(f) -> fractions.Fraction:
    if isinstance(f, float):
        return fractions.Fraction(str(f))
    return fractions.Fraction(f)


def real_t(x):
    """z3 Real term for a numeric value."""
    if isinstance(x, SReal):
        return x.t
    if isinstance(x, SInt):
        return z3.ToReal(x.t)
    if isinstance(x, SBool):
        return z3.ToReal(x._asint().t)
    if isinstance(x, SBV):
        return z3.ToReal(x.to_int().t)
    if isinstance(x, bool):
        return z3.RealVal(int(x))
    if isinstance(x, (int, float, fractions.Fraction)):
        fr = _frac(x)
        return z3.RealVal(f"{fr.numerator}/{fr.denominator}")
    raise TypeError(f"not numeric: {x!r}")


def int_t(x):
    if isinstance(x, SInt):
        return x.t
    if isinstance(x, SBool):
        return x._asint().t
    if isinstance(x, SBV):
        return x.to_int().t
    if isinstance(x, bool):
        return z3.IntVal(int(x))
    if isinstance(x, int):
        return z3.IntVal(x)
    raise TypeError(f"not an int: {x!r}")


def _is_realish(x):
    return isinstance(x, (SReal, float, fractions.Fraction))


def _is_num(x):
    return isinstance(x, (int, float, bool, fractions.Fraction, SInt, SReal, SBool, SBV))


def mkint(t):
    s = _simp(t)
    if z3.is_int_value(s):
        return s.as_long()
    return SInt(s)


def mkreal(t):
    s = _simp(t)
    if z3.is_rational_value(s):
        fr = fractions.Fraction(s.numerator_as_long(), s.denominator_as_long())
        return float(fr) if fr.denominator != 1 else float(fr.numerator)
    return SReal(s)


def _runs(mask: int):
    """Contiguous runs of 1-bits in a non-negative mask as (lo, width)."""
    runs = []
    i = 0
    while mask >> i:
        if (mask >> i) & 1:
            lo = i
            while (mask >> i) & 1:
                i += 1
            runs.append((lo, i - lo))
        else:
            i += 1
    return runs


class SInt(Sym):
    # ---- arithmetic
    def _bin(self, o, f, rf=None):
        if _is_realish(o):
            return mkreal(f(real_t(self), real_t(o)))
        if isinstance(o, SBV):
            o = o.to_int()
        if not _is_num(o):
            return NotImplemented
        return mkint(f(self.t, int_t(o)))

    def __add__(self, o):
        return self._bin(o, lambda a, b: a + b)

    __radd__ = __add__

    def __sub__(self, o):
        return self._bin(o, lambda a, b: a - b)

    def __rsub__(self, o):
        return self._bin(o, lambda a, b: b - a)

    def __mul__(self, o):
        return self._bin(o, lambda a, b: a * b)

    __rmul__ = __mul__

    def __neg__(self):
        return mkint(-self.t)

    def __pos__(self):
        return self

    def __truediv__(self, o):
        return mkreal(real_t(self) / real_t(o))

    def __rtruediv__(self, o):
        return mkreal(real_t(o) / real_t(self))

    def __floordiv__(self, o):
        if isinstance(o, int) and not isinstance(o, bool) and o > 0:
            return mkint(self.t / z3.IntVal(o))
        raise NotImplementedError("// with non-constant or non-positive divisor")

    def __rfloordiv__(self, o):
        raise NotImplementedError("// by symbolic divisor")

    def __mod__(self, o):
        if isinstance(o, int) and not isinstance(o, bool) and o > 0:
            return mkint(self.t % z3.IntVal(o))
        raise NotImplementedError("% with non-constant or non-positive divisor")

    def __divmod__(self, o):
        return (self // o, self % o)

    # ---- bit operations
    def __lshift__(self, k):
        if isinstance(k, int) and k >= 0:
            return mkint(self.t * z3.IntVal(1 << k))
        raise NotImplementedError("<< by symbolic amount")

    def __rlshift__(self, o):
        # 1 << offset with symbolic offset: not needed by the code base
        raise NotImplementedError("<< by symbolic amount")

    def __rshift__(self, k):
        if isinstance(k, int) and k >= 0:
            return mkint(self.t / z3.IntVal(1 << k))
        raise NotImplementedError(">> by symbolic amount")

    def __and__(self, m):
        if isinstance(m, SBV):
            return m & self
        if isinstance(m, int) and not isinstance(m, bool) and m >= 0:
            acc = z3.IntVal(0)
            for lo, w in _runs(m):
                acc = acc + ((self.t / z3.IntVal(1 << lo)) % z3.IntVal(1 << w)) * z3.IntVal(1 << lo)
            return mkint(acc)
        if isinstance(m, SInt):
            raise NotImplementedError("& of two symbolic ints (use bit-vectors)")
        return NotImplemented

    __rand__ = __and__

    def __or__(self, m):
        if isinstance(m, int) and not isinstance(m, bool) and m >= 0:
            # x | m == x + (m & ~x) == x + m - (x & m)
            x_and_m = self & m
            return mkint(self.t + z3.IntVal(m) - int_t(x_and_m))
        raise NotImplementedError("| of two symbolic ints (use bit-vectors)")

    __ror__ = __or__

    def __xor__(self, m):
        if isinstance(m, SBV):
            return m ^ self
        raise NotImplementedError("^ on symbolic ints (use bit-vectors)")

    __rxor__ = __xor__

    # ---- comparisons
    def _cmp(self, o, f):
        if _is_realish(o):
            return mkbool(f(real_t(self), real_t(o)))
        if isinstance(o, SBV):
            o = o.to_int()
        if not _is_num(o):
            return NotImplemented
        return mkbool(f(self.t, int_t(o)))

    def __eq__(self, o):
        if o is None or isinstance(o, (str, bytes, tuple, list)):
            return False
        r = self._cmp(o, lambda a, b: a == b)
        return False if r is NotImplemented else r

    def __ne__(self, o):
        return Not(self == o)

    __hash__ = Sym.__hash__

    def __lt__(self, o):
        return self._cmp(o, lambda a, b: a < b)

    def __le__(self, o):
        return self._cmp(o, lambda a, b: a <= b)

    def __gt__(self, o):
        return self._cmp(o, lambda a, b: a > b)

    def __ge__(self, o):
        return self._cmp(o, lambda a, b: a >= b)

    def __index__(self):
        s = _simp(self.t)
        if z3.is_int_value(s):
            return s.as_long()
        raise SymBranchError(f"symbolic int used as a concrete index: {s}")


class SReal(Sym):
    def _bin(self, o, f):
        if not _is_num(o):
            return NotImplemented
        return mkreal(f(self.t, real_t(o)))

    def __add__(self, o):
        return self._bin(o, lambda a, b: a + b)

    __radd__ = __add__

    def __sub__(self, o):
        return self._bin(o, lambda a, b: a - b)

    def __rsub__(self, o):
        return self._bin(o, lambda a, b: b - a)

    def __mul__(self, o):
        return self._bin(o, lambda a, b: a * b)

    __rmul__ = __mul__

    def __truediv__(self, o):
        return self._bin(o, lambda a, b: a / b)

    def __rtruediv__(self, o):
        return self._bin(o, lambda a, b: b / a)

    def __neg__(self):
        return mkreal(-self.t)

    def _cmp(self, o, f):
        if not _is_num(o):
            return NotImplemented
        return mkbool(f(self.t, real_t(o)))

    def __eq__(self, o):
        if o is None or isinstance(o, (str, bytes, tuple, list)):
            return False
        r = self._cmp(o, lambda a, b: a == b)
        return False if r is NotImplemented else r

    def __ne__(self, o):
        return Not(self == o)

    __hash__ = Sym.__hash__

    def __lt__(self, o):
        return self._cmp(o, lambda a, b: a < b)

    def __le__(self, o):
        return self._cmp(o, lambda a, b: a <= b)

    def __gt__(self, o):
        return self._cmp(o, lambda a, b: a > b)

    def __ge__(self, o):
        return self._cmp(o, lambda a, b: a >= b)


class SBV(Sym):
    """Unsigned bit-vector backed integer (used for the CRC only)."""

    __slots__ = ("t", "w")

    def __init__(self, t, w=None):
        self.t = t
        self.w = t.size() if w is None else w

    def to_int(self):
        return SInt(z3.BV2Int(self.t, False))

    @staticmethod
    def _lift(o, w):
        if isinstance(o, SBV):
            return o
        if isinstance(o, int) and not isinstance(o, bool) and o >= 0:
            return SBV(z3.BitVecVal(o, max(w, o.bit_length(), 1)))
        if isinstance(o, SInt):
            return SBV(z3.Int2BV(o.t, w))
        raise NotImplementedError(f"cannot lift {o!r} to a bit-vector")

    def _ext(self, w):
        return self.t if self.w == w else z3.ZeroExt(w - self.w, self.t)

    def _bin(self, o, f):
        o = SBV._lift(o, self.w)
        w = max(self.w, o.w)
        return SBV(_simp(f(self._ext(w), o._ext(w))))

    def __and__(self, o):
        return self._bin(o, lambda a, b: a & b)

    __rand__ = __and__

    def __or__(self, o):
        return self._bin(o, lambda a, b: a | b)

    __ror__ = __or__

    def __xor__(self, o):
        return self._bin(o, lambda a, b: a ^ b)

    __rxor__ = __xor__

    def __rshift__(self, k):
        if isinstance(k, int):
            return SBV(_simp(z3.LShR(self.t, z3.BitVecVal(k, self.w))))
        raise NotImplementedError

    def __lshift__(self, k):
        if isinstance(k, int):
            w = self.w + k
            return SBV(_simp(self._ext(w) << z3.BitVecVal(k, w)))
        raise NotImplementedError

    def __add__(self, o):
        return self.to_int() + o

    __radd__ = __add__

    # x % 2**k, x // 2**k, x * 2**k on an unsigned value are mask, shift right and shift left (exact); other
    # divisors leave the bit-vector world (mathematical integers, still exact)
    def __mod__(self, o):
        if isinstance(o, int) and not isinstance(o, bool) and o > 0 and o & (o - 1) == 0:
            return self & (o - 1)
        return self.to_int() % o

    def __floordiv__(self, o):
        if isinstance(o, int) and not isinstance(o, bool) and o > 0 and o & (o - 1) == 0:
            return self >> (o.bit_length() - 1)
        return self.to_int() // o

    def __mul__(self, o):
        if isinstance(o, int) and not isinstance(o, bool) and o > 0 and o & (o - 1) == 0:
            return self << (o.bit_length() - 1)
        return self.to_int() * o

    __rmul__ = __mul__

    def __sub__(self, o):
        return self.to_int() - o

    def __eq__(self, o):
        if isinstance(o, (SBV, int)) and not isinstance(o, bool):
            o = SBV._lift(o, self.w)
            w = max(self.w, o.w)
            return mkbool(self._ext(w) == o._ext(w))
        if isinstance(o, SInt):
            return self.to_int() == o
        return False

    def __ne__(self, o):
        return Not(self == o)

    __hash__ = Sym.__hash__

    def __lt__(self, o):
        return self.to_int() < o

    def __le__(self, o):
        return self.to_int() <= o

    def __gt__(self, o):
        return self.to_int() > o

    def __ge__(self, o):
        return self.to_int() >= o

    def extract(self, hi, lo):
        return SBV(_simp(z3.Extract(hi, lo, self.t)))


# ---------------------------------------------------------------------------------
# generic helpers usable from specs on both concrete and symbolic values


def ite(c, a, b):
    """If-then-else on scalars (ints, reals, bools)."""
    if isinstance(c, bool):
        return a if c else b
    ct = tobool_t(c)
    if isinstance(a, (bool, SBool)) and isinstance(b, (bool, SBool)):
        return mkbool(z3.If(ct, tobool_t(a), tobool_t(b)))
    if _is_realish(a) or _is_realish(b):
        return mkreal(z3.If(ct, real_t(a), real_t(b)))
    if isinstance(a, SBV) or isinstance(b, SBV):
        a = SBV._lift(a, 1)
        b = SBV._lift(b, 1)
        w = max(a.w, b.w)
        return SBV(_simp(z3.If(ct, a._ext(w), b._ext(w))))
    if _is_num(a) and _is_num(b):
        return mkint(z3.If(ct, int_t(a), int_t(b)))
    raise TypeError(f"ite over non-scalars: {a!r} / {b!r}")


def eq(a, b):
    """Structural equality returning bool or SBool (never raises on mixed types)."""
    if a is None or b is None:
        return a is b
    if is_sym(a):
        r = a.__eq__(b)
        return False if r is NotImplemented else r
    if is_sym(b):
        r = b.__eq__(a)
        return False if r is NotImplemented else r
    if isinstance(a, (list, tuple)) and isinstance(b, (list, tuple)):
        if type(a) is not type(b) and not (isinstance(a, (list, tuple)) and isinstance(b, (list, tuple))):
            return False
        if len(a) != len(b):
            return False
        return And(*[eq(x, y) for x, y in zip(a, b)])
    r = a == b
    return r


def truth(x):
    """Python truthiness as bool / SBool."""
    if isinstance(x, SBool):
        return x
    if isinstance(x, (SInt, SReal)):
        return x != 0
    if isinstance(x, SBV):
        return x != 0
    return bool(x)


def fresh_int(prefix="i", lo=None, hi=None):
    v = SInt(z3.Int(fresh_name(prefix)))
    cs = []
    if lo is not None:
        cs.append(v >= lo)
    if hi is not None:
        cs.append(v <= hi)
    return v, And(*cs)


def fresh_bool(prefix="b"):
    return SBool(z3.Bool(fresh_name(prefix)))


def fresh_real(prefix="r"):
    return SReal(z3.Real(fresh_name(prefix)))


def trunc_int(x):
    """Python int(x) for a real: truncation toward zero."""
    if isinstance(x, (int, bool)):
        return int(x)
    if isinstance(x, float):
        return int(x)
    if isinstance(x, SInt):
        return x
    if isinstance(x, SBool):
        return x._asint()
    if isinstance(x, SReal):
        t = x.t
        return mkint(z3.If(t >= 0, z3.ToInt(t), -z3.ToInt(-t)))
    raise TypeError(f"int() of {x!r}")


def concretize(model, x):
    """Evaluate a (possibly symbolic) scalar under a z3 model to a Python value."""
    if isinstance(x, SBool):
        return z3.is_true(model.eval(x.t, model_completion=True))
    if isinstance(x, SInt):
        return model.eval(x.t, model_completion=True).as_long()
    if isinstance(x, SBV):
        return model.eval(x.t, model_completion=True).as_long()
    if isinstance(x, SReal):
        v = model.eval(x.t, model_completion=True)
        if z3.is_rational_value(v):
            return float(fractions.Fraction(v.numerator_as_long(), v.denominator_as_long()))
        return float(v.approx(20).as_fraction())
    return x
