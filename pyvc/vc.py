"""Obligation sets, the proof harness and the path-exploration driver."""
from __future__ import annotations

import time
import traceback

import z3

from . import sym
from .sym import SBool, SInt, SReal, And, Or, Not, Implies, eq, is_sym
from .values import (Unsupported, PyExc, MISSING, Class, Instance, EnumMember, SEnum, Function, Builtin,
                     BoundMethod, Module, Coroutine, BytesVal, ABytes, SStr, DequeVal, SetVal, Opaque,
                     all_dc_fields)
from .interp import Interp, Path, PathEnd, Obligation

REGISTRY = []  # list of ObligationSet


class ObligationSet:
    def __init__(self, name, fn, props, functions, kind="contract", assumptions=(), bounded=None, trusted=(), tier="quick", timeout_ms=None):
        self.name = name
        self.fn = fn
        self.props = list(props)
        self.functions = list(functions)  # qualified names of the /repo functions under contract here
        self.kind = kind  # contract | lemma | frame | canary
        self.assumptions = list(assumptions)
        self.bounded = bounded  # None, or a description of the bound (then never counted as proved)
        self.trusted = list(trusted)
        self.tier = tier  # quick osets run in both tiers; thorough ones only in the thorough tier
        self.timeout_ms = timeout_ms

    def __repr__(self):
        return f"<oset {self.name}>"


def oset(name, props, functions=(), **kw):
    def deco(fn):
        REGISTRY.append(ObligationSet(name, fn, props, functions, **kw))
        return fn
    return deco


from .harness import Harness, Outcome  # noqa: E402
from .values import MISSING  # noqa: E402,F811


# -------------------------------------------------------------------------------------
# exploration


class OsetReport:
    def __init__(self, oset):
        self.name = oset.name
        self.props = oset.props
        self.functions = oset.functions
        self.kind = oset.kind
        self.bounded = oset.bounded
        self.assumptions = list(oset.assumptions)
        self.trusted = list(oset.trusted)
        self.paths = 0
        self.obligations = {}  # name -> dict(status, paths, secs, backend, model, detail)
        self.undecided = []  # (reason)
        self.errors = []
        self.covers = {}
        self.xcheck = []
        self.secs = 0.0
        self.solver_secs = 0.0
        self.path_assumptions = set()
        self.samples = []

    def status(self):
        if self.errors:
            return "error"
        if any(o["status"] == "failed" for o in self.obligations.values()):
            return "failed"
        if self.undecided or any(o["status"] == "unknown" for o in self.obligations.values()):
            return "undecided"
        if not self.obligations:
            return "vacuous"
        return "discharged"

    def to_json(self):
        return {
            "name": self.name, "props": self.props, "functions": self.functions, "kind": self.kind,
            "bounded": self.bounded, "paths": self.paths, "status": self.status(),
            "obligations": self.obligations, "undecided": self.undecided, "errors": self.errors,
            "covers": self.covers, "secs": round(self.secs, 3), "solver_secs": round(self.solver_secs, 3),
            "assumptions": sorted(self.assumptions) + sorted(self.path_assumptions), "trusted": self.trusted,
            "executed": getattr(self, "executed", []),
            "xcheck": getattr(self, "xcheck", []),
        }


MAX_PATHS = 6000
TIME_BUDGET_S = float(__import__('os').environ.get('PYVC_OSET_BUDGET_S', '240'))


def run_oset(oset: ObligationSet, loader, max_paths=MAX_PATHS, obl_timeout_ms=None) -> OsetReport:
    rep = OsetReport(oset)
    t0 = time.time()
    loader.executed = set()
    work = [[]]
    while work:
        prefix = work.pop()
        if rep.paths >= max_paths:
            rep.undecided.append(f"path budget {max_paths} exhausted")
            break
        if time.time() - t0 > TIME_BUDGET_S:
            rep.undecided.append(f"time budget {TIME_BUDGET_S:.0f}s exhausted after {rep.paths} paths")
            break
        rep.paths += 1
        sym.reset_names()
        path = Path(prefix)
        if obl_timeout_ms:
            path.OBL_TIMEOUT_MS = obl_timeout_ms
        if oset.timeout_ms:
            # an obligation set that states its own budget (formulas the primary solver is known to be slow on,
            # e.g. sequences): branch-feasibility queries get the same budget; `unknown` counts as feasible (sound)
            path.FEAS_TIMEOUT_MS = min(path.FEAS_TIMEOUT_MS, oset.timeout_ms)
        it = Interp(loader)
        it.path = path
        it.undo = []
        _install_undo(it)
        h = Harness(it, oset.name)
        try:
            oset.fn(h)
        except PathEnd:
            pass
        except Unsupported as e:
            rep.undecided.append(f"unsupported: {e}")
        except PyExc as e:
            rep.errors.append(f"uncaught interpreted exception in proof script: {e.value.cls.name} {e.value.attrs.get('args')}")
        except sym.SymBranchError as e:
            rep.errors.append(f"proof script branched on a symbolic value: {e}\n{traceback.format_exc(limit=6)}")
        except Exception as e:  # checker bug
            rep.errors.append(f"checker exception: {type(e).__name__}: {e}\n{traceback.format_exc(limit=8)}")
        finally:
            for obj, name, old in reversed(it.undo):
                if old is MISSING:
                    obj.attrs.pop(name, None)
                else:
                    obj.attrs[name] = old
        if path.pos < len(prefix):
            rep.errors.append("non-deterministic replay: decision prefix not consumed")
        work.extend(path.pending)
        if path.xcheck and len(rep.xcheck) < 60:
            rep.xcheck.extend(path.xcheck[:max(0, 60 - len(rep.xcheck))])
        rep.solver_secs += path.solver_secs
        for a in path.assumed:
            rep.path_assumptions.add(a)
        for kind, name, ok in [n for n in path.notes if n[0] == "cover"]:
            rep.covers[name] = rep.covers.get(name, False) or ok
        for ob in path.obligations:
            cur = rep.obligations.get(ob.name)
            ent = {"status": ob.status, "paths": 1, "secs": round(ob.secs, 4), "backend": ob.backend,
                   "kind": ob.kind}
            if ob.detail:
                ent["detail"] = ob.detail
            if ob.status == "failed":
                ent["model"] = ob.model
                ent["decisions"] = list(path.trail)
            if ob.status == "unknown":
                ent["smt2"] = getattr(ob, "smt2", None)
            if cur is None:
                rep.obligations[ob.name] = ent
            else:
                cur["paths"] += 1
                cur["secs"] = round(cur["secs"] + ob.secs, 4)
                rank = {"discharged": 0, "unknown": 1, "failed": 2}
                if rank[ob.status] > rank[cur["status"]]:
                    keep_paths, keep_secs = cur["paths"], cur["secs"]
                    cur.clear()
                    cur.update(ent)
                    cur["paths"], cur["secs"] = keep_paths, keep_secs
                elif ob.status == "failed" and cur["status"] == "failed" and ent.get("model") is not None and (
                        cur.get("model") is None or len(ent["model"]) < len(cur["model"])):
                    keep_paths, keep_secs = cur["paths"], cur["secs"]
                    cur.clear()
                    cur.update(ent)
                    cur["paths"], cur["secs"] = keep_paths, keep_secs
                elif ob.backend != "syntactic" and cur.get("backend") == "syntactic":
                    cur["backend"] = ob.backend
        if len(rep.samples) < 2 and path.obligations:
            rep.samples.append({"path_decisions": len(path.trail), "pc_size": len(path.pc),
                                "obligations": [o.name for o in path.obligations][:6]})
    rep.secs = time.time() - t0
    rep.executed = sorted(f for f in loader.executed if f.startswith("pyairtouch"))
    loader.executed = None
    return rep


def _install_undo(it):
    """Record writes to objects that existed before this path (module-level singletons)."""
    orig = it.setattr
    gen0 = it.loader.gen0_ids

    def setattr_(obj, name, value):
        if isinstance(obj, Instance) and id(obj) in gen0:
            it.undo.append((obj, name, obj.attrs.get(name, MISSING)))
        return orig(obj, name, value)

    it.setattr = setattr_


def mark_generation0(loader):
    """Remember every Instance reachable from module namespaces after loading."""
    seen = set()
    stack = []
    for m in loader.modules.values():
        stack.extend(m.ns.values())
    while stack:
        v = stack.pop()
        if id(v) in seen:
            continue
        if isinstance(v, Instance):
            seen.add(id(v))
            stack.extend(v.attrs.values())
        elif isinstance(v, (list, tuple)):
            seen.add(id(v))
            stack.extend(v)
        elif isinstance(v, dict):
            seen.add(id(v))
            stack.extend(v.values())
            stack.extend(v.keys())
        elif isinstance(v, Class):
            seen.add(id(v))
            stack.extend(v.ns.values())
    loader.gen0_ids = seen
